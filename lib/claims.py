"""Per-property claims: the source of MANIFEST.json (lib/mkmanifest.py)."""

HOOK_COMMITS = ["80fcbe6"]

TODO = "check not built yet in this round; design in DESIGN.md section 5 (to be claimed when the TLA+ module and harness exist)"

CLAIMS = {
    "C14": {
        "text": "MqttTopics.tla: the contract is the set of live subscriptions with Matches / ValidFilter on character-level topic levels ('+' exactly one level, trailing '#' the remaining levels incl. the parent), "
                "actions Subscribe (a rejected call may apply nothing), Unsubscribe (a packet with a malformed filter removes one consistent subset of its well-formed ones; all of them for a clean packet), Disconnect, Takeover, Resume (a persistent session dropped and resumed keeps every filter with its own QoS); invariants RouteExact, NoResidue, Others; MqttTopicsImpl.tla (the trie: insert, remove with pruning, "
                "findSubscribers frontier walk, session bookkeeping) is checked to refine it. TLC-generated histories are replayed in lock-step on a real TopicManager with real Session objects and on a real "
                "Broker over loopback TCP with raw MQTT clients (10 probe topics after every operation); seeded random histories (4 clients, multi-byte and empty levels, SUBSCRIBE / UNSUBSCRIBE packets mixing well-formed and malformed filters, topics looked up both before and after the operation that touches them) are validated by TLC.",
        "note": "the zero-length filter/topic and $-topics are out of scope (MQTT-4.7.3-1; the paho decoder drops them); QoS of a routed client = QoS of one of its own matching subscriptions",
        "technique": "TLA+ spec + TLC refinement check (trie vs contract); model-based histories (TLC -simulate) replayed on TopicManager and Broker; TLC trace validation",
    },
    "C15": {
        "text": "MqttDelivery.tla: Must/May delivery sets at publish time (a QoS0 copy may be dropped only when the client's queue is full), pending / received / acked, client publish -> pipeline + PUBACK; "
                "invariants Fanout, OnlyRouted, NoResendAfterAck, PendingSound, NothingForgotten, PubAckSameId and liveness Redeliver under weak fairness; a sendMsgToClient-shaped layer refines it in its "
                "repaired form. TLC-simulated scenarios (subscriber populations with mixed QoS and overlapping filters, ack policies prompt/late/never/hold-first, publish bursts, session age = packet-id wrap, bystander connects/disconnects during fan-out, client publishes with id re-use / DUP=1 / per-packet pipeline verdict, stalled readers: transport held over an in-memory connection, more than QCap messages fanned out, a QoS1 PUBLISH on a full outbound queue - the PUBACK is modelled through the outbound queue and a drop-on-full variant is refuted) run on a real Broker with raw "
                "clients, every publish repeated K=30-40 times so that all visiting orders occur; negatives are decided at a barrier (no fan-out goroutine left + PING on every client), never by time-out; the "
                "event log is validated by TLC.",
        "note": "retransmission clause read as: the session's oldest unacknowledged message is retransmitted until acked (the code resends the head of the pending queue); 10 s deadline extended to 50 s before reporting",
        "technique": "TLA+ spec + TLC model checking (safety + liveness); scenario MBT (TLC -simulate) on a real Broker; TLC trace validation",
    },
    "C16": {
        "text": "MqttSession.tla: one client id with owner, session existence, clean flag, subscriptions and per-connection status; implementation-shaped actions ConnectLocked, CloseAsync, Resub, Subscribe, "
                "NetDrop, teardown steps T1-T4, WatchDelete, AdminDelete; invariants SuccessorIntact (Registered, SessionLive, Routed), ResumeOrDiscard, SupersededEndChangesNothing, AdminDeleteDisconnects - "
                "all interleavings of three connections checked by TLC (675 k states) for the repaired teardown, refuted for teardown keyed by client id (the defect that was repaired). Schedules generated from "
                "the contract (528 quick / 5 119 thorough, incl. resume chains) are executed on a real Broker with raw clients; the old connection's teardown is parked at three hook-free gates (will-message "
                "pipeline call, blocking store delete, Disconnect pipeline before removeClient); admin delete raced by the owner's SUBSCRIBE; the asynchronous session store is part of model and schedules (a put parked in the store while a SUBSCRIBE queues behind it, back-to-back SUBSCRIBE bursts; a doStore that skips gone sessions or writes out of order is refuted); registration, session map, session content and actual delivery are observed after every step and validated by TLC.",
        "note": "no delete notification in flight when a client connects (a stale notification overtaking a plain reconnect is outside the text); interleavings inside handleConn explored in the model only",
        "technique": "TLA+ spec + TLC model checking of all interleavings; schedule MBT on a real Broker with hook-free parking; TLC trace validation",
    },
    "C01": {
        "text": "TLA+ contract of HTTP routing (HttpRouter.tla: RouteSpec = lexicographically first entry whose host (port stripped), path (exact/prefix/regexp), method and header conditions match, "
                "rewrite per mode, else 400 > 405 > 404, unknown backend 503; strings as character sequences, Strings.tla) and an implementation-shaped Search (two loops, two mismatch flags); TLC checks "
                "the refinement for all rule sets over a template universe x 180 requests (incl. method tokens no configuration can list - PURGE, lower-case get - and decoded paths with a %XX sequence left); TLC-generated behaviours are replayed on the real mux (cacheSize 0) and seeded random richer configurations "
                "(longer paths, up to 4x4 entries, sibling entries for one URL, ports, IPv6 hosts, non-standard request methods, percent sequences in paths and rewrite targets) run on the real mux are judged by TLC against the contract. At most one step per generated behaviour deletes the backend that has just served a request from the mapper (no reload): later requests routed to it must get 503.",
        "note": "regexps of the family ^?lit(.*)?$? (what the code does with them: unanchored match, $1 replacement); in-process mux.ServeHTTP; HTTP/3 stubbed; acme-challenge bypass excluded",
        "technique": "TLA+ spec + TLC refinement check; model-based test generation (TLC -simulate) replayed on the real mux; TLC trace validation",
    },
    "C05": {
        "text": "IPFilter.tla: Denied as the contract, AllowImpl/chain as implementation layer, exhaustive at width 2 with two address families; every decision vector replayed on the real IPFilter and random "
                "real v4/v6 addresses and CIDRs (bits computed independently with net/netip) validated by TLC. Mux level (HttpRouter.tla): (i) a client denied by the server, owning-rule or route filter "
                "gets 4xx (403 if the route exists) and is never dispatched, (ii) a client allowed everywhere is routed as without filters, with and without the cache and after any history incl. evictions, "
                "(iii) a client denied only by the filter of a host-matching rule passed over on the way to its route reaches a backend with the cache and after any history iff it does on the cache-less server - model-checked; TLC behaviours replayed on four real muxes (filters / filter-less twin x cache off / on); random traces (clients via RemoteAddr, X-Forwarded-For, X-Real-IP) validated by TLC. The decision table is also exhaustive at width 3 for filters holding two same-size nets (siblings / adjacent non-siblings / apart) in one list; clients arrive via RemoteAddr, X-Forwarded-For or X-Real-IP alone, or as the only public address among private / loopback / link-local proxy hops (req.via).",
        "note": "unambiguous client address only (realip's choice among several forwarded addresses is third-party); a client denied only by a filter of a rule or entry the request does not match may get 403 or be routed",
        "technique": "TLA+ spec + TLC model checking (exhaustive decision table, refinement with cache and evictions); TLC vectors/behaviours replayed on the real code; TLC trace validation",
    },
    "C12": {
        "text": "HttpRouter.tla with the route cache: Request (hit branch, insertions), Evict (any entry at any time - a sound abstraction of ARC), Purge; property Transparent: every outcome with the cache equals "
                "the cache-less reference, for every history; TLC proves it for the repaired cache design and refutes it for the pinned one (four defect classes, all reproduced on the real mux and repaired). "
                "TLC-generated histories (requests biased towards key neighbours: same key, colliding split, other host spelling, other method only; focus universes with method-restricted / header-conditioned / unrestricted sibling entries for one URL) and random 20-200-request traces run on twin real muxes (cacheSize 1, 2, 3, 64 vs 0) "
                "and are judged against TLC's reference. Focus universes also for rewrite targets with requests for the rewritten URL and for one entry reached from two hosts by different ways (one through a filtered rule).",
        "note": "ARC abstracted to arbitrary eviction; if the cache-less mux itself departs from the reference the run is inconclusive (that is C01), not a C12 violation",
        "technique": "TLA+ spec + TLC model checking; model-based histories (TLC -simulate) replayed on twin real muxes; TLC trace validation",
    },
    "C18": {
        "text": "TLA+ contract of the cluster lock (ClusterMutexContract) and an implementation-shaped model of mutex.go over etcd's lock recipe (key per member lease generation, per-object local lock, time-outs, lease re-grant after a failed keep-alive with the session kept): TLC checks "
                "Mutex, NoResidue, termination under fairness and refinement. TLA+ contract of admin-API mutations (atomic, gap-free versions, 409/400, refusals modify nothing); a per-etcd-operation model "
                "refines it under the lock (not without it, nor with a prefix delete over nested object names sv < svc < svc-canary, which generator, trace and harness use). TLC-generated request histories are replayed on real api.Servers of two members on an embedded etcd; recorded concurrent Lock/Unlock histories "
                "(2-3 members plus a member whose lease keep-alive is made to fail while it holds the lock, handles obtained per call, injected etcd latency, time-outs) and concurrent admin-API histories are validated by TLC as linearisable with the versions pinned. Model parameters LocalWaitTimeout and EvictOnUnlock both refute Mutex; recorded scenarios include same-member time-outs and kept vs per-call handles on one member. HoldWatchdog (a hold-time watchdog releasing the mutex under a slow holder) refutes Mutex and SkipSamePut (an identical put skipped together with its version bump) refutes the refinement; recorded mutex scenarios include critical sections of 0.5 to 10 times the request time-out, configured per member (1 s, 2 s, the default 10 s in the thorough tier) or set on the handle, with waiters of the same and of other members; generated and concurrent admin histories re-send accepted content (the same PUT twice, an update equal to the created spec).",
        "note": "etcd's lock recipe and leases trusted; lease expiry/revocation while holding not reproduced; failed keep-alive (re-grant) reproduced; mock supervisor with two test kinds; 5xx replies admitted as no-ops",
        "technique": "TLA+ spec + TLC model checking (refinement, liveness); model-based tests (TLC -simulate) on real servers; TLC trace validation (linearisation search)",
    },
    "C19": {
        "text": "TLA+ model of syncer.run (first pull, watch pull, ticker pull, compare, blocking send, cancelled watch, server restart): TLC checks RealStates, Monotone, Distinct, FirstIsCurrent and Converges as a "
                "temporal property under fairness (violated without the ticker). Recorded histories of real syncers (Sync, SyncRaw, SyncPrefix, SyncRawPrefix; fast, slow and stalling consumers) on an embedded "
                "etcd with server restarts and compaction-cancelled watches are validated by TLC against the contract; the store history is rebuilt from the writer's inv/ret events; convergence is checked "
                "as a bounded-deadline claim; exactness and atomicity of the pull are model parameters (a wider pull violates Distinct, an unpinned two-page pull violates RealStates); histories include a sibling key having the watched key as name prefix and 1300-key prefixes with never-repeated values and back-to-back multi-key transactions. Model parameters StaleGuard (refutes Converges) and ResyncAfter (refutes Distinct); histories end with operations chosen by key modification order (delete newest / oldest, same-value put, recreate); outages of three or more consecutive failed pulls with unchanged content (real server stop and request failures injected at a member's etcd client).",
        "note": "the consumer's view starts empty (an initially empty prefix needs no delivery); 40 s convergence deadline at a 200 ms pull interval; no writes while the server is down; etcd reads atomic",
        "technique": "TLA+ spec + TLC model checking incl. liveness; TLC trace validation of recorded executions",
    },
    "C17": {
        "text": "TLA+ contract of a run-time changeable connection cap (specs/ConnCapContract.tla) and implementation-shaped model of x/sync's FIFO weighted semaphore, asynchronous SetMaxCount, LimitListener "
                "acceptor and release-once close (specs/ConnCap.tla), model-checked; refinement shown for the ordered-tuner code and refuted for unordered tuners (the defect that was repaired). TLC schedules "
                "executed on the real LimitListener and Semaphore with the background adjustments ordered through the sem.resize gate (hook H1); concurrent histories of the real Semaphore, LimitListener and "
                "HTTPServer runtime (maxConnections changed by reload, raw clients, half-close) validated by TLC against the contract with a conservative open counter; schedules and overlap cases include bursts of cap changes on a full server covering every sequence of call kinds (grow, shrink, shrink below usage, same value). MQTT half (specs/MqttConnCap*.tla): "
                "connect / takeover / disconnect histories of a real Broker with raw clients validated by TLC (never more than maxAllowedConnection registered clients; refusals are server-unavailable; attempts parked in the Connect pipeline between the early check and registration; clients slow to read their CONNACK in gated and concurrent runs, registration after the CONNACK write refuted in the model). Connections closed by two Close calls that really overlap inside a slow close of the underlying connection (the slot comes back exactly once); server level also executes TLC-generated reload sequences mixing run-time cap changes with restarting reloads, the resulting cap probed with cap+1 clients.",
        "note": "a change counts as applied when SetMaxCount's done channel closes; at server level completion is assumed after a settle time and re-checked at 5x; HTTP/3 not covered; Go scheduler explored "
                "by stress plus gate, not exhaustively",
        "technique": "TLA+ spec + TLC model checking (refinement); TLC-generated schedules replayed on the real code through a scheduling gate; TLC trace validation",
    },
    "C04": {
        "text": "TLA+ contract of the pool as load balancer (LoadBalance.tla: generations of the server list incl. discovery with static fallback, least-chosen rule for roundRobin, per-generation stickiness, "
                "positive-weight rule, nil iff empty) model-checked with all clauses as invariants; an implementation-shaped layer (atomic.Value, fetch-add, hash mod n, weighted walk) is checked to refine it. "
                "TLC-generated behaviours (incl. requests held between the load of the pool's balancer and the choice across list replacements, and round-robin balancers that have already served 2^b-d selections, b <= 62), random pools, concurrent selector/watcher histories (linearisation by TLC) and 8-goroutine bursts (also across a power of two) of the real Proxy are validated by TLC against the contract; thorough tier: Apalache discharges the inductive fairness invariant of round robin for an unbounded number of selections (N = 2..5). Pools with a retry policy (LoadBalanceRetry.tla: every attempt of a request is a selection in the list current at that attempt, failed for lack of a server only on an empty list; retry of a hashed key sticky) are model-checked and exercised with scripted failing attempts (one server, hash policies, more attempts than servers, replacements between attempts).",
        "note": "discovery played by calling useService; stickiness per list generation; k < 2^63 (aged state obtained by advancing the balancer's verified free-running counter); Go scheduler explored by barrier rounds and stress (+ -race in thorough), not exhaustively",
        "technique": "TLA+ spec + TLC model checking + refinement; TLC -simulate MBT; TLC trace validation with linearisation search",
    },
    "C10": {
        "text": "TLA+ contract of one request through retry / time-out / breaker (Resilience.tla) model-checked; the ServerPool.handle layer is checked to refine it. Every TLC-enumerated scenario (policy x outcome "
                "script x cancel point x stream x breaker x time-out x deadline of the client's own context none / later / earlier than the pool time-out) is run on the real Proxy with real policies and a scripted transport, and the recorded attempts, gaps, cancellation, final outcome and "
                "breaker records are validated by TLC.",
        "note": "real time is one-sided (lower bounds on gaps, attempt start vs recorded cancel time); mistimed scenarios are discarded; rejections are re-checked 3x slower before reporting",
        "technique": "TLA+ spec + TLC model checking + refinement; TLC scenario enumeration run on the real code; TLC trace validation",
    },
    "C06": {
        "text": "TLA+ contract of Validator.Handle over abstract credential records (specs/Validator.tla: Accept = every enabled method valid; single-mutation theorem; exp/nbf/iat against a clock; ETCD "
                "credential snapshots; hot updates = new generation built with Inherit: JWT secret/algorithm rotated, access keys removed/re-keyed, Basic users changed, methods dropped/added; access-key classes incl. empty id / empty secret), model-checked by TLC; every (configuration x record) vector is enumerated by TLC and concretised >= 3x on the real filter through wire format + httpprot.NewRequest + "
                "FetchPayload (independent HMAC JWT issuer; repository signer as client, mutated after signing; harness-written htpasswd / etcd snapshots); all logged cases are validated by TLC as a trace; "
                "an implementation-shaped layer is checked to refine the contract. Basic users include one whose password begins/ends with white space; presented classes include credentials differing from configured ones only by leading/trailing ASCII/Unicode white space, in both directions.",
        "note": "MAC strength, golang-jwt and go-htpasswd trusted; signature TTL uses time.Now() so ages are chosen >= 20 min off the boundary; OAuth2, FILE-mode reload, Host default port and tab-padded "
                "header values are outside; a hot update is atomic for requests; outcomes the text leaves open are free",
        "technique": "TLA+ spec + TLC model checking; TLC vector enumeration (-dump) and -simulate behaviours replayed on the real code; TLC trace validation",
    },
    "C09": {
        "text": "TLA+ contract of the limiter (reservation table per refresh cycle; per-period release bound, wait <= timeout, immediate when spare, rejected only with a full horizon) with the (cycle, tokens) "
                "arithmetic of acquirePermission / MultiRateLimiter as implementation-shaped layer refining it, model-checked; MQTT request+byte form as carried debt with the window bound; MultiRateLimiter with timeout > 0: wait bound; filter spec "
                "(first matching rule, unmatched never limited, 429/rateLimited, unchanged rule keeps its limiter across Inherit incl. defaulted policies). TLC-generated behaviours replayed on the real "
                "limiters/filter; seeded sequential, concurrent (linearisation) and MQTT histories of the real code validated by TLC. Filter URL rules include regular-expression and empty patterns and method lists; an unchanged rule must keep matching across Inherit.",
        "note": "virtual clock via ratelimiter.nowFunc; filter replay at the start of the first cycle (1 h period or measured < 8 ms) with cancelled request contexts; mqttproxy limiter clock moved via private "
                "startTime with real-clock brackets; MultiRateLimiter: all clauses for timeout 0 (the only way easegress builds it); with timeout > 0 only the reply-level clause wait <= timeoutDuration is checked (the unchanged code can release more than L per period there: lead outside the quantifier); Apalache inductive invariant is extra, not verdict-bearing",
        "technique": "TLA+ spec + TLC model checking (refinement invariant); MBT via TLC -simulate replayed in lock-step; TLC trace validation incl. linearisation and interval search; Apalache inductive check (thorough)",
    },
    "C11": {
        "text": "TLA+ model of hot update (specs/HotUpdate.tla): mux instance generations with separate rules/options versions, namespace map, pipeline generation objects with per-filter state cells, and the "
                "updater's Build/Store, Inherit/Close/Store, no-op apply, create/delete steps interleaved with request steps LoadInst/Route/GetHandler/RunFilter (in-flight Enter/Exit for Proxy). The clauses "
                "Consistent, NoFailure, Available, Visibility, Isolation, Settled, NoOp are model-checked exhaustively at small bounds. TLC-generated schedules are replayed step by step on the real mux + "
                "TrafficController + Pipelines + RateLimiter/Proxy, on the TrafficController alone, on bare filters, and on one-filter pipelines of every filter kind buildable offline. Pipeline generations are [filters version, resilience version] and updates change either or both; the configuration of the generation a request holds is observed on the real code (RateLimiter limit still enforced on the new generation after Close(prev); Proxy attempts = retry policy of the held generation) and compared with the invariants Configured / Limited. Stress histories of the "
                "real mux/TrafficController/HTTPServer object, with concurrent requests against an updater, are validated by TLC against the model. Updates that only switch the policy a RateLimiter URL rule falls under are generated too; a second module, HotUpdateGF.tla, models GlobalFilter generations with optional before/after pipelines (keep / change / drop / add per update; Installed, Consistent, Visibility, Servable) and its schedules are replayed on real GlobalFilter objects through Inherit.",
        "note": "Inherit/Close shapes of stateful filters are observed on the real code and fed to the model; the harness stops requests and updates only at hook-free points; HTTP/3 is stubbed; Go scheduler "
                "interleavings inside a step are explored by stress (+ -race in thorough), not exhaustively; WasmHost is not swept (build tag); the Kafka reproduction is timing-dependent",
        "technique": "TLA+ spec + TLC model checking; model-based schedule generation (TLC -simulate) replayed on the real code; TLC trace validation with linearisation search",
    },
    "C20": {
        "text": "TLA+ contract of the object life-cycle (specs/Lifecycle.tla: per snapshot and name exactly one Init / Inherit-from-live / Close, none when unchanged, Close+Init on kind change, live set = latest "
                "snapshot, independent of panics) model-checked with every clause as invariant/action property; an implementation-shaped model of ObjectRegistry.applyConfig, watcher events and both handlers "
                "(LifecycleImpl) is checked to refine it; all canonical TLC-generated snapshot sequences (<= 2 snapshots x 3 names exhaustively, sampled length 3, scripted panics) are replayed on a real "
                "Supervisor / RawConfigTrafficController / TrafficController fed through the mocked syncer and compared per step; seeded bursty 20-40-snapshot histories with panicking callbacks - bursts of 1-3 snapshots and bursts of 14-32 snapshots pushed while the watchers' handlers are held back by gated/slow callbacks (more outstanding events than the watcher channel buffers) - are validated "
                "by TLC against the contract; the implementation model includes the bounded watcher channel (blocking send refines, dropping send rejected). Histories whose first 5-8 snapshots arrive while the supervisor is being created are validated against the contract's start-up clause (each group begins from the then-latest snapshot, then every snapshot counts); the implementation model has watcher registration as its own action (atomic registration refines, copy-then-register-later rejected). The empty configuration is a first-class snapshot: delivered to the registry as a map without entries (no harness sentinel objects); the families s1 {} s3 (thorough: s1 s2 {} s4, s1 {} s3 {} s5) are replayed exhaustively, the empty step compared at the next barrier, one snapshot in eight of every recorded history is empty; LifecycleImpl rejects a registry that ignores it (SkipEmpty). The TrafficController's Apply path (ApplyTrafficGate / ApplyPipeline, Delete*, Clean) is modelled in LifecycleApply.tla (refines the contract; an Apply that does not store on the inherit branch is rejected) and decided on a bare TrafficController: all 4-snapshot sequences of one name over gate / pipeline x 3 versions (thorough: plus all canonical 3-snapshot sequences over 2 names), sampled 6-8-step 3-name sequences with panics, and 30-200 random 30-40-snapshot histories validated by TLC.",
        "note": "callbacks observed through test-only kinds (spec equality = ver); the syncer itself is C19; order Close(old)/Init(new) of a kind change left free; the real Pipeline kind's separate store only modelled; on the Apply path the harness plays the owner (any order of Apply / Delete / Clean, re-apply of unchanged specs), a change of kind inside one category is not generated there",
        "technique": "TLA+ spec + TLC model checking (refinement); exhaustive model-based test generation (tlc -dump/-simulate) replayed on real code; TLC trace validation",
    },
    "C02": {
        "text": "TLA+ contract of pipeline flow execution and spec validation (specs/PipelineFlow_Contract.tla) plus an implementation-shaped model of Spec.Validate/ValidateJumpIf, reload, "
                "HandleWithBeforeAfter and the doHandle loop (specs/PipelineFlow.tla); TLC checks the refinement and the property's clauses for all flows up to a bound x all result vectors; every "
                "terminal state is exported and replayed on real Pipeline objects built through supervisor.NewSpec (Handle and HandleWithBeforeAfter) and on real GlobalFilter objects; TLC-simulated "
                "longer flows are replayed too; an exhaustive family of jumpIf keys placed everywhere relative to the kind's declared results (empty, case variant, prefix, extension, other kind's result; kinds with 0-3 results and a case-only pair) checks that exactly the declared results are accepted, also for GlobalFilter before/after specs; seeded random larger configurations run on the real code are validated by TLC against the contract.",
        "note": "test-only scripted filter kinds; node alias observed through the pipeline stats tag, namespace through the request the filter sees; an aliased END node may or may not be a jump target "
                "(both readings admitted); no alias equals END; GlobalFilter sides given with an explicit flow",
        "technique": "TLA+ spec + TLC model checking (refinement of a declarative contract by an implementation-shaped layer); exhaustive model-based test generation (TLC -dump) and sampling (-simulate) replayed on the real code; TLC trace validation",
    },
    "C13": {
        "text": "TLA+ grammar of the configuration space (ConfigSpaceGrammar: per kind, records over value classes plus the validation rules the repository states) and life-cycle automaton "
                "Validate->{rejected,accepted}->Create->Init->Handle*->Inherit->Handle*->Close with a panic possible at every call (ConfigSpace), model-checked (contract: NoPanicAfterAccept, "
                "RuleRejected, protocol properties; world: panic after acceptance reachable at every call). TLC enumerates the grammar (exhaustive Hamming balls around a working base configuration "
                "per kind, random deeper members); the Go harness renders each configuration to YAML, passes it through the admin API's validation (Supervisor.NewSpec / resilience.NewPolicy) and "
                "drives accepted ones through the real object's life-cycle under recover(), logging every call; TLC validates every recorded life-cycle against the automaton with "
                "NoPanicAfterAccept and RuleRejected evaluated on each observed state; violations are minimised to kind + field classes + call + top repository frame.",
        "note": "one concrete value per class; requests = 26 HTTP classes incl. 12 paths derived from the configured paths (bare / trailing slash / extra segments / case / percent-encoded / no boundary) and 4 signature-bearing requests, 18 real-socket classes for HTTPServer, 6 resilience scenarios incl. open -> half-open -> closed -> open; TLC reports (kind, class) coverage and the run is inconclusive if a listed class was not sent; mocked cluster, local backends; KafkaMQTT/Kafka/RemoteFilter/CertExtractor validate-only; "
                "WasmHost, MQTT-session filters, registries, ACME, mesh, tracing, HTTP/3 out of scope; 'does not panic' is observed (recover / process crash attributed to the call in flight), not predicted; request classes include requests whose context ends while they are served and a client aborting mid-body; enum-like string fields carry the value class \"valid value in another letter case\"; every string validated by a pkg/v format (duration, regexp, httpmethod, urlname, base64, url, uri, ipcidr - found by walking the rendered spec along the repository's spec types) carries the value class 'valid value with one leading / trailing blank' (grammar field pad); the run is inconclusive if the grammar's carrier table and the repository's format tags disagree at kind level",
        "technique": "TLA+ spec + TLC model checking; TLC as combinatorial generator (-dump / -simulate) of configurations driven on the real code; TLC trace validation of recorded life-cycles",
    },
    "C03": {
        "text": "TLA+ model of one HTTP exchange (specs/ProxyMsg*.tla): the contract is one predicate per clause of the property (percent-decoding and Go's URL escaping "
                "modelled on byte sequences); an implementation-shaped layer has one operator per stage mux -> RequestAdaptor -> prepareRequest/cloneHeader -> transport -> "
                "compress -> FetchPayload -> ResponseAdaptor -> write-out, including retries, a pool memory cache (sequences of 3 identical requests; hit or miss both admitted, the answer must stay the backend's and well-framed), backend responses that break off (no complete decodable success may reach the client) and server URLs with / without port (IPv4, bracketed IPv6). TLC checks that the (repaired) model refines the contract over the full toggle "
                "product and that each defect left in violates it. TLC-enumerated scenarios (-dump) are run as real exchanges over loopback sockets (real mux.ServeHTTP and Pipeline, "
                "raw TCP backends, hand-framed client) and TLC evaluates the contract on every recorded exchange. A warm-up exchange followed by 2-4 requests in flight at the same time on one proxy instance (specs/ProxyMsgPar.tla: interleaved stage machine, each exchange faithful and answered as if alone; shared-compressor negative control); Content-Length of the bodiless answer to HEAD compared end-to-end; 304 responses; media type of response and request body rotating over 7 classes.",
        "note": "path 'unchanged' = equal after percent-decoding, raw query byte-equal; hop-by-hop removal judged by the client's values; gzip and sha256 computed in the harness; "
                "host names only with a port; a broken backend response is judged only for status < 400; HTTP/2, HTTP/3, mirror pool, mTLS, 204/304 and non-gzip encodings outside the claim",
        "technique": "TLA+ spec + TLC model checking; model-based test generation (TLC -dump) run over sockets on the real code; TLC trace evaluation of the recordings",
    },
    "C07": {
        "text": "Limit selection and FetchPayload as a TLA+ step machine (specs/ProxyMsgLimit.tla) refine the body-limit contract (ProxyMsgDefs part 4) for both readings of the 4MB default; "
                "all scenarios (2 directions x limit pairs x declared/chunked/close-delimited x sizes L-1, L, L+1, 4L, streams, lying lengths x route cache on/off with repeated identical requests (requests) x proxy compression on/off (responses)) run over sockets with real 4MB+-1 and 16MiB bodies "
                "through the real mux and Proxy; TLC evaluates the contract on the recordings. The media type of the body is a scenario dimension (none / octet-stream / text / json / event-stream / grpc / multipart); a code model exempting a media type from the limit must violate the contract.",
        "note": "'4MB' read as the interval [4,000,000, 4,194,304]; a request with a lying Content-Length is recorded but not judged (not in the property text); explicit limits are scaled",
        "technique": "TLA+ spec + TLC model checking; model-based test generation (TLC -dump) run over sockets on the real code; TLC trace evaluation of the recordings",
    },
    "C08": {
        "text": "TLA+ contract of the CLOSED/OPEN/HALF_OPEN automaton (specs/CircuitBreaker.tla) model-checked exhaustively at small bounds "
                "with every clause of the property as invariant/action property; TLC-generated behaviours over a policy grid are replayed in lock-step "
                "on the real CircuitBreaker under a virtual clock; seeded random sequential and concurrent histories of the real breaker are validated "
                "by TLC against the contract (linearisation search for the concurrent ones). Pool level: the request protocol over the breaker contract (CircuitBreakerPool.tla: short-circuited => 503 / "
                "shortCircuited, no server contacted, exactly one record per admitted request) is model-checked and real Proxy request sequences (stream and buffered bodies, with and without retry, panicking "
                "handlers) are validated by TLC.",
        "note": "virtual clock through the package variable nowFunc; pool-level traces use real time with one-sided waits (mistimed traces are discarded); time window interpreted at one-second granularity; Go scheduler explored by stress (+ -race in thorough), not exhaustively",
        "technique": "TLA+ spec + TLC model checking; model-based test generation (TLC -simulate) replayed on the real code; TLC trace validation with linearisation search",
    },
}

NOT_APPLICABLE = {pid: TODO for pid in ["C%02d" % i for i in range(1, 21)] if pid not in CLAIMS}

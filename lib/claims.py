"""Per-property claims: the source of MANIFEST.json (lib/mkmanifest.py)."""

HOOK_COMMITS = ["80fcbe6"]

TODO = "check not built yet in this round; design in DESIGN.md section 5 (to be claimed when the TLA+ module and harness exist)"

CLAIMS = {
    "C08": {
        "text": "TLA+ contract of the CLOSED/OPEN/HALF_OPEN automaton (specs/CircuitBreaker.tla) model-checked exhaustively at small bounds "
                "with every clause of the property as invariant/action property; TLC-generated behaviours over a policy grid are replayed in lock-step "
                "on the real CircuitBreaker under a virtual clock; seeded random sequential and concurrent histories of the real breaker are validated "
                "by TLC against the contract (linearisation search for the concurrent ones).",
        "note": "virtual clock through the package variable nowFunc; time window interpreted at one-second granularity; Go scheduler explored by stress (+ -race in thorough), not exhaustively",
        "technique": "TLA+ spec + TLC model checking; model-based test generation (TLC -simulate) replayed on the real code; TLC trace validation with linearisation search",
    },
}

NOT_APPLICABLE = {pid: TODO for pid in ["C%02d" % i for i in range(1, 21)] if pid not in CLAIMS}

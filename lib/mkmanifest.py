#!/usr/bin/env python3
"""Regenerates /verif/MANIFEST.json from the table below (one source of truth)."""
import json
import os
import sys

V = os.path.dirname(os.path.dirname(os.path.abspath(__file__)))
sys.path.insert(0, V)
from lib.claims import CLAIMS, NOT_APPLICABLE, HOOK_COMMITS  # noqa

BASELINE_OFF = ("cd /repo && GOFLAGS=-mod=mod go test -json -vet=off -count=1 -timeout 25m ./...")

m = {
    "version": 1,
    "setup_cmd": "./check --setup",
    "hooks": {
        "guard": "verif",
        "enable": "go test -tags verif -overlay <harness overlay> -modfile <go.mod + quic-go stub> (built from /repo's working tree by ./check)",
        "baseline_off_cmd": BASELINE_OFF,
        "source_commits": HOOK_COMMITS,
        "add_only": True,
    },
    "engines": [
        {"name": "tlc", "path": "/opt/veriftools/tla/tla2tools.jar", "serves_properties": sorted(CLAIMS),
         "kind_free_text": "TLA+ specifications in /verif/specs checked with TLC: exhaustive model checking, behaviour generation (-simulate / -dump) and trace validation"},
        {"name": "go-harness", "path": "/verif/harness", "serves_properties": sorted(CLAIMS),
         "kind_free_text": "in-package Go harnesses injected with go test -overlay; replay TLC behaviours on the real code and record traces for TLC"},
    ],
    "checks": [],
    "not_applicable": [{"property_id": k, "reason": v} for k, v in sorted(NOT_APPLICABLE.items())],
    "notes": "All verdicts come from behaviour of the real code compared with / validated against the TLA+ contract; exit 2 = inconclusive (build failure, TLC time-out, vacuity).",
}
for pid in sorted(CLAIMS):
    c = CLAIMS[pid]
    m["checks"].append({
        "property_id": pid,
        "quick_cmd": "./check %s --tier quick" % pid,
        "thorough_cmd": "./check %s --tier thorough" % pid,
        "evidence_file": "/verif/evidence/%s.json" % pid,
        "replay_cmd_template": "./check %s --replay {path}" % pid,
        "engine": "tlc",
        "level_claimed": {"category": "model_checking", "text": c["text"], "design_ref": c.get("ref", "DESIGN.md section 5/" + pid)},
        "level_note": c["note"],
        "technique": c["technique"],
    })
json.dump(m, open(os.path.join(V, "MANIFEST.json"), "w"), indent=1)
print("MANIFEST.json: %d checks, %d not_applicable" % (len(m["checks"]), len(m["not_applicable"])))

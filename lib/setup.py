"""./check --setup : offline preparation after a fresh restore.
 - parses every specification with SANY (a syntax error anywhere is caught before any check runs)
 - compiles all harness test binaries once so that the Go build cache is warm."""
import glob
import os
import subprocess
import sys

from lib import vlib


def run():
    import shutil
    rc = 0
    for tool in ("java", "go", "git"):
        if not shutil.which(tool):
            print("missing tool: " + tool)
            rc = 1
    if not os.path.exists(vlib.TLA_JAR):
        print("missing " + vlib.TLA_JAR)
        rc = 1
    ctx = vlib.Ctx("SETUP", "quick", 1)
    try:
        mods = sorted(os.path.basename(p)[:-4] for p in glob.glob(os.path.join(ctx.specdir, "*.tla")))
        bad = []
        for m in mods:
            ok, out = ctx.sany(m)
            if not ok:
                bad.append(m)
                print(out[-2000:])
        print("SANY: %d modules parsed, %d failed %s" % (len(mods), len(bad), bad))
        # a module that does not parse makes the checks using it inconclusive (exit 2) on their own;
        # setup only warns, it fails for missing infrastructure only
        ctx.cleanup()
        import re
        props = sorted({x.upper() for root, _d, files in os.walk(vlib.HARNESS) for f in files
                        for m in [re.match(r"^((?:[a-z]\d\d)+)_", f)] if m for x in re.findall(r"[a-z]\d\d", m.group(1))})
        for pid in props:
            c = vlib.Ctx(pid, "quick", 1)
            try:
                pkgs = []
                for root, _d, files in os.walk(vlib.HARNESS):
                    rel = os.path.relpath(root, vlib.HARNESS)
                    if rel != "." and not rel.startswith("verifx") and any(f.endswith(".go") and re.match(r"^((?:[a-z]\d\d)+)_", f) and pid.lower() in re.findall(r"[a-z]\d\d", re.match(r"^((?:[a-z]\d\d)+)_", f).group(1)) for f in files):
                        pkgs.append(rel)
                r, out = c.go_build_all(sorted(pkgs))
                print("go harness build %s: rc=%d (%d packages)" % (pid, r, len(pkgs)))
                if r != 0:
                    print("WARNING: harness of %s does not build (its check will be inconclusive):" % pid)
                    print(out[-3000:])
            finally:
                c.cleanup()
    finally:
        ctx.cleanup()
    return rc

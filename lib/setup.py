"""./check --setup : offline preparation after a fresh restore.
 - parses every specification with SANY (a syntax error anywhere is caught before any check runs)
 - compiles all harness test binaries once so that the Go build cache is warm."""
import glob
import os
import subprocess
import sys

from lib import vlib


def run():
    ctx = vlib.Ctx("SETUP", "quick", 1)
    rc = 0
    try:
        mods = sorted(os.path.basename(p)[:-4] for p in glob.glob(os.path.join(ctx.specdir, "*.tla")))
        bad = []
        for m in mods:
            ok, out = ctx.sany(m)
            if not ok:
                bad.append(m)
                print(out[-2000:])
        print("SANY: %d modules parsed, %d failed %s" % (len(mods), len(bad), bad))
        if bad:
            rc = 1
        ctx.cleanup()
        props = sorted({m.group(0).upper() for root, _d, files in os.walk(vlib.HARNESS) for f in files
                        for m in [__import__("re").match(r"^c\d\d", f)] if m})
        for pid in props:
            c = vlib.Ctx(pid, "quick", 1)
            try:
                pkgs = []
                for root, _d, files in os.walk(vlib.HARNESS):
                    rel = os.path.relpath(root, vlib.HARNESS)
                    if rel != "." and not rel.startswith("verifx") and any(f.startswith(pid.lower() + "_") and f.endswith(".go") for f in files):
                        pkgs.append(rel)
                r, out = c.go_build_all(sorted(pkgs))
                print("go harness build %s: rc=%d (%d packages)" % (pid, r, len(pkgs)))
                if r != 0:
                    print(out[-4000:])
                    rc = 1
            finally:
                c.cleanup()
    finally:
        ctx.cleanup()
    return rc

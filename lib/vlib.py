"""Shared machinery of the easegress TLA+ verification framework.

Everything a per-property module (props/cXX.py) needs:
  * Ctx      - scratch space, seed/tier, evidence accounting, verdicts, known findings
  * TLC      - exhaustive model checking, behaviour generation (simulate / dump), trace validation
  * Go       - building and running in-package harnesses from /repo's working tree through
               `go test -overlay` (nothing is written under /repo)

Verdict rule (DESIGN 2.3): VIOLATION only from real-code behaviour; everything else that goes
wrong (build failure, TLC crash, time-out, vacuity) is exit 2 ("inconclusive").
"""
import glob
import hashlib
import json
import os
import re
import shutil
import subprocess
import sys
import tempfile
import time

VERIF = os.path.dirname(os.path.dirname(os.path.abspath(__file__)))
REPO = os.environ.get("VERIF_REPO", "/repo")
SPECS = os.path.join(VERIF, "specs")
HARNESS = os.path.join(VERIF, "harness")
TLA_JAR = "/opt/veriftools/tla/tla2tools.jar"
TLA_CP = TLA_JAR + ":/opt/veriftools/tla/CommunityModules-deps.jar"
MODPATH = "github.com/megaease/easegress"
NCPU = os.cpu_count() or 4


class Inconclusive(Exception):
    pass


def jdump(o):
    return json.dumps(o, sort_keys=True, separators=(",", ":"))


def sha(o):
    return hashlib.sha1(jdump(o).encode()).hexdigest()[:16]


# ------------------------------------------------------------------------------------------
class MCResult:
    def __init__(self):
        self.generated = 0
        self.distinct = 0
        self.ok = False
        self.error = None          # text of the first "Error:" line
        self.violated = None       # name of violated invariant / property
        self.out = ""
        self.wall = 0.0
        self.coverage_zero = []    # actions never taken (with -coverage)
        self.depth = 0


class TraceResult:
    def __init__(self):
        self.accepted = False
        self.hwm = 0               # number of trace lines consumed (high-water mark)
        self.total = 0
        self.inv = None            # violated invariant (on an observed execution)
        self.out = ""
        self.states = 0
        self.wall = 0.0


class Ctx:
    def __init__(self, prop, tier, seed, replay=None):
        self.prop = prop
        self.tier = tier
        self.quick = tier == "quick"
        self.seed = seed
        self.replay = replay
        self.t0 = time.time()
        self.scratch = tempfile.mkdtemp(prefix="verif-%s-" % prop.lower(), dir=os.environ.get("VERIF_TMP", "/var/tmp"))
        self.specdir = os.path.join(self.scratch, "specs")
        shutil.copytree(SPECS, self.specdir)
        self.cov = {
            "states": 0, "transitions": 0, "traces_validated_against_impl": 0,
            "evaluations": 0, "distinct_nontrivial": 0, "samples": [], "rule": "",
            "tlc_runs": [], "go_runs": [], "known_findings_hit": [],
        }
        self._nontrivial = set()
        self.violations = []
        self.deferred = []
        self.known_hits = {}
        self.assumptions = []
        self.notes = []
        self._overlay = None
        self._modfile = None
        kf = os.path.join(VERIF, "known_findings.json")
        self.findings = json.load(open(kf)) if os.path.exists(kf) else {"findings": [], "fixed": []}
        for extra in sorted(glob.glob(os.path.join(VERIF, "findings.d", "*.json"))):
            x = json.load(open(extra))
            self.findings.setdefault("findings", []).extend(x.get("findings", []))
            self.findings.setdefault("fixed", []).extend(x.get("fixed", []))
        self._repo_status0 = self._repo_status()

    # ---------------- bookkeeping
    def log(self, *a):
        print("[%s %6.1fs]" % (self.prop, time.time() - self.t0), *a, flush=True)

    def sample(self, x, cap=4):
        if len(self.cov["samples"]) < cap:
            self.cov["samples"].append(x)

    def evals(self, n=1):
        self.cov["evaluations"] += n

    def nontrivial(self, key):
        self._nontrivial.add(key if isinstance(key, str) else sha(key))

    def traces(self, n=1):
        self.cov["traces_validated_against_impl"] += n

    def _repo_status(self):
        try:
            return subprocess.run(["git", "-C", REPO, "status", "--porcelain"], capture_output=True, text=True, timeout=60).stdout
        except Exception:
            return None

    # ---------------- verdicts
    def violation(self, sig, what, replay_obj=None):
        """Report a violation observed on the real code. `sig` is the minimal signature dict that
        known_findings.json patterns are matched against."""
        for f in self.findings.get("findings", []):
            if f.get("property") != self.prop:
                continue
            if _match(f.get("match", {}), sig):
                fid = f.get("id", "?")
                if fid not in self.known_hits:
                    self.known_hits[fid] = f.get("what", "")
                return False
        key = sha(sig)
        for v in self.violations:
            if v["key"] == key:
                v["count"] += 1
                return True
        rp = self._write_replay(sig, what, replay_obj)
        self.violations.append({"key": key, "sig": sig, "what": what, "replay": rp, "count": 1})
        return True

    def phase(self, name):
        """VERIF_PHASES=mc,mbt,tv restricts a check to some phases (debugging aid only)."""
        sel = os.environ.get("VERIF_PHASES")
        return not sel or name in sel.split(",")

    def _write_replay(self, sig, what, replay_obj):
        d = os.path.join(VERIF, "replays", self.prop)
        os.makedirs(d, exist_ok=True)
        p = os.path.join(d, "%s.json" % sha(sig))
        with open(p, "w") as fh:
            json.dump({"property": self.prop, "seed": self.seed, "tier": self.tier, "sig": sig, "what": what,
                       "replay": replay_obj}, fh, indent=1, sort_keys=True, default=str)
        return p

    def inconclusive(self, msg):
        raise Inconclusive(msg)

    def defer_inconclusive(self, msg):
        """Records that a phase was inconclusive but lets the remaining phases run: a violation found by
        another phase is still reported (exit 1); otherwise the run ends inconclusive (exit 2)."""
        self.deferred.append(msg)
        self.log("phase inconclusive (continuing): " + msg.splitlines()[0][:200])

    def finish(self, level="model_checking"):
        if self._repo_status0 is not None and self._repo_status() != self._repo_status0:
            print("INCONCLUSIVE property=%s /repo working tree was modified by the check" % self.prop)
            self.cleanup()
            return 2
        cov = self.cov
        cov["distinct_nontrivial"] = len(self._nontrivial)
        cov["known_findings_hit"] = sorted(self.known_hits)
        if not cov["samples"]:
            cov["samples"] = ["(no sample recorded)"]
        ev = {
            "property_id": self.prop, "tier": self.tier, "seed": self.seed, "level": level,
            "coverage": cov, "assumptions": self.assumptions, "wall_s": round(time.time() - self.t0, 2),
            "violations": len(self.violations),
        }
        if self.notes:
            ev["coverage"]["notes"] = self.notes
        # experiments on worktrees and partial runs (VERIF_PHASES) never touch the evidence
        evdir = "evidence" if os.path.realpath(REPO) == "/repo" and not os.environ.get("VERIF_PHASES") else "evidence-alt"
        os.makedirs(os.path.join(VERIF, evdir), exist_ok=True)
        with open(os.path.join(VERIF, evdir, "%s.json" % self.prop), "w") as fh:
            json.dump(ev, fh, indent=1, sort_keys=True, default=str)
        for fid, what in sorted(self.known_hits.items()):
            print("KNOWN-FINDING: property=%s %s: %s" % (self.prop, fid, what))
        for v in self.violations[:20]:
            print("VIOLATION property=%s replay=%s" % (self.prop, v["replay"]))
            print("   what: %s (x%d) sig=%s" % (v["what"], v["count"], jdump(v["sig"])))
        self.cleanup()
        if self.violations:
            return 1
        if self.deferred:
            for m in self.deferred:
                print("INCONCLUSIVE property=%s: %s" % (self.prop, m))
            return 2
        print("OK property=%s tier=%s seed=%d states=%d traces=%d evaluations=%d nontrivial=%d wall=%.1fs" % (
            self.prop, self.tier, self.seed, cov["states"], cov["traces_validated_against_impl"],
            cov["evaluations"], cov["distinct_nontrivial"], time.time() - self.t0))
        return 0

    def cleanup(self):
        if os.environ.get("VERIF_KEEP"):
            print("scratch kept:", self.scratch)
            return
        shutil.rmtree(self.scratch, ignore_errors=True)

    # ---------------- TLC
    def _tlc(self, args, timeout, env=None, workdir=None):
        e = dict(os.environ)
        e["JAVA_TOOL_OPTIONS"] = (e.get("VERIF_JAVA_OPTS", "") + " -Xss512m").strip()
        if env:
            e.update(env)
        heap = os.environ.get("VERIF_TLC_HEAP", "8g")
        jt = os.path.join(self.scratch, "jtmp")
        os.makedirs(jt, exist_ok=True)
        cmd = ["java", "-XX:+UseParallelGC", "-Xmx" + heap, "-Djava.io.tmpdir=" + jt]
        if env and env.get("_DEQUE"):
            cmd.append("-Dtlc2.tool.queue.IStateQueue=StateDeque")
        cmd += ["-cp", TLA_CP, "tlc2.TLC"] + args
        e.pop("_DEQUE", None)
        t0 = time.time()
        try:
            p = subprocess.run(cmd, cwd=workdir or self.specdir, env=e, capture_output=True, text=True, timeout=timeout)
        except subprocess.TimeoutExpired as ex:
            subprocess.run(["pkill", "-f", "metadir %s" % self.scratch], capture_output=True)
            out = (ex.stdout or b"")
            if isinstance(out, bytes):
                out = out.decode(errors="replace")
            return None, out, time.time() - t0
        return p.returncode, p.stdout + p.stderr, time.time() - t0

    def _cfg(self, module, cfg_text, tag=""):
        name = "%s_%s%s.cfg" % (module, sha(cfg_text)[:8], tag)
        p = os.path.join(self.specdir, name)
        with open(p, "w") as fh:
            fh.write(cfg_text)
        return p

    def _md(self):
        return tempfile.mkdtemp(prefix="md-", dir=self.scratch)

    def tlc_mc(self, module, cfg_text, workers=None, timeout=900, coverage=False, expect_ok=True, label=None,
               count=True, env=None, deadlock=False):
        """Exhaustive model checking. Returns MCResult. If expect_ok and TLC does not finish cleanly
        the run is inconclusive (a model problem is never a verdict about the code)."""
        cfg = self._cfg(module, cfg_text)
        args = ["-workers", str(workers or NCPU), "-metadir", self._md(), "-config", cfg, "-noGenerateSpecTE"]
        if not deadlock:
            args.append("-deadlock")
        if coverage:
            args += ["-coverage", "1"]
        args.append(module + ".tla")
        rc, out, wall = self._tlc(args, timeout, env=env)
        r = MCResult()
        r.out, r.wall = out, wall
        m = re.findall(r"(\d+) states generated, (\d+) distinct states found", out)
        if m:
            r.generated, r.distinct = int(m[-1][0]), int(m[-1][1])
        m = re.search(r"The depth of the complete state graph search is (\d+)", out)
        if m:
            r.depth = int(m.group(1))
        em = re.search(r"Error: (.*)", out)
        if em:
            r.error = em.group(1).strip()
            vm = re.search(r"Invariant (\S+) is violated", out) or re.search(r"Action property (\S+) is violated", out)
            if vm:
                r.violated = vm.group(1)
            elif "Temporal properties were violated" in out:
                r.violated = "<temporal>"
        r.ok = rc == 0 and r.error is None and "Model checking completed. No error has been found." in out
        if coverage:
            r.coverage_zero = _coverage_zero(out)
        self.cov["tlc_runs"].append({"mode": "mc", "module": module, "label": label or "", "generated": r.generated,
                                     "distinct": r.distinct, "ok": r.ok, "violated": r.violated, "wall_s": round(wall, 1),
                                     "depth": r.depth})
        if count and r.ok:
            self.cov["states"] += r.distinct
            self.cov["transitions"] += r.generated
        if expect_ok and not r.ok:
            if rc is None:
                self.inconclusive("TLC timed out after %ss on %s (%s)" % (timeout, module, label))
            self.inconclusive("TLC did not verify the specification %s (%s): %s\n%s" % (module, label, r.error, _tail(out)))
        return r

    def tlc_simulate(self, module, cfg_text, num, depth, timeout=600, seed=None, env=None):
        """Behaviour generation: returns a list of behaviours, each a list of decoded `out` records."""
        cfg = self._cfg(module, cfg_text)
        d = tempfile.mkdtemp(prefix="sim-", dir=self.scratch)
        args = ["-workers", "1", "-metadir", self._md(), "-config", cfg, "-noGenerateSpecTE", "-deadlock",
                "-simulate", "file=%s/b,num=%d" % (d, num), "-depth", str(depth),
                "-seed", str(self.seed if seed is None else seed), module + ".tla"]
        rc, out, wall = self._tlc(args, timeout, env=env)
        if rc is None:
            self.inconclusive("TLC simulate timed out on %s" % module)
        if re.search(r"Error: ", out) and "violated" in out:
            self.inconclusive("TLC simulate found the spec violating its own property on %s:\n%s" % (module, _tail(out)))
        behs = []
        for f in sorted(glob.glob(d + "/b_*")):
            behs.append(_parse_out_file(f))
        shutil.rmtree(d, ignore_errors=True)
        if not behs:
            self.inconclusive("TLC simulate produced no behaviours for %s:\n%s" % (module, _tail(out)))
        gen = re.search(r"The number of states generated: (\d+)", out)
        self.cov["tlc_runs"].append({"mode": "simulate", "module": module, "behaviours": len(behs),
                                     "states": int(gen.group(1)) if gen else 0, "wall_s": round(wall, 1)})
        return behs

    def tlc_dump(self, module, cfg_text, timeout=900, workers=None, var="out", count=True, label=None):
        """Exhaustive exploration, then export of the `out` value of every distinct state."""
        cfg = self._cfg(module, cfg_text)
        d = tempfile.mkdtemp(prefix="dump-", dir=self.scratch)
        args = ["-workers", str(workers or NCPU), "-metadir", self._md(), "-config", cfg, "-noGenerateSpecTE", "-deadlock",
                "-dump", d + "/states", module + ".tla"]
        rc, out, wall = self._tlc(args, timeout)
        if rc is None:
            self.inconclusive("TLC dump timed out on %s" % module)
        if rc != 0 or "Error:" in out:
            self.inconclusive("TLC dump failed on %s:\n%s" % (module, _tail(out)))
        m = re.findall(r"(\d+) states generated, (\d+) distinct states found", out)
        gen, dist = (int(m[-1][0]), int(m[-1][1])) if m else (0, 0)
        recs = _parse_out_file(d + "/states.dump", var=var)
        shutil.rmtree(d, ignore_errors=True)
        self.cov["tlc_runs"].append({"mode": "dump", "module": module, "label": label or "", "generated": gen, "distinct": dist,
                                     "vectors": len(recs), "wall_s": round(wall, 1)})
        if count:
            self.cov["states"] += dist
            self.cov["transitions"] += gen
        return recs

    def tlc_trace(self, module, cfg_text, trace_path, timeout=900, deque=True, extra_env=None):
        """Trace validation. The trace spec reads IOEnv.VERIF_TRACE, keeps the high-water mark of
        consumed lines in TLC register 1 and prints it from its POSTCONDITION as `VERIF_HWM n m`."""
        cfg = self._cfg(module, cfg_text)
        env = {"VERIF_TRACE": trace_path}
        if deque:
            env["_DEQUE"] = "1"
        if extra_env:
            env.update(extra_env)
        args = ["-workers", "1", "-metadir", self._md(), "-config", cfg, "-noGenerateSpecTE", "-deadlock", module + ".tla"]
        rc, out, wall = self._tlc(args, timeout, env=env)
        r = TraceResult()
        r.out, r.wall = out, wall
        if rc is None:
            self.inconclusive("TLC trace validation timed out on %s" % module)
        vm = re.search(r"Invariant (\S+) is violated", out) or re.search(r"Action property (\S+) is violated", out)
        if vm:
            r.inv = vm.group(1)
        m = re.search(r"VERIF_HWM\W+(\d+)\W+(\d+)", out)
        if m:
            r.hwm, r.total = int(m.group(1)), int(m.group(2))
        elif r.inv:
            # TLC stops at the invariant violation without evaluating the postcondition; the
            # violating state is the last one of the printed counterexample: take its `l`
            ls = re.findall(r"^/\\ l = (\d+)", out, re.M)
            r.hwm = max(0, int(ls[-1]) - 2) if ls else 0
            r.total = sum(1 for _ in open(trace_path))
        else:
            self.inconclusive("trace spec %s did not report a high-water mark:\n%s" % (module, _tail(out)))
        sm = re.findall(r"(\d+) states generated, (\d+) distinct states found", out)
        if sm:
            r.states = int(sm[-1][1])
        r.accepted = (r.hwm == r.total) and r.inv is None
        if r.accepted and rc != 0:
            self.inconclusive("trace spec %s ended abnormally:\n%s" % (module, _tail(out)))
        if not r.accepted and r.inv is None and r.hwm == r.total:
            self.inconclusive("trace spec %s failed without a reason:\n%s" % (module, _tail(out)))
        self.cov["tlc_runs"].append({"mode": "trace", "module": module, "events": r.total, "consumed": r.hwm,
                                     "accepted": r.accepted, "states": r.states, "wall_s": round(wall, 1)})
        if r.accepted:
            self.cov["states"] += r.states
            self.cov["transitions"] += r.states
        return r

    def sany(self, module):
        jt = os.path.join(self.scratch, "jtmp")
        os.makedirs(jt, exist_ok=True)
        cmd = ["java", "-Djava.io.tmpdir=" + jt, "-cp", TLA_CP, "tla2sany.SANY", module + ".tla"]
        p = subprocess.run(cmd, cwd=self.specdir, capture_output=True, text=True, timeout=120)
        return p.returncode == 0 and "error" not in p.stdout.lower().replace("errors: 0", ""), p.stdout

    # ---------------- Go
    def go_env(self):
        e = dict(os.environ)
        e.update({"GOFLAGS": "-mod=mod", "GOPROXY": "off", "GOSUMDB": "off", "GOTOOLCHAIN": "local",
                  "CGO_ENABLED": e.get("CGO_ENABLED", "1")})
        # temporary files of the go tool and of the harnesses (etcd data directories ...) live and die with the scratch
        td = os.path.join(self.scratch, "tmp")
        os.makedirs(td, exist_ok=True)
        e["TMPDIR"] = td
        return e

    def _prepare_build(self):
        if self._overlay:
            return
        ov = {"Replace": {}}
        # shared helper package, virtual: /repo/pkg/verifx
        for f in glob.glob(os.path.join(HARNESS, "verifx", "*.go")):
            ov["Replace"][os.path.join(REPO, "pkg", "verifx", os.path.basename(f))] = f
        # in-package harnesses
        for root, _dirs, files in os.walk(HARNESS):
            rel = os.path.relpath(root, HARNESS)
            if rel == "." or rel.startswith("verifx"):
                continue
            # only this property's harness files (cNN_*.go) plus unprefixed shared files: a harness of
            # another property that no longer compiles must not make this check inconclusive
            # a file may be shared by several properties: c01c05c12_name_test.go
            def mine(f):
                m = re.match(r"^((?:[a-z]\d\d)+)_", f)
                return m is None or self.prop.lower() in re.findall(r"[a-z]\d\d", m.group(1))
            gos = [f for f in files if f.endswith(".go") and mine(f)]
            if not gos:
                continue
            pkgdir = os.path.join(REPO, rel)
            keep = set()
            kp = os.path.join(root, "KEEP")
            if os.path.exists(kp):
                keep = set(open(kp).read().split())
            for t in glob.glob(os.path.join(pkgdir, "*_test.go")):
                if os.path.basename(t) not in keep:
                    ov["Replace"][t] = ""
            for f in gos:
                ov["Replace"][os.path.join(pkgdir, "zz_verif_" + f)] = os.path.join(root, f)
        self._overlay = os.path.join(self.scratch, "overlay.json")
        json.dump(ov, open(self._overlay, "w"), indent=1)
        # modfile with the quic-go stub (pkg/object/httpserver does not build otherwise)
        self._modfile = os.path.join(self.scratch, "go.mod")
        mod = open(os.path.join(REPO, "go.mod")).read()
        mod += "\nreplace github.com/lucas-clemente/quic-go => %s\n" % os.path.join(VERIF, "stubs", "quic-go")
        open(self._modfile, "w").write(mod)
        shutil.copy(os.path.join(REPO, "go.sum"), os.path.join(self.scratch, "go.sum"))

    def go_test(self, pkg, run, env=None, race=False, timeout=900, tags="verif", extra=None, count_as=None):
        """Builds `pkg` from /repo's working tree with the harness overlay and runs the tests matching
        `run`. Returns (rc, output). Build failures are inconclusive."""
        self._prepare_build()
        e = self.go_env()
        e["VERIF_SEED"] = str(self.seed)
        e["VERIF_TIER"] = self.tier
        if env:
            e.update({k: str(v) for k, v in env.items()})
        cmd = ["go", "test", "-tags", tags, "-overlay", self._overlay, "-modfile", self._modfile,
               "-ldflags=-checklinkname=0", "-vet=off", "-count=1", "-timeout", "%ds" % timeout, "-run", run]
        if race:
            cmd.append("-race")
        if extra:
            cmd += extra
        cmd.append("./" + pkg)
        t0 = time.time()
        try:
            p = subprocess.run(cmd, cwd=REPO, env=e, capture_output=True, text=True, timeout=timeout + 120)
        except subprocess.TimeoutExpired:
            self.inconclusive("go test timed out: %s %s" % (pkg, run))
        out = p.stdout + p.stderr
        self.cov["go_runs"].append({"pkg": pkg, "run": run, "rc": p.returncode, "race": race, "wall_s": round(time.time() - t0, 1)})
        if "[build failed]" in out or "[setup failed]" in out or re.search(r"^# ", out, re.M) and p.returncode != 0 and "--- FAIL" not in out:
            self.inconclusive("harness build failed for %s:\n%s" % (pkg, _tail(out, 60)))
        if "no tests to run" in out:
            self.inconclusive("harness test %s not found in %s" % (run, pkg))
        return p.returncode, out

    def go_build_all(self, pkgs):
        self._prepare_build()
        e = self.go_env()
        cmd = ["go", "test", "-tags", "verif", "-overlay", self._overlay, "-modfile", self._modfile,
               "-ldflags=-checklinkname=0", "-vet=off", "-count=1", "-run", "^$"] + ["./" + p for p in pkgs]
        p = subprocess.run(cmd, cwd=REPO, env=e, capture_output=True, text=True)
        return p.returncode, p.stdout + p.stderr

    # ---------------- files
    def path(self, name):
        return os.path.join(self.scratch, name)

    def write_ndjson(self, name, recs):
        p = self.path(name)
        with open(p, "w") as fh:
            for r in recs:
                fh.write(jdump(r) + "\n")
        return p

    def read_ndjson(self, p):
        out = []
        if not os.path.exists(p):
            return out
        for ln in open(p):
            ln = ln.strip()
            if ln:
                out.append(json.loads(ln))
        return out


# ------------------------------------------------------------------------------------------
def _match(pat, sig):
    for k, v in pat.items():
        if k not in sig:
            return False
        s = sig[k]
        if isinstance(v, list) and not isinstance(s, list):
            if s not in v:
                return False
        elif s != v:
            return False
    return True


def _tail(s, n=40):
    return "\n".join(s.splitlines()[-n:])


_OUT_RE = re.compile(r'^/\\ (\w+) = (".*")\s*$')


def _parse_out_file(path, var="out"):
    recs = []
    if not os.path.exists(path):
        return recs
    with open(path) as fh:
        for ln in fh:
            if not ln.startswith("/\\ " + var + " = \""):
                continue
            m = _OUT_RE.match(ln.rstrip("\n"))
            if not m:
                continue
            try:
                recs.append(json.loads(json.loads(m.group(2))))
            except Exception:
                pass
    return recs


def _coverage_zero(out):
    """Names of top-level actions that -coverage reports as never taken."""
    zero = []
    for m in re.finditer(r"<(\w+) line \d+, col \d+ to line \d+, col \d+ of module (\w+)>: (\d+):(\d+)", out):
        if m.group(3) == "0" and m.group(4) == "0":
            zero.append(m.group(1))
    return sorted(set(zero))


def main(argv):
    import argparse
    import importlib
    ap = argparse.ArgumentParser()
    ap.add_argument("prop", nargs="?")
    ap.add_argument("--tier", default=os.environ.get("VERIF_TIER", "quick"), choices=["quick", "thorough"])
    ap.add_argument("--replay")
    ap.add_argument("--setup", action="store_true")
    a = ap.parse_args(argv)
    seed = int(os.environ.get("VERIF_SEED", "1") or "1")
    sys.path.insert(0, VERIF)
    if a.setup:
        from lib import setup
        return setup.run()
    if not a.prop:
        ap.error("property id required")
    mod = importlib.import_module("props." + a.prop.lower())
    want = None
    tier = a.tier
    if a.replay:
        # a replay file records the seed and tier of the run that found the violation and the
        # violation's signature; replaying = re-running that deterministic run and looking for it
        rp = json.load(open(a.replay))
        seed, tier, want = int(rp.get("seed", seed)), rp.get("tier", tier), sha(rp.get("sig"))
    ctx = Ctx(a.prop.upper(), tier, seed, a.replay)
    try:
        mod.run(ctx)
        if want is not None:
            hit = [v for v in ctx.violations if v["key"] == want]
            ctx.violations = hit
            rc = ctx.finish()
            print("REPLAY property=%s %s" % (ctx.prop, "reproduced" if hit else "not reproduced"))
            return rc
        return ctx.finish()
    except Inconclusive as ex:
        print("INCONCLUSIVE property=%s: %s" % (ctx.prop, ex))
        ctx.cleanup()
        return 2
    except Exception:
        import traceback
        traceback.print_exc()
        print("INCONCLUSIVE property=%s: driver error" % ctx.prop)
        ctx.cleanup()
        return 2

"""C04 optional extra (thorough tier): Apalache checks that IndInv of specs/LoadBalanceInd.tla is an inductive
invariant of round robin (fetch-and-add, index mod N) for N = 2..5 servers and an UNBOUNDED number of selections,
and that it implies the floor/ceil fairness clause. Never verdict-bearing about the code: it is about the design;
a time-out or tool failure is recorded as a note only."""
import os
import re
import shutil
import subprocess
import tempfile


def _apalache(wd, init, inv, length, timeout=300):
    cmd = ["apalache-mc", "check", "--init=%s" % init, "--inv=%s" % inv, "--length=%d" % length, "LoadBalanceInd.tla"]
    try:
        p = subprocess.run(cmd, cwd=wd, capture_output=True, text=True, timeout=timeout)
    except subprocess.TimeoutExpired:
        return "timeout"
    except Exception as e:
        return "failed (%s)" % e
    out = p.stdout + p.stderr
    if "The outcome is: NoError" in out:
        return "ok"
    if "The outcome is: Error" in out:
        return "counterexample"
    return "failed (exit %d)" % p.returncode


def run(ctx):
    src = open(os.path.join(ctx.specdir, "LoadBalanceInd.tla")).read()
    res = []
    for n in (2, 3, 4, 5):
        wd = tempfile.mkdtemp(prefix="apalache-", dir=ctx.scratch)
        open(os.path.join(wd, "LoadBalanceInd.tla"), "w").write(re.sub(r"(?m)^N == \d+", "N == %d" % n, src))
        a = _apalache(wd, "Init", "IndInv", 0)
        b = _apalache(wd, "IndInit", "IndInv", 1) if a == "ok" else "-"
        c = _apalache(wd, "IndInit", "Fair", 0) if b == "ok" else "-"
        res.append("N=%d: Init=>IndInv %s, IndInv/\\Next=>IndInv' %s, IndInv=>Fair %s" % (n, a, b, c))
        shutil.rmtree(wd, ignore_errors=True)
        if "counterexample" in (a, b, c):
            ctx.inconclusive("Apalache refutes the inductive fairness invariant of LoadBalanceInd for N=%d" % n)
    ctx.notes.append("apalache (round-robin fairness for an unbounded number of selections): " + "; ".join(res))
    ctx.log("apalache: " + "; ".join(res))

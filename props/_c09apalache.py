"""C09 optional extra (thorough tier): Apalache checks that IndInv of specs/RateLimiterInd.tla is an
inductive invariant of the token arithmetic (unbounded time / cycles / history) for a few policies.
Never verdict-bearing: a time-out or a tool failure is recorded as a note only."""
import os
import re
import shutil
import subprocess
import tempfile

POLICIES = [(3, 10, 25), (1, 7, 0), (2, 10, 9), (5, 4, 12)]    # (L, P, T)


def _apalache(wd, init, length, timeout):
    cmd = ["apalache-mc", "check", "--init=%s" % init, "--inv=IndInv", "--length=%d" % length, "RateLimiterInd.tla"]
    try:
        p = subprocess.run(cmd, cwd=wd, capture_output=True, text=True, timeout=timeout)
    except subprocess.TimeoutExpired:
        return "timeout"
    except Exception as e:      # tool missing etc.
        return "failed (%s)" % e
    out = p.stdout + p.stderr
    if "The outcome is: NoError" in out:
        return "ok"
    if "The outcome is: Error" in out:
        return "counterexample"
    return "failed (exit %d)" % p.returncode


def run(ctx):
    src = open(os.path.join(ctx.specdir, "RateLimiterInd.tla")).read()
    res = []
    for (L, P, T) in POLICIES:
        wd = tempfile.mkdtemp(prefix="apalache-", dir=ctx.scratch)
        s = re.sub(r"(?m)^L == \d+", "L == %d" % L, src)
        s = re.sub(r"(?m)^P == \d+", "P == %d" % P, s)
        s = re.sub(r"(?m)^T == \d+", "T == %d" % T, s)
        s = re.sub(r"(?m)^HH == \d+", "HH == %d" % (T // P), s)
        open(os.path.join(wd, "RateLimiterInd.tla"), "w").write(s)
        base = _apalache(wd, "Init", 0, 240)
        step = _apalache(wd, "IndInit", 1, 420) if base == "ok" else "-"
        res.append("L=%d P=%d T=%d: Init=>IndInv %s, IndInv/\\Next=>IndInv' %s" % (L, P, T, base, step))
        shutil.rmtree(wd, ignore_errors=True)
        if base == "counterexample" or step == "counterexample":
            # a model problem (the arithmetic of the spec, not the code): never a verdict
            ctx.inconclusive("Apalache refutes the inductive invariant of RateLimiterInd for L=%d P=%d T=%d" % (L, P, T))
    ctx.notes.append("apalache (inductive invariant of the token arithmetic, unbounded time/history): " + "; ".join(res))
    ctx.log("apalache: " + "; ".join(res))

"""Helpers shared by props/c18.py and props/c19.py: validation of a list of recorded scenarios
(each starting with a `reset` event) by one TLC run over their concatenation; when TLC rejects,
the offending scenario is reported, removed, and the rest is validated again."""
from lib.vlib import jdump


def split_scenarios(events, keep=None):
    """Splits a recorded NDJSON event list at `reset` events. Events for which keep(e) is false are
    left out of the TLC input but stay available in scenario['all']."""
    scen = []
    cur = None
    for e in events:
        if e.get("ev") == "reset":
            cur = {"reset": e, "events": [e], "all": [e]}
            scen.append(cur)
            continue
        if cur is None:
            continue
        cur["all"].append(e)
        if keep is None or keep(e):
            cur["events"].append(e)
    return scen


def validate_scenarios(ctx, module, cfg_text, scenarios, name, on_reject, max_rejects=6, timeout=900):
    """Returns the number of scenarios accepted. on_reject(scenario, first_unexplained_event, tr) is
    called for every rejected scenario (it decides about ctx.violation)."""
    remaining = list(scenarios)
    rejects = 0
    rnd = 0
    while remaining:
        rnd += 1
        path = ctx.path("%s_%d.ndjson" % (name, rnd))
        bounds = []
        n = 0
        with open(path, "w") as fh:
            for sc in remaining:
                for e in sc["events"]:
                    fh.write(jdump(e) + "\n")
                    n += 1
                bounds.append(n)
        tr = ctx.tlc_trace(module, cfg_text, path, timeout=timeout)
        if tr.accepted:
            return len(remaining)
        # the first line TLC could not consume is tr.hwm + 1 (1-based); with an invariant violation
        # the violating state is the one after consuming line hwm + 1 as well
        bad_line = min(tr.hwm + 1, n)
        idx = 0
        while idx < len(bounds) and bounds[idx] < bad_line:
            idx += 1
        idx = min(idx, len(remaining) - 1)
        sc = remaining[idx]
        start = bounds[idx - 1] if idx > 0 else 0
        pos = bad_line - start - 1
        ev = sc["events"][pos] if 0 <= pos < len(sc["events"]) else None
        on_reject(sc, ev, tr, pos)
        rejects += 1
        accepted_before = idx
        remaining = remaining[:idx] + remaining[idx + 1:]
        if rejects >= max_rejects:
            ctx.notes.append("%s: stopped re-validating after %d rejected scenarios (%d left unvalidated)" % (name, rejects, len(remaining) - accepted_before))
            return accepted_before
    return 0


def annotate_invocations(events, fields, proc="p", default=None):
    """Copies fields of each `ret` event onto the matching earlier `inv` event of the same process (as
    r_<field>), so that a trace spec can restrict its linearisation search to outcomes consistent with the
    reply that was actually observed (pure pruning: the reply is checked again at the `ret` event)."""
    pending = {}
    for e in events:
        if e.get("ev") == "inv":
            pending[e.get(proc)] = e
            for f in fields:
                e["r_" + f] = (default or {}).get(f)
        elif e.get("ev") == "ret" and e.get(proc) in pending:
            inv = pending.pop(e.get(proc))
            for f in fields:
                if f in e:
                    inv["r_" + f] = e[f]
    return events

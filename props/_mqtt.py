"""Helpers shared by the MQTT properties (C14, C15, C16, C17-mqtt)."""
from lib.vlib import jdump

PKG = "pkg/object/mqttproxy"


def split_traces(ev):
    """[(start, end)] index ranges of the concatenated traces (each starts with a `reset` event)."""
    starts = [i for i, e in enumerate(ev) if e.get("ev") == "reset"]
    if not starts or starts[0] != 0:
        starts = [0] + starts
    return [(s, (starts[k + 1] if k + 1 < len(starts) else len(ev))) for k, s in enumerate(starts)]


def validate_traces(ctx, module, cfg, ev, name, on_reject, max_rounds=6, timeout=900):
    """Validates concatenated traces with TLC. A rejected trace is reported through
    on_reject(segment_up_to_first_unexplained_event, whole_trace, tr) and cut out; the rest is validated
    again, so that one known finding does not hide what comes after it.
    Returns the number of accepted traces."""
    accepted = 0
    rounds = 0
    while ev:
        rounds += 1
        path = ctx.write_ndjson("%s_%d.ndjson" % (name, rounds), ev)
        tr = ctx.tlc_trace(module, cfg, path, timeout=timeout)
        ranges = split_traces(ev)
        if tr.accepted:
            accepted += len(ranges)
            break
        bad = min(tr.hwm, len(ev) - 1)          # index of the first event no action could consume
        k = max(i for i, (s, e) in enumerate(ranges) if s <= bad)
        s, e = ranges[k]
        on_reject(ev[s:bad + 1], ev[s:e], tr)
        accepted += k
        ev = ev[e:]
        if rounds >= max_rounds:
            ctx.notes.append("%s: stopped re-validating after %d rejected traces (%d events left unvalidated)" % (name, rounds, len(ev)))
            break
    return accepted


def short(o, n=400):
    s = jdump(o)
    return s if len(s) <= n else s[:n] + "..."


def build_test_binary(ctx, race=False):
    """Compiles the mqttproxy harness once (same flags as ctx.go_test) and returns the path of the test binary."""
    import os
    binp = ctx.path("mqttproxy_%s%s.test" % (ctx.prop.lower(), "_race" if race else ""))
    if not os.path.exists(binp):
        rc, out = ctx.go_test(PKG, "^$", extra=["-c", "-o", binp], race=race, timeout=900)
        if rc != 0 or not os.path.exists(binp):
            ctx.inconclusive("harness build failed for %s:\n%s" % (PKG, out[-3000:]))
    return binp


def run_shards(ctx, binp, run, envs, timeout=900):
    """Runs the compiled harness once per env dict, in parallel. Returns [(rc, output)]."""
    import os
    import subprocess
    import time
    from concurrent.futures import ThreadPoolExecutor
    from lib.vlib import REPO

    def one(env):
        e = ctx.go_env()
        e["VERIF_SEED"] = str(ctx.seed)
        e["VERIF_TIER"] = ctx.tier
        e.update({k: str(v) for k, v in env.items()})
        t0 = time.time()
        try:
            p = subprocess.run([binp, "-test.run", run, "-test.count=1", "-test.timeout=%ds" % timeout], cwd=os.path.join(REPO, PKG),
                               env=e, capture_output=True, text=True, timeout=timeout + 60)
            rc, out = p.returncode, p.stdout + p.stderr
        except subprocess.TimeoutExpired:
            rc, out = None, "timeout"
        ctx.cov["go_runs"].append({"pkg": PKG, "run": run, "rc": rc, "race": False, "wall_s": round(time.time() - t0, 1)})
        return rc, out

    with ThreadPoolExecutor(max_workers=len(envs)) as ex:
        res = list(ex.map(one, envs))
    for rc, out in res:
        if rc is None:
            ctx.inconclusive("harness %s timed out" % run)
        if "no tests to run" in out:
            ctx.inconclusive("harness test %s not found" % run)
    return res

"""Helpers shared by props/c03.py and props/c07.py (ProxyMsg specifications)."""
import random
import re

from lib.vlib import jdump

_CASE_RE = re.compile(r'<<"VERIF_CASE", (\d+), (\{[^}]*\}), (\{[^}]*\})>>')


def parse_cases(out):
    """VERIF_CASE lines printed by the trace specs -> {id: (violated clauses, drifted fields)}"""
    res = {}
    for m in _CASE_RE.finditer(out.replace("\n", " ")):
        names = lambda s: sorted(re.findall(r'"([^"]*)"', s))
        res[int(m.group(1))] = (names(m.group(2)), names(m.group(3)))
    return res


TRACE_CFG = "SPECIFICATION TSpec\nCONSTRAINT HWM\nPOSTCONDITION Accepted\n"


def evaluate(ctx, module, events, name, batch=4000):
    """Hands the recorded exchanges to TLC (trace spec `module`) in batches; returns {id: (viol, drift)}.
    Every exchange must be consumed (high-water mark = number of lines), otherwise the run is
    inconclusive: the trace spec itself never rejects an exchange, it reports on it."""
    verdicts = {}
    for i in range(0, len(events), batch):
        part = events[i:i + batch]
        p = ctx.write_ndjson("%s_%d.ndjson" % (name, i // batch), part)
        tr = ctx.tlc_trace(module, TRACE_CFG, p, timeout=1200)
        if not tr.accepted:
            ctx.inconclusive("trace spec %s did not consume all recorded exchanges (%d of %d):\n%s" % (
                module, tr.hwm, tr.total, tr.out[-3000:]))
        verdicts.update(parse_cases(tr.out))
    return verdicts


def run_harness(ctx, pkg, test, cases, name, timeout=900):
    inp = ctx.path(name + "_in.ndjson")
    with open(inp, "w") as fh:
        for c in cases:
            fh.write(jdump(c) + "\n")
    outp = ctx.path(name + "_out.ndjson")
    rc, out = ctx.go_test(pkg, "^%s$" % test, env={"VERIF_IN": inp, "VERIF_OUT": outp}, timeout=timeout)
    recs = ctx.read_ndjson(outp)
    summ = [x for x in recs if x.get("ev") == "summary"]
    if rc != 0 or not summ:
        ctx.inconclusive("%s harness failed (rc=%s):\n%s" % (test, rc, out[-3000:]))
    broken = [x for x in recs if x.get("ev") == "broken"]
    if len(broken) > max(2, len(cases) // 100):
        ctx.inconclusive("%s: %d of %d exchanges could not be carried out (e.g. %s)" % (test, len(broken), len(cases), broken[0].get("why")))
    if broken:
        ctx.notes.append("%d exchanges not carried out: %s" % (len(broken), broken[0].get("why")))
    return [x for x in recs if x.get("ev") == "xchg"], summ[0]


def rng(ctx, salt):
    return random.Random(ctx.seed * 1000003 + salt)

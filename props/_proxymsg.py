"""Helpers shared by props/c03.py and props/c07.py (ProxyMsg specifications)."""
import json
import random
import re

from lib.vlib import jdump

_CASE_RE = re.compile(r'<<"VERIF_CASE", (\d+), (\{[^}]*\}), (\{[^}]*\})>>')


def parse_cases(out):
    """VERIF_CASE lines printed by the trace specs -> {id: (violated clauses, drifted fields)}"""
    res = {}
    for m in _CASE_RE.finditer(out.replace("\n", " ")):
        names = lambda s: sorted(re.findall(r'"([^"]*)"', s))
        res[int(m.group(1))] = (names(m.group(2)), names(m.group(3)))
    return res


TRACE_CFG = "SPECIFICATION TSpec\nCONSTRAINT HWM\nPOSTCONDITION Accepted\n"


def evaluate(ctx, module, events, name, batch=4000):
    """Hands the recorded exchanges to TLC (trace spec `module`) in batches; returns {id: (viol, drift)}.
    Every exchange must be consumed (high-water mark = number of lines), otherwise the run is
    inconclusive: the trace spec itself never rejects an exchange, it reports on it."""
    verdicts = {}
    for i in range(0, len(events), batch):
        part = events[i:i + batch]
        p = ctx.write_ndjson("%s_%d.ndjson" % (name, i // batch), part)
        tr = ctx.tlc_trace(module, TRACE_CFG, p, timeout=1200)
        if not tr.accepted:
            ctx.inconclusive("trace spec %s did not consume all recorded exchanges (%d of %d):\n%s" % (
                module, tr.hwm, tr.total, tr.out[-3000:]))
        verdicts.update(parse_cases(tr.out))
    return verdicts


def _read_tolerant(p):
    """NDJSON written by a process that may have died: a last, incomplete line is dropped."""
    out = []
    try:
        with open(p) as fh:
            for ln in fh:
                ln = ln.strip()
                if ln:
                    try:
                        out.append(json.loads(ln))
                    except ValueError:
                        pass
    except OSError:
        pass
    return out


_FRAME_RE = re.compile(r"^(\S.*)\n\t(\S+\.go):(\d+)", re.M)


def _crash_in_code_under_test(out):
    """If the test process died of a Go panic / fatal error raised while running code of the repository under test (not of
    the harness): the message and the innermost frames.  The goroutine that panicked is the first one printed.  It counts as a
    crash of the code under test when its stack contains a frame of the module that is not a harness file (zz_verif_*, verifx)
    below which there are only runtime / standard library frames, i.e. the innermost non-library frame is easegress code."""
    m = re.search(r"^(panic: .*|fatal error: .*)$", out, re.M)
    if not m:
        return None
    rest = out[m.end():]
    g = re.search(r"^goroutine \d+ .*?:\n(.*?)(?:\n\n|\Z)", rest, re.M | re.S)
    if not g:
        return None
    frames = _FRAME_RE.findall(g.group(1))
    for fn, path, line in frames:
        if "/go-1." in path or "/usr/lib/go" in path or "/go/src/" in path or fn.startswith(("runtime.", "panic(")):
            continue                                  # runtime / standard library
        if "zz_verif_" in path or "/verifx/" in path or "/verif/" in path:
            return None                               # the harness itself
        if "megaease/easegress" in fn or "/pkg/" in path:
            return {"message": m.group(1)[:300], "frame": fn.rsplit("(", 1)[0].strip()[:200], "at": "%s:%s" % (path.split("/pkg/")[-1], line),
                    "stack": g.group(1)[:3000]}
        return None                                   # a third-party module: not attributed
    return None


def run_harness(ctx, pkg, test, cases, name, timeout=900, on_crash=None):
    inp = ctx.path(name + "_in.ndjson")
    with open(inp, "w") as fh:
        for c in cases:
            fh.write(jdump(c) + "\n")
    outp = ctx.path(name + "_out.ndjson")
    rc, out = ctx.go_test(pkg, "^%s$" % test, env={"VERIF_IN": inp, "VERIF_OUT": outp}, timeout=timeout)
    recs = _read_tolerant(outp)
    summ = [x for x in recs if x.get("ev") == "summary"]
    if rc != 0 or not summ:
        crash = _crash_in_code_under_test(out)
        if crash and on_crash:
            # the process that serves the exchanges died in the code under test (a panic outside a request handler is
            # not recovered by net/http): the exchanges recorded so far are evaluated, the crash is handed to the caller
            done = {x.get("case") for x in recs if x.get("ev") in ("xchg", "broken")}
            pending = [c for c in cases if c["id"] not in done][:1]
            on_crash(crash, pending[0] if pending else None)
            return [x for x in recs if x.get("ev") == "xchg"], {"crashed": True}
        ctx.inconclusive("%s harness failed (rc=%s):\n%s" % (test, rc, out[-3000:]))
    broken = [x for x in recs if x.get("ev") == "broken"]
    if len(broken) > max(2, len(cases) // 100):
        ctx.inconclusive("%s: %d of %d exchanges could not be carried out (e.g. %s)" % (test, len(broken), len(cases), broken[0].get("why")))
    if broken:
        ctx.notes.append("%d exchanges not carried out: %s" % (len(broken), broken[0].get("why")))
    return [x for x in recs if x.get("ev") == "xchg"], summ[0]


def rng(ctx, salt):
    return random.Random(ctx.seed * 1000003 + salt)

"""Shared pieces of the C01 / C05 / C12 checks (specs/HttpRouter*.tla, harness/pkg/object/httpserver)."""
import json
import re

PKG = "pkg/object/httpserver"

PINNED = dict(FixKey=False, FixHdr=False, FixIP=False)
REPAIRED = dict(FixKey=True, FixHdr=True, FixIP=True)


def run_phases(ctx, phases):
    """Runs the selected phases one after the other.  A phase that ends inconclusive - or dies with a driver error - is
    recorded with ctx.defer_inconclusive and the remaining phases still run: whatever goes wrong in the machinery of
    one phase must never hide a violation that this or another phase observed on the real code (exit 1 wins over
    exit 2 in ctx.finish; without a violation the run ends inconclusive)."""
    import traceback
    from lib.vlib import Inconclusive
    for name, fn in phases:
        if not ctx.phase(name):
            continue
        try:
            fn(ctx)
        except Inconclusive as ex:
            ctx.defer_inconclusive("phase %s: %s" % (name, ex))
        except Exception:
            ctx.defer_inconclusive("phase %s: driver error:\n%s" % (name, traceback.format_exc()))


def _b(x):
    return "TRUE" if x else "FALSE"


def consts(cfginit, reqs, maxreqs, cache, twin=False, variant=PINNED):
    return ("CONSTANTS\n  CfgInit <- %s\n  Reqs <- %s\n  MaxReqs = %d\n  CacheOn = %s\n  Twin = %s\n"
            "  FixKey = %s\n  FixHdr = %s\n  FixIP = %s\n" % (
                cfginit, reqs, maxreqs, _b(cache), _b(twin), _b(variant["FixKey"]), _b(variant["FixHdr"]), _b(variant["FixIP"])))


def mc_cfg(cfginit, reqs, maxreqs, cache, props, twin=False, variant=PINNED):
    return "SPECIFICATION Spec\n" + consts(cfginit, reqs, maxreqs, cache, twin, variant) + "VIEW view\nPROPERTIES %s\n" % props


def gen_cfg(reqs, maxreqs, cache, templates, shells, sfilters, plans, twin=False, variant=PINNED, unmaps=0):
    return ("SPECIFICATION GSpec\n" + consts("C01InitQuick", reqs, maxreqs, cache, twin, variant) +
            "  GenTemplates <- %s\n  GenShells <- %s\n  GenServerFilters <- %s\n  GenPlans <- %s\n  GenUnmaps = %d\n" % (
                templates, shells, sfilters, plans, unmaps))


TRACE_CFG = ("SPECIFICATION TSpec\nCONSTANTS\n  CfgInit <- TNoCfg\n  Reqs = {}\n  MaxReqs = 0\n  CacheOn = FALSE\n  Twin = FALSE\n"
             "  FixKey = FALSE\n  FixHdr = FALSE\n  FixIP = FALSE\nCONSTRAINT HWM\nPOSTCONDITION Accepted\n")

_MISM = re.compile(r'<<"VERIF_MISMATCH", (\d+), (".*")>>')


def mismatches(tlc_out):
    """{line number (1-based) -> record printed by the trace spec}"""
    out = {}
    for m in _MISM.finditer(tlc_out):
        try:
            out[int(m.group(1))] = json.loads(json.loads(m.group(2)))
        except Exception:
            pass
    return out


def chars(v):
    return "".join(v) if isinstance(v, list) else (v or "")


def kind(o):
    """coarse outcome class used in signatures"""
    return "backend" if o.get("code") == 0 else str(o.get("code"))


def show(o):
    return "backend %s sees %r" % (o.get("be"), chars(o.get("path"))) if o.get("code") == 0 else "status %s" % o.get("code")


def show_req(q):
    hdr = ",".join("%s=%s" % (k, chars(v)) for k, v in sorted((q.get("hdr") or {}).items()) if chars(v))
    ip = q.get("ip", {})
    ips = ip.get("txt") or "".join(str(b) for b in ip.get("bits", []))
    return "%s %s%s [%s] from %s%s" % (chars(q.get("m")), chars(q.get("host")), chars(q.get("path")), hdr, ips,
                                       " via " + q["via"] if q.get("via") else "")


def entry_features(cfg, own):
    """features of the owning entry (for signatures): which path kinds, rewrite, headers"""
    if not own or own.get("code") != 0:
        return {}
    i, j = own["pos"]
    try:
        e = cfg["rules"][i - 1]["paths"][j - 1]
    except Exception:
        return {}
    kinds = [k for k in ("path", "prefix") if e.get(k)] + (["re"] if e.get("re", {}).get("on") else [])
    return {"kinds": "+".join(kinds) or "none", "rewrite": bool(e.get("rewrite")), "headers": len(e.get("headers") or []),
            "matchAll": bool(e.get("matchAll")), "methods": bool(e.get("methods"))}


def split_trace(ctx, raw_path, name):
    """keeps the cfg/req lines of a harness trace for TLC; returns (path, events, other records)"""
    ev, other = [], []
    for r in ctx.read_ndjson(raw_path):
        (ev if r.get("ev") in ("cfg", "req") else other).append(r)
    return ctx.write_ndjson(name, ev), ev, other


def cfg_event_of_line(ev, idx):
    """the cfg event in force at event index idx (0-based): the configuration and, when the table behind the mapper has
    changed since the muxes were built, the instance labels"""
    for i in range(idx, -1, -1):
        if ev[i].get("ev") == "cfg":
            return ev[i]
    return None


def cfg_of_line(ev, idx):
    """the configuration in force at event index idx (0-based)"""
    e = cfg_event_of_line(ev, idx)
    return e["cfg"] if e else None


def validate_chunks(ctx, ev, name, chunk=4000, timeout=900, par=3):
    """Trace validation in chunks (each starting with the configuration in force), a few TLC processes at a
    time; returns {global event index (0-based) -> mismatch record}. Rejection of a line is inconclusive: the
    trace spec judges every line and never blocks."""
    from concurrent.futures import ThreadPoolExecutor
    jobs = []
    i = 0
    k = 0
    while i < len(ev):
        j = min(len(ev), i + chunk)
        part = ev[i:j]
        off = i
        if part[0].get("ev") != "cfg":
            part = [dict(cfg_event_of_line(ev, i))] + part
            off = i - 1
        jobs.append((k, off, ctx.write_ndjson("%s_%d.ndjson" % (name, k), part)))
        i = j
        k += 1

    def one(job):
        k, off, p = job
        # one configuration file per chunk: ctx.tlc_trace writes <module>_<hash of the text>.cfg each time it is called, and
        # a TLC process of another thread that reads the file at that moment would see it truncated
        tr = ctx.tlc_trace("HttpRouter_Trace", TRACE_CFG + "\\* chunk %d\n" % k, p, timeout=timeout, deque=False)
        return k, off, tr

    res = {}
    with ThreadPoolExecutor(max_workers=par) as ex:
        for k, off, tr in ex.map(one, jobs):
            if not tr.accepted:
                ctx.inconclusive("trace spec HttpRouter_Trace stopped at line %d of %d (chunk %d):\n%s" % (tr.hwm + 1, tr.total, k, tr.out[-2500:]))
            for ln, rec in mismatches(tr.out).items():
                res[off + ln - 1] = rec
    return res

"""C01 - HTTP routing: first match wins, 400/405/404/503 precedence, rewrite (DESIGN 5/C01)."""
from props import _router as R
from lib.vlib import jdump

PROPS = "Transparent RefIsC01"


def run(ctx):
    ctx.cov["rule"] = ("states = TLC refinement check Search(cache off) = RouteSpec over the template universe; behaviours = TLC -simulate "
                       "runs (configuration built from 26 entry templates x 3 host forms, then requests incl. method tokens no configuration "
                       "can list and decoded paths with a %XX sequence left; at most two steps in which the backend that "
                       "has just served a request is deleted from the table behind the mapper or replaced by a new instance, or a "
                       "missing one is created) replayed on a real mux with "
                       "cacheSize 0, outcome compared with the contract's prediction after every request; traces = seeded random "
                       "configurations (richer grammar) with their requests, each validated by TLC against the contract; non-trivial = "
                       "distinct (owning-entry features, outcome class) pairs observed on the real code")
    ctx.assumptions += ["regular expressions restricted to the family ^?lit(.*)?$? of specs/Strings.tla (Go regexp outside it is trusted)",
                        "route cache off (cacheSize 0); no IP filters; plain HTTP/1.1 requests driven in-process through mux.ServeHTTP",
                        "hosts are names, name:port or [v6]:port",
                        "'a matched backend name that does not exist' read at the time of the request: the mapper may lose a backend between "
                        "two requests, or gain one, or have one replaced by a new instance (no reload of the server in between)", "/.well-known/acme-challenge/ paths excluded"]
    R.run_phases(ctx, (("mc", _mc), ("mbt", _mbt), ("tv", _tv)))


def _mc(ctx):
    # the implementation-shaped search (two loops, two flags, early returns) refines the declarative contract
    r = ctx.tlc_mc("HttpRouter_MC", R.mc_cfg("C01InitQuick", "C01Reqs", 1, False, PROPS), label="refinement, 9 templates, <=2 entries",
                   timeout=600)
    ctx.log("refinement (quick universe): %d transitions" % r.generated)
    if not ctx.quick:
        r = ctx.tlc_mc("HttpRouter_MC", R.mc_cfg("C01InitWide", "C01Reqs", 1, False, PROPS), label="refinement, 26 templates, <=2 entries",
                       timeout=1500)
        ctx.log("refinement (wide universe): %d transitions" % r.generated)
        r = ctx.tlc_mc("HttpRouter_MC", R.mc_cfg("C01InitDeep", "C01Reqs", 1, False, PROPS), label="refinement, 9 templates, <=3 entries",
                       timeout=1500)
        ctx.log("refinement (deep universe): %d transitions" % r.generated)


def _violation(ctx, cfg, q, exp, got, own, how, replay, gone=None):
    sig = {"kind": how, "exp": R.kind(exp), "got": R.kind(got)}
    sig.update(R.entry_features(cfg, own))
    what = "request %s: real mux (cache off) answers %s, the contract says %s" % (R.show_req(q), R.show(got), R.show(exp))
    if gone and R.kind(exp) == "503":
        sig["deleted"] = True
        what += "; backend %s was deleted from the mapper after it had served a request" % ", ".join(gone)
    ctx.violation(sig, what, replay)


def _mbt(ctx):
    nb = 500 if ctx.quick else 8000
    behs = ctx.tlc_simulate("HttpRouter_Gen", R.gen_cfg("C01Reqs", 6 if ctx.quick else 10, False, "C01Templates", "C01Shells",
                                                        "C01ServerFilters", "PlansBig", unmaps=2),
                            num=nb, depth=28 if ctx.quick else 40, timeout=900)
    behs = [b for b in behs if b and b[0].get("a") == "cfg" and len(b) > 1]
    if len(behs) < nb // 2:
        ctx.inconclusive("C01: TLC produced only %d usable behaviours" % len(behs))
    inp = ctx.path("c01_behs.ndjson")
    with open(inp, "w") as fh:
        for b in behs:
            fh.write(jdump(b) + "\n")
    outp = ctx.path("c01_replay.ndjson")
    rc, out = ctx.go_test(R.PKG, "^TestVerifC01Replay$", env={"VERIF_IN": inp, "VERIF_OUT": outp}, timeout=900)
    recs = ctx.read_ndjson(outp)
    summ = [x for x in recs if x.get("k") == "summary"]
    if rc != 0 or not summ:
        ctx.inconclusive("C01 replay harness failed:\n" + out[-3000:])
    if summ[0]["rejected"]:
        ctx.inconclusive("C01: %d TLC-generated configurations were rejected by easegress' validation: %s" % (
            summ[0]["rejected"], [x for x in recs if x.get("k") == "rejected"][:1]))
    steps = summ[0]["steps"]
    if steps < len(behs):
        ctx.inconclusive("C01: replay executed only %d requests" % steps)
    ctx.evals(steps)
    ctx.traces(len(behs))
    gone503 = 0      # requests that get 503 because their backend was deleted earlier in the behaviour
    renewed = 0      # requests served by an instance that was created or put in place of another earlier in the behaviour
    for b in behs:
        cfg = b[0]["cfg"]
        gone, back = set(), set()      # backends deleted (and not created again) / created or replaced so far
        for s in b[1:]:
            if s.get("a") == "unmap":
                gone.add(s["be"])
            if s.get("a") == "map":
                gone.discard(s["be"])
                back.add(s["be"])
            if s.get("a") == "remap":
                back.add(s["be"])
            if s.get("a") == "req":
                f = R.entry_features(cfg, s.get("own"))
                late = False
                if s["exp"].get("code") == 503 and s["own"].get("code") == 0:
                    i, j = s["own"]["pos"]
                    late = cfg["rules"][i - 1]["paths"][j - 1]["backend"] in gone
                    gone503 += late
                if s["exp"].get("code") == 0 and s["own"].get("code") == 0:
                    i, j = s["own"]["pos"]
                    renewed += cfg["rules"][i - 1]["paths"][j - 1]["backend"] in back
                ctx.nontrivial({"f": f, "k": R.kind(s["exp"]), "rw": s["exp"].get("path") != s["q"].get("path"), "gone": late})
    ctx.notes.append({"replay_503_after_backend_deleted": gone503, "replay_served_by_a_new_instance": renewed})
    if gone503 < len(behs) // 50 or renewed < len(behs) // 50:
        ctx.inconclusive("C01: only %d generated requests are routed to a backend deleted earlier in the behaviour, %d to one "
                         "created or replaced" % (gone503, renewed))
    ctx.sample({"kind": "tlc-behaviour", "entries": [len(r["paths"]) for r in behs[0][0]["cfg"]["rules"]],
                "steps": [{"q": R.show_req(s["q"]), "exp": R.show(s["exp"])} for s in behs[0][1:4] if s.get("a") == "req"]})
    for m in [x for x in recs if x.get("k") == "mismatch"]:
        _violation(ctx, m["cfg"], m["q"], m["exp"], m["got"], m.get("own"), "replay", m, m.get("gone"))


def _tv(ctx):
    ncfg, nreq = (120, 16) if ctx.quick else (2500, 20)
    raw = ctx.path("c01_trace_raw.ndjson")
    rc, out = ctx.go_test(R.PKG, "^TestVerifC01Trace$", env={"VERIF_OUT": raw, "VERIF_N": ncfg, "VERIF_REQS": nreq}, timeout=900)
    tp, ev, other = R.split_trace(ctx, raw, "c01_trace.ndjson")
    ncfgs = sum(1 for e in ev if e["ev"] == "cfg")
    if rc != 0 or ncfgs < ncfg:
        ctx.inconclusive("C01 trace harness failed (%d configurations, %d rejected):\n%s" % (ncfgs, len(other), out[-3000:]))
    reqs = [e for e in ev if e["ev"] == "req"]
    codes = {}
    for e in reqs:
        codes[R.kind(e["ou"])] = codes.get(R.kind(e["ou"]), 0) + 1
    need = ["backend", "400", "404", "405"] + ([] if ctx.quick else ["503"])
    vacuous = None      # judged after the trace (the counts come from the real code)
    if any(codes.get(k, 0) == 0 for k in need):
        vacuous = "C01 trace is vacuous: outcome classes seen %s" % codes
    bad = R.validate_chunks(ctx, ev, "c01_tv", chunk=2500 if ctx.quick else 6000)
    ctx.evals(len(reqs))
    ctx.traces(ncfgs)
    ctx.notes.append({"tv_outcomes": codes, "tv_rejected_configs": len(other)})
    for e in reqs[:2000]:
        ctx.nontrivial({"tv": R.kind(e["ou"]), "rw": e["ou"].get("path") != e["q"].get("path"), "h": R.chars(e["q"]["host"])})
    ctx.sample({"kind": "recorded-trace-line", "q": R.show_req(reqs[0]["q"]), "observed": R.show(reqs[0]["ou"])})
    for idx, rec in sorted(bad.items()):
        e = ev[idx]
        if rec.get("okU"):
            continue
        _violation(ctx, R.cfg_of_line(ev, idx), e["q"], rec["exp"], e["ou"], rec.get("own"), "trace",
                   {"cfg": R.cfg_of_line(ev, idx), "q": e["q"], "observed": e["ou"], "contract": rec["exp"]})
    if vacuous:
        ctx.inconclusive(vacuous)

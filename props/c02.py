"""C02 - pipeline flow order, forward-only jumpIf, END, before/after flows, validation (DESIGN 5/C02).

Phases (VERIF_PHASES=mbt,sim,gf,tv,lead):
  mbt   TLC explores bounded families of configurations x all result vectors (specs/PipelineFlow_Gen.tla),
        checking on the way that the implementation-shaped layer refines the contract (Refines) and that the
        clauses of the property are theorems of the contract (ContractClauses); every terminal state is exported
        (-dump) as a case and replayed on real Pipeline objects (harness/pkg/object/pipeline).
  sim   TLC -simulate samples a much larger domain (longer valid flows, before/after, namespaces); replayed too.
  gf    the before/after cases are also replayed through real GlobalFilter objects (harness/pkg/object/globalfilter).
  tv    seeded random larger configurations run on the real code, validated by TLC against the contract
        (specs/PipelineFlow_Trace.tla).
  lead  TLC's refinement counterexample for the known END-alias defect (documentation only, never a verdict).
"""
import os
from concurrent.futures import ThreadPoolExecutor

from lib.vlib import jdump

PKG = "pkg/object/pipeline"
PKG_GF = "pkg/object/globalfilter"
FINDING_END_ALIAS = "end-alias-captures-jump"

INV = "INVARIANTS TypeOK Refines ContractClauses\n"
INV_NOREF = "INVARIANTS TypeOK ContractClauses\n"


def fam_cfg(defs, nodes_m, max_m, has_b="{FALSE}", has_a="{FALSE}", nodes_b="{}", nodes_a="{}", max_b=0, max_a=0,
            only_valid=False, fixed=False, inv=INV, results='{"", "r1", "r2"}', side_defs="SameDefs", side_defs_a=None):
    def c(name, v):
        return "  %s %s %s\n" % (name, "=" if v.startswith("{") else "<-", v)
    return ("SPECIFICATION GSpec\nCONSTANTS\n" + c("DefSets", defs) + c("DefSetsB", side_defs) + c("DefSetsA", side_defs_a or side_defs)
            + c("HasBSet", has_b) + c("HasASet", has_a)
            + c("NodesB", nodes_b) + c("NodesM", nodes_m) + c("NodesA", nodes_a)
            + "  MaxB = %d\n  MaxM = %d\n  MaxA = %d\n" % (max_b, max_m, max_a)
            + "  Results = %s\n  OnlyValid = %s\n  EndAliasFixed = %s\n" % (results, "TRUE" if only_valid else "FALSE",
                                                                          "TRUE" if fixed else "FALSE")
            + inv)


def end_alias_target(cfg):
    """the configuration has an aliased END node whose alias is a jump target of an earlier node"""
    for sg in ("b", "m", "a"):
        flow = cfg.get(sg) or []
        for q, n in enumerate(flow):
            if n["filter"] == "END" and n["alias"]:
                for p in range(q):
                    if flow[p]["filter"] != "END" and n["alias"] in (flow[p].get("jump") or {}).values():
                        return True
    return False


def diff_class(got, allowed):
    if got.get("note"):
        return "note:" + got["note"].split(":")[0].split(" ")[0]
    if not allowed:
        return "nothing-allowed"
    want = allowed[0]
    gv, wv = got.get("visits") or [], want["visits"]
    strip = lambda v: {k: v.get(k) for k in ("seg", "filter", "name", "ns", "res")}
    for k in range(min(len(gv), len(wv))):
        g, w_ = strip(gv[k]), strip(wv[k])
        if g != w_:
            for f in ("seg", "filter", "name", "ns", "res"):
                if g[f] != w_[f]:
                    return "visit-differs:" + f
    if len(gv) > len(wv):
        return "more-visits"
    if len(gv) < len(wv):
        return "fewer-visits"
    if got.get("result") != want["result"]:
        return "result"
    return "other"


def group(recs):
    """TLC cases -> one group per configuration: verdicts + all result vectors with the allowed outcomes"""
    groups = {}
    for r in recs:
        key = jdump(r["cfg"])
        g = groups.get(key)
        if g is None:
            g = groups[key] = {"cfg": r["cfg"], "verdict": r["verdict"], "runs": []}
        if r.get("ran"):
            g["runs"].append({"script": r["script"], "allowed": r["allowed"]})
    return list(groups.values())


def interesting(g, run):
    """a run that exercises more than plain sequential execution"""
    if any(x != "" for x in run["script"]):
        return True
    cfg = g["cfg"]
    return any(n["filter"] == "END" for sg in ("b", "m", "a") for n in (cfg.get(sg) or [])) or cfg["hasB"] or cfg["hasA"]


def replay(ctx, label, groups, pkg=PKG, test="^TestVerifC02Replay$", timeout=1500, extra_env=None):
    """replays the groups (each tagged with its family in "fam") on the real code in one `go test` run"""
    if not groups:
        ctx.inconclusive("C02 %s: TLC exported no cases" % label)
    inp = ctx.path("c02_%s_in.ndjson" % label)
    with open(inp, "w") as fh:
        for g in groups:
            fh.write(jdump(g) + "\n")
    outp = ctx.path("c02_%s_out.ndjson" % label)
    env = {"VERIF_IN": inp, "VERIF_OUT": outp}
    env.update(extra_env or {})
    rc, out = ctx.go_test(pkg, test, env=env, timeout=timeout)
    recs = ctx.read_ndjson(outp)
    summ = [x for x in recs if x.get("k") == "summary"]
    if rc != 0 or not summ:
        ctx.inconclusive("C02 replay harness (%s) failed:\n%s" % (label, out[-3000:]))
    s = summ[0]
    mism = [x for x in recs if x.get("k") == "mismatch"]
    for fam in sorted({g["fam"] for g in groups}):
        gs = [g for g in groups if g["fam"] == fam]
        ctx.log("%s/%s: %d configurations (%d runnable), %d result vectors replayed, %d mismatches"
                % (label, fam, len(gs), sum(1 for g in gs if g["runs"]), sum(len(g["runs"]) for g in gs),
                   sum(1 for m in mism if m.get("fam") == fam)))
        for g in gs:
            if len(g["runs"]) > 1 and any(x for r in g["runs"] for x in r["script"]):
                ctx.sample({"kind": "tlc-case:" + fam, "cfg": g["cfg"], "verdict": g["verdict"],
                            "run": max(g["runs"], key=lambda r: sum(1 for x in r["script"] if x))}, cap=6)
                break
    nruns = sum(len(g["runs"]) for g in groups)
    if s["configs"] != len(groups):
        ctx.inconclusive("C02 replay harness (%s) handled %d of %d configurations" % (label, s["configs"], len(groups)))
    if nruns == 0 or s["runs"] == 0:
        ctx.inconclusive("C02 replay (%s) is vacuous: %d result vectors generated, %d runs on the real code" % (label, nruns, s["runs"]))
    ctx.evals(len(groups) + nruns)
    ctx.traces(len(groups) + nruns)
    for g in groups:
        if not g["runs"] and any(v == "rej" for v in g["verdict"].values()):
            ctx.nontrivial({"rej": g["cfg"]})
        for r in g["runs"]:
            if interesting(g, r):
                ctx.nontrivial({"c": g["cfg"], "s": r["script"]})
    obs = [m for m in mism if m["kind"] == "run" and m["got"].get("obs")]
    if obs:
        ctx.inconclusive("C02 (%s): the pipeline stats tag could not be used to observe node names in %d runs: %s"
                         % (label, len(obs), obs[0]["got"]["obs"]))
    for m in mism:
        eat = end_alias_target(m["cfg"])
        fam = m.get("fam")
        if m["kind"] == "verdict":
            sig = {"kind": "verdict", "family": fam, "seg": m["seg"], "want": m["want"], "got": m["got"], "endAliasTarget": eat}
            what = ("validation %s a specification (%s) that the contract says must be %s: %s"
                    % ("accepted" if m["got"] == "acc" else "rejected [%s]" % m.get("err", ""), m["seg"],
                       "accepted" if m["want"] == "acc" else "rejected", m.get("yaml", "").strip().replace("\n", "; ")))
        elif m["kind"] == "crash":
            sig = {"kind": "crash", "family": fam, "seg": m["seg"]}
            what = m["what"]
        else:
            dc = diff_class(m["got"], m["allowed"])
            sig = {"kind": "run", "family": fam, "mode": m.get("mode"), "diff": dc, "endAliasTarget": eat}
            what = ("real pipeline diverges from the contract (%s): flow m=%s b=%s a=%s results %s: invoked %s result %r%s; contract allows %s"
                    % (dc, _flow_str(m["cfg"].get("m")), _flow_str(m["cfg"].get("b")), _flow_str(m["cfg"].get("a")), m["script"],
                       [(v.get("seg"), v.get("name"), v.get("ns"), v.get("res")) for v in (m["got"].get("visits") or [])],
                       m["got"].get("result"), (" [" + m["got"]["note"] + "]") if m["got"].get("note") else "",
                       [[(v["seg"], v["name"], v["ns"], v["res"]) for v in a["visits"]] + [a["result"]] for a in m["allowed"]]))
        ctx.violation(sig, what, m)
    return s


def _flow_str(flow):
    out = []
    for n in flow or []:
        s = n["filter"]
        if n["alias"]:
            s += " as " + n["alias"]
        if n["ns"]:
            s += "@" + n["ns"]
        j = {r: t for r, t in (n.get("jump") or {}).items() if t != "-"}
        if j:
            s += jdump(j)
        out.append(s)
    return "[" + ", ".join(out) + "]"


def run(ctx):
    ctx.cov["rule"] = ("cases = terminal states of the TLC exploration of PipelineFlow_Gen (configuration x result vector), every one "
                       "replayed on real Pipeline objects built through supervisor.NewSpec; traces = those replays + seeded random "
                       "configurations executed on the real code and validated by TLC against the contract; non-trivial = distinct "
                       "(configuration, result vector) with a jump, an END node or before/after flows, and distinct rejected configurations")
    ctx.assumptions += ["filters are the test-only scripted kinds C02K12/C02K1/C02K123/C02KC/C02K0 (declared results r1,r2 / r1 / r1,r2,r3 / R1,r1 / none); "
                        "result names are compared exactly (case, prefixes, the empty name are different names)",
                        "an END node that carries an alias may or may not be a jump target (both readings admitted by the contract)",
                        "no alias equals END; each of the before / main / after pipelines has its own filter list (the main one, "
                        "an empty one, or other kinds under the same names)",
                        "GlobalFilter: before/after pipelines are given with an explicit non-empty flow (or with neither flow nor filters)"]
    fixed = any(f.get("id") == FINDING_END_ALIAS for f in ctx.findings.get("fixed", []))
    q = ctx.quick
    ctx.cov["exhaustive_families"] = ("flow: all main flows of <= 3 nodes over the node variants of PipelineFlow_Gen!%s; keys: all flows of <= 2 nodes over 4 kinds x jumpIf "
                                      "keys {\"\", R1, r, r1, r11, r2, r3} (one or two per map) x targets; degen: before <= 2 / main <= 1 / after <= 1 nodes "
                                      "incl. END-only flows x filter lists {empty, main, f:K1} per pipeline; endalias, defs, bma "
                                      "likewise (see tlc_runs); each x all result vectors over {\"\", r1, r2}" % ("QFlowNodes" if q else "FlowNodes (+ <= 4 nodes over Flow4Nodes)"))
    jobs = []          # (label, callable) - TLC generation jobs, run concurrently (each is its own JVM)
    if ctx.phase("mbt"):
        fams = [
            # control flow and jump validation over the standard definitions f:K12, g:K1
            ("flow", fam_cfg("FlowDefs", "QFlowNodes" if q else "FlowNodes", 3, fixed=fixed), 6),
            # END nodes that carry an alias (the implementation-shaped layer as pinned does not refine the contract there)
            ("endalias", fam_cfg("FlowDefs", "EaNodes", 3 if q else 4, fixed=fixed, inv=INV if fixed else INV_NOREF), 2 if q else 4),
            # filter definitions: duplicated, reserved, undefined, unused, default flow
            ("defs", fam_cfg("DefsDefs", "DefsNodes", 2 if q else 3, fixed=fixed), 2 if q else 4),
            # before / main / after, namespaces
            ("bma", fam_cfg("FlowDefs", "BmaNodesQ" if q else "BmaNodes", 2, has_b="{TRUE, FALSE}", has_a="{TRUE, FALSE}",
                            nodes_b="BmaSideQ" if q else "BmaSide", nodes_a="BmaSideQ" if q else "BmaSide",
                            max_b=1, max_a=1, fixed=fixed), 4 if q else 6),
        ]
        # degenerate before / after / main pipelines: flows of END nodes only, empty filter lists, per-pipeline kinds
        fams.append(("degen", fam_cfg("DegDefs", "DegNodesM", 1, has_b="{TRUE, FALSE}", has_a="{TRUE, FALSE}", nodes_b="DegNodesB",
                                      nodes_a="DegNodesAQ" if q else "DegNodesA", max_b=2, max_a=1 if q else 2, side_defs="DegSideDefs",
                                      side_defs_a="DegSideDefsQ" if q else "DegSideDefs", fixed=fixed), 4 if q else 6))
        # which jumpIf keys validation accepts: names placed everywhere relative to the declared results of the kind
        fams.insert(1, ("keys", fam_cfg("KeyDefs", "KeyNodes", 2, fixed=fixed, results='{"", "r1", "R1", "r2"}'), 4))
        if not q:
            fams.append(("flow4", fam_cfg("FlowDefs", "Flow4Nodes", 4, fixed=fixed), 6))
        for label, cfg, wk in fams:
            jobs.append((label, lambda label=label, cfg=cfg, wk=wk: ctx.tlc_dump("PipelineFlow_Gen", cfg, timeout=1500, label=label, workers=wk)))
    if ctx.phase("sim"):
        # sampling of a much larger domain; thorough: several simulators with different seeds side by side
        for k in range(1 if q else 4):
            jobs.append(("sim%d" % k if k else "sim", lambda k=k: _sim_gen(ctx, fixed, 200 if q else 700, ctx.seed * 16 + k)))
    if ctx.phase("lead") and not fixed and not q:
        jobs.append(("lead", lambda: _lead(ctx)))
    if jobs:
        jobs.append(("warmup", lambda: ctx.go_build_all([PKG, PKG_GF])))     # compile the harnesses meanwhile
    results = {}
    os.environ.setdefault("VERIF_TLC_HEAP", "4g")      # several JVMs run side by side
    with ThreadPoolExecutor(max_workers=max(1, len(jobs)) if q else 6) as ex:
        futs = [(label, ex.submit(fn)) for label, fn in jobs]
        for label, fu in futs:
            results[label] = fu.result()       # Inconclusive propagates
    groups = []
    for label, _fn in jobs:
        if label in ("lead", "warmup"):
            continue
        gs = group(results[label])
        for g in gs:
            g["fam"] = "sim" if label.startswith("sim") else label
        groups += gs
    want_tv = ctx.phase("tv")
    tp = ctx.path("c02_trace.ndjson")
    n, reqs = (250, 5) if q else (4000, 8)
    tv_env = {"VERIF_TRACE_OUT": tp, "VERIF_N": n, "VERIF_REQS": reqs} if want_tv else {}
    if groups:
        replay(ctx, "pipeline", groups, test="^TestVerifC02(Replay|Trace)$" if want_tv else "^TestVerifC02Replay$", extra_env=tv_env)
    elif want_tv:
        rc, out = ctx.go_test(PKG, "^TestVerifC02Trace$", env=tv_env)
        if rc != 0:
            ctx.inconclusive("C02 trace harness failed:\n" + out[-3000:])
    with ThreadPoolExecutor(max_workers=2) as ex:
        futs = []
        if want_tv:
            futs.append(ex.submit(_tv, ctx, tp))
        if ctx.phase("gf") and groups:
            futs.append(ex.submit(_gf, ctx, [g for g in groups if g["cfg"]["hasB"] or g["cfg"]["hasA"]]))
        for fu in futs:
            fu.result()


def _sim_gen(ctx, fixed, nb, seed):
    cfg = fam_cfg("SimDefs", "SimNodes", 6, has_b="{TRUE, FALSE}", has_a="{TRUE, FALSE}", nodes_b="SimNodes", nodes_a="SimNodes",
                  max_b=3, max_a=3, only_valid=True, fixed=fixed, inv=INV_NOREF, results='{"", "r1", "r2", "r3", "R1"}',
                  side_defs="SimSideDefs")
    behs = ctx.tlc_simulate("PipelineFlow_Gen", cfg, num=nb, depth=80, timeout=1200, seed=seed)
    recs = [b[-1] for b in behs if b]
    if len(recs) < nb // 2:
        ctx.inconclusive("C02: only %d of %d simulated behaviours reached a terminal state" % (len(recs), nb))
    return recs


def _gf(ctx, groups):
    # real GlobalFilter objects: before/after given with an explicit flow, or with neither flow nor filters (a filter list
    # without a flow makes GlobalFilter skip the pipeline: not claimed)
    sel = [g for g in groups if all((not g["cfg"][h]) or g["cfg"][s] or not g["cfg"][d]
                                    for h, s, d in (("hasB", "b", "db"), ("hasA", "a", "da")))]
    # vacuity guard: END-only side flows over an empty filter list must be among the cases (quick and thorough)
    deg = [g for g in sel if any(g["cfg"][h] and g["cfg"][s] and not g["cfg"][d] and g["runs"]
                                 for h, s, d in (("hasB", "b", "db"), ("hasA", "a", "da")))]
    if ctx.phase("mbt") and not deg:
        ctx.inconclusive("C02: no runnable before/after pipeline made of built-in nodes only among the GlobalFilter cases")
    ctx.log("globalfilter: %d cases, %d with a runnable before/after flow that has no filters" % (len(sel), len(deg)))
    if not sel:
        ctx.inconclusive("C02: no before/after cases for the GlobalFilter harness")
    replay(ctx, "globalfilter", sel, pkg=PKG_GF, test="^TestVerifC02GlobalFilter$")


def _tv(ctx, tp):
    ev = ctx.read_ndjson(tp)
    if not ev:
        ctx.inconclusive("C02 trace harness produced no events")
    ob = [e for e in ev if e["ev"] == "obs"]
    if ob:
        ctx.inconclusive("C02 trace: the pipeline stats tag could not be used to observe node names: %s" % ob[0]["what"])
    ncfg = sum(1 for e in ev if e["ev"] == "cfg")
    nreq = sum(1 for e in ev if e["ev"] == "end")
    nrej = sum(1 for e in ev if e["ev"] == "cfg" and not all(e["acc"].values()))
    if nreq < ncfg or nrej == 0:
        ctx.inconclusive("C02 trace driver is vacuous: %d configurations, %d rejected, %d requests" % (ncfg, nrej, nreq))
    ctx.evals(ncfg + nreq)
    cfg_text = "SPECIFICATION TSpec\nCONSTRAINT HWM\nPOSTCONDITION Accepted\nINVARIANT ObservedClauses\n"
    # the validator stops at the first event the contract does not explain: report it, cut the configuration it belongs to
    # out of the log and validate the rest (bounded number of rounds)
    for rnd in range(8):
        tr = ctx.tlc_trace("PipelineFlow_Trace", cfg_text, tp, timeout=1500)
        ctx.log("trace validation: %d configurations (%d rejected by validation), %d requests, %d events, consumed %d, accepted=%s"
                % (ncfg, nrej, nreq, len(ev), tr.hwm, tr.accepted))
        if tr.accepted:
            break
        end = min(tr.hwm + 1, len(ev))
        start = 0
        for k in range(end - 1, -1, -1):
            if ev[k]["ev"] == "cfg":
                start = k
                break
        stop = len(ev)
        for k in range(start + 1, len(ev)):
            if ev[k]["ev"] == "cfg":
                stop = k
                break
        seg = ev[start:end]
        bad = seg[-1] if seg else {}
        cfg = seg[0].get("cfg", {}) if seg else {}
        sig = {"kind": "trace", "ev": bad.get("ev"), "inv": tr.inv or "rejected", "endAliasTarget": end_alias_target(cfg) if cfg else False}
        ctx.violation(sig, "recorded execution of the real pipeline is not allowed by the contract: first unexplained event #%d %s "
                           "(configuration m=%s b=%s a=%s accepted=%s)%s"
                      % (tr.hwm + 1, jdump({k: v for k, v in bad.items() if k != "cfg"}), _flow_str(cfg.get("m")), _flow_str(cfg.get("b")),
                         _flow_str(cfg.get("a")), seg[0].get("acc") if seg else None, ", invariant %s" % tr.inv if tr.inv else ""), seg)
        ev = ev[:start] + ev[stop:]
        tp = ctx.write_ndjson("c02_trace_r%d.ndjson" % rnd, ev)
        if not ev:
            return
    else:
        return
    ctx.traces(sum(1 for e in ev if e["ev"] in ("cfg", "end")))
    cur, cfgev = [], None
    for e in ev:
        if e["ev"] == "cfg":
            cfgev = e
            if not all(e["acc"].values()):
                ctx.nontrivial({"trej": e["cfg"]})
        elif e["ev"] == "visit":
            cur.append(e)
        elif e["ev"] == "end":
            if any(v["res"] for v in cur):
                ctx.nontrivial({"tc": cfgev["cfg"], "v": [(v["name"], v["res"]) for v in cur]})
            cur = []
    ctx.sample({"kind": "recorded-trace", "events": [e for e in ev if e["ev"] != "cfg"][:8]}, cap=6)


def _lead(ctx):
    """TLC finds the END-alias defect on the implementation-shaped layer by itself: documentation of the lead; the verdict
    comes from the replay of the `endalias` family on the real code."""
    r = ctx.tlc_mc("PipelineFlow_Gen", fam_cfg("FlowDefs", "EaNodes", 3, fixed=False, inv="INVARIANTS Refines\n"),
                   expect_ok=False, count=False, label="lead: doHandle as pinned vs contract, aliased END nodes", timeout=600)
    if r.violated == "Refines":
        ctx.notes.append("TLC: the implementation-shaped layer as pinned violates Refines on flows with an aliased END node "
                         "(counterexample of depth %d); decided on the real code by the endalias family" % r.depth)
    elif r.ok:
        ctx.notes.append("TLC: implementation-shaped layer refines the contract on the aliased-END family")
    else:
        ctx.inconclusive("C02 lead run failed: %s" % (r.error,))

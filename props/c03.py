"""C03 - Proxy forwards requests/responses faithfully, hop-by-hop stripped, well-framed (DESIGN 5/C03).

phases (VERIF_PHASES): mc    exhaustive model checking of the repaired implementation-shaped layer against the contract
                       lead  (thorough) the same with one defect left in: TLC must find the contract violation
                       mbt   scenarios enumerated by TLC, concretised and run on the real code over sockets,
                             the recorded exchanges evaluated by TLC against the contract (ProxyMsg_Trace)
"""
from props import _proxymsg as pm

PKG = "pkg/object/httpserver"
INVS = "INVARIANTS Faithful Reaches PathUnchanged BodyUnchanged HopStripped HostRule StatusKept ContentKept WellFramed Composed\n"

REQ_CLAUSES = ("reach", "method", "path", "query", "reqbody", "reqe2e", "reqhop", "host")
PRIORITY = ("reach", "status", "path", "query", "method", "host", "reqbody", "reqhop", "reqe2e", "framed", "content", "respe2e")


def mc_cfg(fixed, quick):
    sp = ("ReqScnQuick", "RespScnQuick") if quick else ("ReqScn", "RespScn")
    return "SPECIFICATION Spec\nCONSTANTS\n  Fixed = {%s}\n  ReqSpace <- %s\n  RespSpace <- %s\n" % (
        ", ".join('"%s"' % f for f in fixed), sp[0], sp[1])


def gen_cfg(quick):
    sp = ("ReqScnQuick", "RespScnGenQuick") if quick else ("ReqScn", "RespScn")
    return "SPECIFICATION Spec\nCONSTANTS\n  ReqSpace <- %s\n  RespSpace <- %s\n" % sp


ALL = ["F5", "F6", "F7", "HEAD", "METRIC"]


def run(ctx):
    ctx.cov["rule"] = ("scenario = one element of the request-direction or response-direction toggle product of specs/ProxyMsgDefs.tla "
                       "(enumerated by TLC); evaluation = one real exchange (raw client -> mux.ServeHTTP -> Pipeline[RequestAdaptor? Proxy "
                       "ResponseAdaptor?] -> raw TCP backend and back) whose recording TLC evaluated against the contract; "
                       "trace = the same recorded exchange; non-trivial = distinct (request scenario class, response scenario) pairs that "
                       "exercise a non-default toggle")
    ctx.assumptions += [
        "path 'unchanged' = identical after percent-decoding (raw query: byte-identical); see ProxyMsgDefs.tla",
        "hop-by-hop 'removed' = no header of that name carrying one of the client's values reaches the backend; the client's own "
        "Transfer-Encoding/Trailer are consumed by net/http before easegress sees them and are not observable",
        "a ResponseAdaptor/RequestAdaptor `body:` replaces the content: the configured body is then what must arrive",
        "Content-Encoding values other than gzip, HTTP/2, HTTP/3, mirror pool, memory cache, mTLS are outside the model",
        "byte equality / gzip / sha256 are computed by the harness abstraction (trusted); TLC sees identities and lengths",
    ]
    if ctx.phase("mc"):
        r = ctx.tlc_mc("ProxyMsg", mc_cfg(ALL, ctx.quick) + INVS, label="repaired implementation layer refines the contract", timeout=1500)
        ctx.log("model checked: %d distinct states in %.0fs" % (r.distinct, r.wall))
    if ctx.phase("lead") and not ctx.quick:
        _leads(ctx)
    if ctx.phase("mbt"):
        _mbt(ctx)


def _leads(ctx):
    """Design-level leads: with one defect left in, TLC must find a contract violation (non-vacuity of
    the invariants and of the defect models).  Never a verdict about the code."""
    for f in ALL:
        r = ctx.tlc_mc("ProxyMsg", mc_cfg([x for x in ALL if x != f], True) + "INVARIANTS Faithful\n", expect_ok=False,
                       count=False, label="lead: model with defect %s left in" % f, timeout=900)
        if r.violated != "Faithful":
            ctx.inconclusive("the model with defect %s left in does not violate the contract (vacuous model?):\n%s" % (f, r.out[-1500:]))
    ctx.log("leads: TLC finds a contract violation for each of %s when it is left in the model" % ALL)


def _pair(ctx, vecs):
    """Pairs request-direction and response-direction scenarios into cases (seeded)."""
    rnd = pm.rng(ctx, 303)
    reqs = [v for v in vecs if v["dir"] == "req"]
    resps = [v for v in vecs if v["dir"] == "resp"]
    if not reqs or not resps:
        ctx.inconclusive("vector generation produced no scenarios")
    reqs.sort(key=lambda v: pm.jdump(v["s"]))
    resps.sort(key=lambda v: pm.jdump(v["s"]))
    rnd.shuffle(reqs)
    rnd.shuffle(resps)
    n = 1200 if ctx.quick else 12000
    bodyless = [v for v in reqs if v["s"]["rbody"] == "none"]
    cases = []
    for i in range(n):
        pv = resps[i % len(resps)]
        rv = reqs[i % len(reqs)]
        if pv["s"]["head"] and rv["s"]["rbody"] != "none":
            rv = bodyless[i % len(bodyless)]
        exp = dict(rv["exp"])      # times, pathrel, blabel, hostis from the request scenario
        exp.update({k: pv["exp"][k] for k in ("status", "clabel")})
        exp["viol"] = sorted(set(rv["exp"]["viol"]) | set(pv["exp"]["viol"]))
        cases.append({"id": i + 1, "req": rv, "resp": pv, "exp": exp})
    return cases


def _sig(case, clause):
    rs, ps = case["req"]["s"], case["resp"]["s"]
    if clause in REQ_CLAUSES:
        sig = {"dir": "req", "clause": clause}
        if clause in ("reach", "path", "query"):
            sig.update(pathcls=case["req"]["pathcls"], querycls=case["req"]["querycls"])
        if clause in ("reach", "reqbody", "method"):
            sig.update(ra=rs["ra"], reqMode=rs["reqMode"], rbody=rs["rbody"], renc=rs["renc"], retried=rs["fails"] > 0)
        if clause in ("reqe2e", "reqhop"):
            sig.update(hshape=rs["hshape"], ra=rs["ra"], rahdr=rs["rahdr"], retried=rs["fails"] > 0)
        if clause == "host":
            sig.update(addr=rs["addr"], keepHost=rs["keepHost"])
        return sig
    sig = {"dir": "resp", "clause": clause}
    sig.update({k: ps[k] for k in ("comp", "rsa", "rsahdr", "respMode", "ae", "head", "bframing", "benc")})
    sig["empty"] = ps["bsize"] == 0
    sig.update(case["resp"]["feat"])
    return sig


def _mbt(ctx):
    vecs = ctx.tlc_dump("ProxyMsg_Gen", gen_cfg(ctx.quick), label="scenario vectors", timeout=900, count=False)
    cases = _pair(ctx, vecs)
    ctx.log("%d scenario vectors, %d cases" % (len(vecs), len(cases)))
    events, summ = pm.run_harness(ctx, PKG, "TestVerifC03Run", cases, "c03", timeout=1500)
    ctx.log("%d exchanges recorded (ipv6 backend: %s)" % (len(events), summ.get("ipv6")))
    verdicts = pm.evaluate(ctx, "ProxyMsg_Trace", events, "c03_trace")
    by_id = {c["id"]: c for c in cases}
    ev_by_id = {e["id"]: e for e in events}
    ctx.evals(len(events))
    ctx.traces(len(events))
    for e in events:
        c = by_id[e["id"]]
        ctx.nontrivial({"r": {k: v for k, v in c["req"]["s"].items() if k not in ("path", "query")}, "pc": c["req"]["pathcls"], "p": c["resp"]["s"]})
    for e in events[:3]:
        ctx.sample({"kind": "exchange", "client_target": e["c"].get("targetText"),
                    "backend_targets": [b.get("targetText") for b in e["bs"]],
                    "cfg": e["cfg"], "client_status": e["cr"]["status"], "framing": e["cr"]["framing"], "declared": e["cr"]["declared"],
                    "got": e["cr"]["got"], "scenario": {"req": by_id[e["id"]]["req"]["s"], "resp": by_id[e["id"]]["resp"]["s"]}})
    drift = 0
    for cid, (viol, dr) in sorted(verdicts.items()):
        c, e = by_id[cid], ev_by_id[cid]
        if not viol:
            drift += 1
            if drift <= 6:
                ctx.notes.append("model drift (no contract clause violated): case %d fields %s scenario %s" % (cid, dr, pm.jdump(
                    {"req": c["req"]["s"], "resp": c["resp"]["s"]})))
            continue
        for clause in _primary(viol):
            what = _describe(clause, c, e)
            ctx.violation(_sig(c, clause), what, {"case": c, "exchange": _trim(e), "violated": viol})
    if drift:
        ctx.notes.append("%d exchanges satisfied the contract but differed from the implementation-shaped layer's prediction" % drift)
        ctx.log("model drift on %d exchanges (not a verdict)" % drift)


def _primary(viol):
    """one signature per direction: the highest-priority violated clause of the request side and of the response side"""
    out = []
    rq = [c for c in PRIORITY if c in viol and c in REQ_CLAUSES]
    rp = [c for c in PRIORITY if c in viol and c not in REQ_CLAUSES]
    if rq:
        out.append(rq[0])
    if rp and "reach" not in viol:
        out.append(rp[0])
    elif rp and "framed" in viol:
        out.append("framed")
    return out


def _describe(clause, c, e):
    cr, bs = e["cr"], e["bs"]
    b = bs[-1] if bs else {"hdr": [], "host": None, "method": None, "body": {"len": None, "label": None, "decok": None}}
    if clause == "reach":
        return "client request %s %s was not delivered to a backend (backends saw %d requests, at most %d attempts configured; client got status %s)" % (
            e["c"]["method"], e["c"].get("targetText"), len(bs), e["cfg"]["maxAttempts"], cr["status"])
    if clause in ("path", "query"):
        return "backend received request-target %r for the client's %r (%s differs)" % (
            [x.get("targetText") for x in bs], e["c"].get("targetText"), clause)
    if clause == "status":
        return "client received status %s for the backend's %s (%s, Content-Length framing: %s, compression minLength %s, ResponseAdaptor %s)" % (
            cr["status"], e["br"]["status"], e["c"]["method"], c["resp"]["s"]["bframing"], e["cfg"].get("compressionMin"), e["cfg"]["rsa"])
    if clause == "framed":
        return "response not well-framed: framing %s declared %s bytes, %s received, complete=%s, after=%s" % (
            cr["framing"], cr["declared"], cr["got"], cr["complete"], cr["after"])
    if clause == "content":
        return "response content differs from the backend's (label %r, decodable=%s, %s bytes; backend %s bytes label %r)" % (
            cr["body"]["label"], cr["body"]["decok"], cr["got"], e["br"]["body"]["len"], e["br"]["body"]["label"])
    names = lambda hs: sorted(h["n"] for h in hs)
    if clause == "reqhop":
        return "a hop-by-hop header of the client reached the backend: client Connection tokens %s, client header names %s, backend header names %s" % (
            e["c"]["conn"], names(e["c"]["hdr"]), names(b["hdr"]))
    if clause == "reqe2e":
        return "an end-to-end header (or one of its values) of the client did not reach the backend: client %s, backend %s" % (
            pm.jdump(e["c"]["hdr"])[:600], pm.jdump(b["hdr"])[:600])
    if clause == "respe2e":
        return "an end-to-end header (or one of its values) of the backend's response did not reach the client: backend %s, client %s" % (
            pm.jdump(e["br"]["hdr"])[:600], pm.jdump(cr["hdr"])[:600])
    if clause == "host":
        return "backends received Host %r; client sent %r, server urls %s, keepHost=%s" % (
            [x["host"] for x in bs], e["c"]["host"], e["cfg"]["urls"], e["cfg"]["keepHost"])
    if clause == "method":
        return "backends received method %r for the client's %r" % ([x["method"] for x in bs], e["c"]["method"])
    if clause == "reqbody":
        return ("request body changed on the way: client sent %s bytes (label %r), the backends received (attempt by attempt) %s bytes "
                "(labels %r), RequestAdaptor %s" % (e["c"]["body"]["len"], e["c"]["body"]["label"], [x["body"]["len"] for x in bs],
                                                     [x["body"]["label"] for x in bs], e["cfg"]["ra"]))
    return "clause %s of the contract violated" % clause


def _trim(e):
    return e

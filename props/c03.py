"""C03 - Proxy forwards requests/responses faithfully, hop-by-hop stripped, well-framed (DESIGN 5/C03).

phases (VERIF_PHASES): mc    exhaustive model checking of the repaired implementation-shaped layer against the contract: one exchange /
                             sequences of exchanges (ProxyMsg) and exchanges in flight at the same time on one proxy instance (ProxyMsgPar)
                       lead  (thorough) the same with one defect left in: TLC must find the contract violation
                       mbt   scenarios enumerated by TLC, concretised and run on the real code over sockets,
                             the recorded exchanges evaluated by TLC against the contract (ProxyMsg_Trace)
"""
import os

from props import _proxymsg as pm

PKG = "pkg/object/httpserver"
INVS = ("INVARIANTS Faithful Reaches PathUnchanged BodyUnchanged HopStripped HostRule StatusKept ContentKept BodilessLength WellFramed "
        "NoTruncatedSuccess HitLikeMiss Composed\n")
PAR_INVS = "INVARIANTS ParFaithful Isolated GzInFlight\n"

REQ_CLAUSES = ("reach", "method", "path", "query", "reqbody", "reqe2e", "reqhop", "host")
PRIORITY = ("reach", "status", "path", "query", "method", "host", "reqbody", "reqhop", "reqe2e", "truncated", "framed", "content", "respe2e",
            "resplen")


def mc_cfg(fixed, quick):
    sp = ("ReqScnQuick", "RespScnQuick") if quick else ("ReqScn", "RespScn")
    return "SPECIFICATION Spec\nCONSTANTS\n  Fixed = {%s}\n  ReqSpace <- %s\n  RespSpace <- %s\n" % (
        ", ".join('"%s"' % f for f in fixed), sp[0], sp[1])


def gen_cfg(quick, mode):
    sp = ("ReqScnQuick", "RespScnGenQuick") if quick else ("ReqScn", "RespScn")
    return "SPECIFICATION Spec\nCONSTANTS\n  ReqSpace <- %s\n  RespSpace <- %s\n" % sp + "  Mode = \"%s\"\n" % mode


ALL = ["F5", "F6", "F7", "HEAD", "METRIC", "ABORT", "CLONE", "MULTI"]


def par_cfg(fixed, space, p):
    return "SPECIFICATION Spec\nCONSTANTS\n  Fixed = {%s}\n  ParSpace <- %s\n  P = %d\n" % (", ".join('"%s"' % f for f in fixed), space, p)


PARREQ_INVS = "INVARIANTS ParReqFaithful IsolatedReq\n"


def parreq_cfg(fixed, p):
    return "SPECIFICATION Spec\nCONSTANTS\n  Fixed = {%s}\n  ParReqSpace <- ParReqScn\n  P = %d\n" % (", ".join('"%s"' % f for f in fixed), p)


def run(ctx):
    ctx.cov["rule"] = ("scenario = one element of the request-direction or response-direction toggle product of specs/ProxyMsgDefs.tla "
                       "(enumerated by TLC); evaluation = one real exchange (raw client -> mux.ServeHTTP -> Pipeline[RequestAdaptor? Proxy "
                       "ResponseAdaptor?] -> raw TCP backend and back) whose recording TLC evaluated against the contract; "
                       "a response scenario with a memory cache is a sequence of 3 identical requests to one proxy instance, each a recorded exchange; "
                       "about 1 case in 5 is a warm-up exchange followed by 2-4 requests in flight at the same time on one proxy instance (every backend "
                       "answer under way before any is completed), each a recorded exchange judged by itself; the media type of the backend's response and "
                       "of the client's request body rotates over none|octet-stream|text|json|event-stream|grpc|multipart; "
                       "the cases are drawn by stratum: request scenarios from the load-balancing policies (default|roundRobin|random|weightedRandom with / "
                       "without weights|ipHash|headerHash x address kind x keepHost x request mode x failing attempts, pools of two servers), the path / query "
                       "classes (escapes, empty segments at the start / inside / at the end, dot segments) and the rest; response scenarios from plain | memory "
                       "cache | backend breaks off | gzip bodies of several members | in flight at the same time; TLC first enumerates the scenarios, then "
                       "computes the vector (features, predicted outcome) of those drawn; "
                       "trace = the same recorded exchange; non-trivial = distinct (request scenario class, response scenario, cache hit) "
                       "triples that exercise a non-default toggle; 1 case in 24 is a warm-up followed by 1-2 requests (bodies of their own, same framing and "
                       "length) that are taken in by the mux and held in front of the pipeline while 2-4 later ones run to completion (ProxyMsgParReq.tla)")
    ctx.assumptions += [
        "path 'unchanged' = identical after percent-decoding (raw query: byte-identical); see ProxyMsgDefs.tla",
        "hop-by-hop 'removed' = no header of that name carrying one of the client's values reaches the backend; the client's own "
        "Transfer-Encoding/Trailer are consumed by net/http before easegress sees them and are not observable",
        "a ResponseAdaptor/RequestAdaptor `body:` replaces the content: the configured body is then what must arrive",
        "Content-Encoding values other than gzip, HTTP/2, HTTP/3, mirror pool, mTLS are outside the model",
        "memory cache: a repeated identical request may be answered from the cache or by a backend (the text does not say when a cache "
        "hits); whichever happens, the response must be the backend's (status, end-to-end headers, content) and well-framed",
        "a backend response that breaks off (declared Content-Length, connection closed early) has no complete content: the client must not "
        "receive a complete, decodable success (status < 400) - an error status or a visibly broken message are both admitted",
        "a server url without a port is exercised on port 80 of loopback addresses 127.a.b.c (IPv6 literal: the IPv4-mapped form "
        "[::ffff:127.a.b.c]); host names are exercised with a port only",
        "byte equality / gzip / sha256 are computed by the harness abstraction (trusted); TLC sees identities and lengths",
        "304 responses: Content-Type and Content-Length are not demanded (RFC 7232 4.1; Go's net/http server removes them from every 304)",
        "Content-Length of the bodiless answer to HEAD is an end-to-end header: it must arrive unchanged unless a ResponseAdaptor replaced the "
        "body or the Content-Encoding the client is told differs from the backend's (the proxy recoded the representation)",
        "a gzip body may consist of several members (RFC 1952 2.2); its content is the concatenation of the members' contents - that is what "
        "'once any Content-Encoding is undone' and an adaptor's decompress have to yield",
        "empty path segments ('//a', '/a//b', '///') and dot segments are part of the path: they must reach the backend unchanged",
        "the load-balancing policy only selects the server of an attempt; the Host rule is judged against the server the request arrived at",
        "exchanges in flight at the same time are each judged by the same per-exchange contract; backend responses that break off and retried "
        "requests are exercised sequentially only",
    ]
    if ctx.phase("mc"):
        r = ctx.tlc_mc("ProxyMsg", mc_cfg(ALL, ctx.quick) + INVS, label="repaired implementation layer refines the contract", timeout=1500)
        ctx.log("model checked: %d distinct states in %.0fs" % (r.distinct, r.wall))
        runs = [("ParScnQuick", 2)] if ctx.quick else [("ParScnFull", 2), ("ParScnQuick", 3)]
        for space, p in runs:
            r = ctx.tlc_mc("ProxyMsgPar", par_cfg(ALL + ["GZOWN"], space, p) + PAR_INVS, timeout=1500,
                           label="warm-up + %d exchanges in flight at the same time (%s): each faithful and answered as if alone" % (p, space))
            ctx.log("overlapping exchanges model checked: %d distinct states in %.0fs" % (r.distinct, r.wall))
        # the way in: requests with bodies of their own taken in and held in flight while later ones run to completion
        r = ctx.tlc_mc("ProxyMsgParReq", parreq_cfg(ALL + ["RBUFOWN"], 3 if ctx.quick else 4) + PARREQ_INVS, timeout=900,
                       label="warm-up + overlapping requests with bodies of their own: each backend receives its client's body")
        ctx.log("overlapping requests model checked: %d distinct states in %.0fs" % (r.distinct, r.wall))
    if ctx.phase("lead") and not ctx.quick:
        _leads(ctx)
    if ctx.phase("mbt"):
        _mbt(ctx)


def _leads(ctx):
    """Design-level leads: with one defect left in, TLC must find a contract violation (non-vacuity of
    the invariants and of the defect models).  Never a verdict about the code."""
    for f in ALL:
        r = ctx.tlc_mc("ProxyMsg", mc_cfg([x for x in ALL if x != f], True) + "INVARIANTS Faithful\n", expect_ok=False,
                       count=False, label="lead: model with defect %s left in" % f, timeout=900)
        if r.violated != "Faithful":
            ctx.inconclusive("the model with defect %s left in does not violate the contract (vacuous model?):\n%s" % (f, r.out[-1500:]))
    r = ctx.tlc_mc("ProxyMsgPar", par_cfg(ALL, "ParScnQuick", 2) + "INVARIANTS ParFaithful\n", expect_ok=False, count=False,
                   label="lead: one gzip compressor shared by the exchanges in flight", timeout=900)
    if r.violated != "ParFaithful":
        ctx.inconclusive("the model with a compressor shared between overlapping exchanges does not violate the contract (vacuous model?):\n%s" % r.out[-1500:])
    r = ctx.tlc_mc("ProxyMsgParReq", parreq_cfg(ALL, 3) + "INVARIANTS ParReqFaithful\n", expect_ok=False, count=False,
                   label="lead: bodies of unknown length read into a buffer shared through a free list", timeout=900)
    if r.violated != "ParReqFaithful":
        ctx.inconclusive("the model with a request buffer shared between overlapping exchanges does not violate the contract (vacuous model?):\n%s" % r.out[-1500:])
    ctx.log("leads: TLC finds a contract violation for each of %s when it is left in the model" % (ALL + ["GZOWN", "RBUFOWN"]))


def _pair(ctx, vecs, vector_of):
    """Pairs request-direction and response-direction scenarios into cases (seeded).  The response
    scenarios are drawn by stratum (plain / memory cache / backend breaks off / ...) so that every run
    contains enough sequences and enough broken backend responses.  vecs: the scenarios of the two spaces
    (generator mode "scn"); vector_of(list of drawn scenarios) -> {key: full vector} (generator mode "vec")."""
    rnd = pm.rng(ctx, 303)
    reqs = [v for v in vecs if v["dir"] == "req"]
    resps = [v for v in vecs if v["dir"] == "resp"]
    dims = [v for v in vecs if v["dir"] == "dims"]
    if not reqs or not resps or len(dims) != 1:
        ctx.inconclusive("vector generation produced no scenarios")
    ctypes, degrees = dims[0]["ctypes"], dims[0]["par"]
    reqs.sort(key=lambda v: pm.jdump(v["s"]))
    resps.sort(key=lambda v: pm.jdump(v["s"]))
    rnd.shuffle(reqs)
    rnd.shuffle(resps)
    strata = {"plain": [v for v in resps if not v["s"]["cache"] and not v["s"]["short"]],
              "cache": [v for v in resps if v["s"]["cache"]],
              "short": [v for v in resps if v["s"]["short"]],
              # gzip bodies made of several members
              "multi": [v for v in resps if v["s"]["bmem"] > 1],
              # requests held in flight (see below): a backend is asked every time, the request has a body
              "hold": [v for v in resps if v["parOk"] and not v["s"]["head"] and not v["s"]["cache"]],
              # run with several exchanges in flight at the same time: scenarios in which a body travels (what can overlap are bodies
              # under way), two thirds of them without a memory cache (a hit asks no backend)
              "par": [v for j, v in enumerate(v for v in resps if v["parOk"] and not v["s"]["head"] and v["s"]["bsize"] > 0)
                      if not v["s"]["cache"] or j % 3 == 0]}
    # request scenarios by stratum (assigned by the generator): "lb" the load-balancing policies x the pool's dimensions,
    # "target" the path / query classes, "main" the rest; each stratum is cycled through in (seeded) random order
    rstrata = {k: [v for v in reqs if v["stratum"] == k] for k in ("main", "lb", "target")}
    reqs = rstrata["main"]
    nofail = [v for v in reqs if v["s"]["fails"] == 0]
    if not all(strata.values()) or not all(rstrata.values()):
        ctx.inconclusive("vector generation produced no scenario for one of the strata %s %s" % (sorted(strata), sorted(rstrata)))
    n = 1200 if ctx.quick else 12000
    bodyless = [v for v in reqs if v["s"]["rbody"] == "none"]
    # requests HELD in flight: after a warm-up, 1-2 requests (bodies of their own) are taken in by the mux and parked in front of the
    # pipeline while 2-4 later ones with the same framing and length run to completion; buffered requests with a body, never retried
    holdreqs = [v for v in reqs if v["s"]["rbody"] != "none" and v["s"]["fails"] == 0 and v["s"]["reqMode"] == "buf"]
    if not holdreqs:
        ctx.inconclusive("vector generation produced no request scenario for the held schedule")
    taken_hold = 0
    drawn = []
    taken = {k: 0 for k in list(strata) + list(rstrata)}
    for i in range(n):
        st = ("plain", "cache", "plain", "short", "multi", "cache", "par", "plain", "cache", "plain", "short", "par")[i % 12]
        pv = strata[st][taken[st] % len(strata[st])]
        taken[st] += 1
        rst = ("main", "lb", "main", "target", "main", "main")[i % 6]
        rv = rstrata[rst][taken[rst] % len(rstrata[rst])]
        taken[rst] += 1
        if i % 24 == 2:
            st = "hold"
            pv = strata[st][taken[st] % len(strata[st])]
            taken[st] += 1
            rv = holdreqs[taken_hold % len(holdreqs)]
            taken_hold += 1
        if st == "par" and nofail:
            rv = nofail[i % len(nofail)]
        if pv["s"]["head"] and rv["s"]["rbody"] != "none":
            rv = bodyless[i % len(bodyless)]
        drawn.append((i, st, rv, pv))
    nhold = 0
    full = vector_of([x[2] for x in drawn] + [x[3] for x in drawn])
    cases = []
    for i, st, rv, pv in drawn:
        rv, pv = full[_key(rv)], full[_key(pv)]
        exps = []
        for pexp in pv["exps"]:       # one prediction per request of the sequence
            exp = dict(rv["exp"])     # times, pathrel, blabel, hostis from the request scenario
            exp.update({k: pexp[k] for k in ("status", "clabel")})
            exp["viol"] = sorted(set(rv["exp"]["viol"]) | set(pexp["viol"]))
            exps.append(exp)
        case = {"id": i + 1, "req": rv, "resp": pv, "exps": exps,
                # media type of the backend's response / of the client's request body: every class in turn
                "ctype": ctypes[(i + ctx.seed) % len(ctypes)], "rctype": ctypes[(i // len(ctypes) + ctx.seed) % len(ctypes)], "par": 0}
        # exchanges in flight at the same time (a warm-up, then `par` overlapping ones): the par stratum, and a share of the others
        # (bodiless and empty responses, more cache sequences)
        if st == "hold":
            case["hold"], case["later"] = 1 + nhold % 2, degrees[(nhold // 2 + ctx.seed) % len(degrees)]
            nhold += 1
        elif pv["parOk"] and rv["s"]["fails"] == 0 and (st == "par" or i % 24 in (2, 5)):
            case["par"] = degrees[(i // 12 + ctx.seed) % len(degrees)]
        cases.append(case)
    return cases


def _key(v):
    return v["dir"] + pm.jdump(v["s"])


def _sig(case, clause, k=1):
    rs, ps = case["req"]["s"], case["resp"]["s"]
    if clause in REQ_CLAUSES:
        sig = {"dir": "req", "clause": clause}
        if clause in ("reach", "path", "query"):
            sig.update(pathcls=case["req"]["pathcls"], querycls=case["req"]["querycls"])
        if clause in ("reach", "reqbody", "method"):
            sig.update(ra=rs["ra"], reqMode=rs["reqMode"], rbody=rs["rbody"], renc=rs["renc"], retried=rs["fails"] > 0,
                       members=rs["rmem"], lb=rs["lb"])
        if clause in ("reqe2e", "reqhop"):
            sig.update(hshape=rs["hshape"], ra=rs["ra"], rahdr=rs["rahdr"], retried=rs["fails"] > 0)
        if clause == "host":
            sig.update(addr=rs["addr"], keepHost=rs["keepHost"], lb=rs["lb"])
        return sig
    sig = {"dir": "resp", "clause": clause}
    sig.update({k: ps[k] for k in ("comp", "rsa", "rsahdr", "respMode", "ae", "head", "bframing", "benc", "cache", "short")})
    sig["empty"] = ps["bsize"] == 0
    sig["members"] = ps["bmem"]          # gzip members of the backend's body
    sig["notModified"] = ps["status"] == 304
    sig["overlapping"] = case["par"] > 0 and k > 1     # one of several exchanges in flight at the same time
    sig["finalLabel"] = case["exps"][min(k, len(case["exps"])) - 1]["clabel"]    # Content-Encoding the model predicts at the client
    sig.update(case["resp"]["feat"])
    return sig


def _mbt(ctx):
    vecs = ctx.tlc_dump("ProxyMsg_Gen", gen_cfg(ctx.quick, "scn"), label="scenarios", timeout=900, count=False)
    nvec = [0]

    def vector_of(drawn):
        """the full vectors (features, predicted outcomes) of the scenarios drawn, computed by TLC"""
        pick = {_key(v): {"dir": v["dir"], "s": v["s"]} for v in drawn}
        os.environ["VERIF_PICK"] = ctx.write_ndjson("c03_pick.ndjson", [pick[k] for k in sorted(pick)])
        full = {_key(v): v for v in ctx.tlc_dump("ProxyMsg_Gen", gen_cfg(ctx.quick, "vec"), label="vectors of the scenarios drawn",
                                                 timeout=900, count=False)}
        missing = [k for k in pick if k not in full]
        if missing:
            ctx.inconclusive("vector generation returned no vector for %d of %d scenarios, e.g. %s" % (len(missing), len(pick), missing[0]))
        nvec[0] = len(full)
        return full

    cases = _pair(ctx, vecs, vector_of)
    ctx.log("%d scenarios, %d of them drawn (vectors computed), %d cases" % (len(vecs), nvec[0], len(cases)))
    crashed = []

    def on_crash(crash, case):
        # the process serving the exchanges died of a panic raised in the code under test (outside a request handler, where net/http
        # does not recover it): the exchanges in flight get no response at all - no clause about what the client receives can hold
        crashed.append(crash)
        sig = {"dir": "resp", "clause": "crash", "frame": crash["frame"]}
        if case:
            sig.update(overlapping=case["par"] > 0, comp=case["resp"]["s"]["comp"], rsa=case["resp"]["s"]["rsa"], ra=case["req"]["s"]["ra"])
        ctx.violation(sig, "the process died while the exchanges of case %s were in flight (%s in %s at %s): the clients receive no response" % (
            case and case["id"], crash["message"], crash["frame"], crash["at"]), {"case": case, "crash": crash})

    events, summ = pm.run_harness(ctx, PKG, "TestVerifC03Run", cases, "c03", timeout=1500, on_crash=on_crash)
    ctx.log("%d exchanges recorded (ipv6 backend: %s, servers without a port: %s)" % (len(events), summ.get("ipv6"), summ.get("noport")))
    if crashed:
        ctx.log("the harness process died in the code under test: %s" % crashed[0]["message"])
    elif not summ.get("noport"):
        ctx.notes.append("port 80 could not be bound on a loopback address: server urls without a port were run with a port")
    by_id = {c["id"]: c for c in cases}
    ev_by_id = {e["id"]: e for e in events}
    # vacuity: the new dimensions must really have been exercised
    hits = sum(1 for e in events if e["cfg"]["mayHit"] and not e["bs"])
    broken = sum(1 for e in events if e["br"]["short"])
    if (hits < 10 or broken < 10) and not crashed:
        ctx.inconclusive("only %d memory-cache hits and %d broken backend responses were exercised" % (hits, broken))
    ctx.log("%d exchanges answered from the memory cache, %d backend responses that break off" % (hits, broken))
    # ... bodies of several gzip members through a decompressing adaptor, every load-balancing policy with a host-name server, targets
    # that begin with an empty segment
    multi = sum(1 for e in events if (by_id[e["case"]]["resp"]["s"]["bmem"] > 1 and by_id[e["case"]]["resp"]["s"]["rsa"] == "decompress")
                or (by_id[e["case"]]["req"]["s"]["rmem"] > 1 and by_id[e["case"]]["req"]["s"]["ra"] == "decompress"))
    lbname = {by_id[e["case"]]["req"]["s"]["lb"] for e in events if by_id[e["case"]]["req"]["s"]["addr"] == "name" and e["bs"]}
    lead = sum(1 for e in events if (e["c"].get("targetText") or "").startswith("//"))
    if (multi < 5 or len(lbname) < 7 or lead < 5) and not crashed:
        ctx.inconclusive("only %d multi-member gzip bodies through a decompressing adaptor, load-balancing policies %s with host-name servers, "
                         "%d targets that begin with an empty segment were exercised" % (multi, sorted(lbname), lead))
    ctx.log("%d multi-member gzip bodies through a decompressing adaptor; policies with host-name servers: %s; %d targets beginning with '//'" % (
        multi, sorted(lbname), lead))
    # ... exchanges that really overlapped (every backend answer under way before any was completed) and whose body the proxy compressed
    over = [e for e in events if e.get("overlap")]
    overgz = [e for e in over if e["cr"]["body"]["label"] == "gzip" and e["br"]["body"]["label"] != "gzip"]
    seen_ct = {by_id[e["case"]]["ctype"] for e in events}
    if (len(over) < 40 or len(overgz) < 10 or len(seen_ct) < 5) and not crashed:
        ctx.inconclusive("only %d overlapping exchanges (%d of them compressed by the proxy) and %d media types were exercised" % (
            len(over), len(overgz), len(seen_ct)))
    ctx.log("%d exchanges in flight at the same time as others (%d compressed by the proxy); media types %s" % (len(over), len(overgz), sorted(seen_ct)))
    # ... requests held in flight whose body of unknown length (chunked) was buffered by the mux, and the declared-length control
    held = {fr: sum(1 for e in events if e.get("sched") == "held" and by_id[e["case"]]["req"]["s"]["rbody"] == fr and e["bs"]) for fr in ("chunked", "cl")}
    if min(held.values()) < 5 and not crashed:
        ctx.inconclusive("only %s requests were held in flight while later ones completed" % held)
    ctx.log("requests held in flight while later ones ran to completion: %s" % pm.jdump(held))
    verdicts = pm.evaluate(ctx, "ProxyMsg_Trace", events, "c03_trace")
    ctx.evals(len(events))
    ctx.traces(len(events))
    for e in events:
        c = by_id[e["case"]]
        ctx.nontrivial({"r": {k: v for k, v in c["req"]["s"].items() if k not in ("path", "query")}, "pc": c["req"]["pathcls"], "p": c["resp"]["s"],
                        "hit": e["cfg"]["mayHit"] and not e["bs"], "ct": c["ctype"], "par": c["par"] if e["k"] > 1 else 0, "sched": e.get("sched") or ""})
    for e in events[:3]:
        ctx.sample({"kind": "exchange", "client_target": e["c"].get("targetText"),
                    "backend_targets": [b.get("targetText") for b in e["bs"]],
                    "cfg": e["cfg"], "client_status": e["cr"]["status"], "framing": e["cr"]["framing"], "declared": e["cr"]["declared"],
                    "got": e["cr"]["got"], "scenario": {"req": by_id[e["case"]]["req"]["s"], "resp": by_id[e["case"]]["resp"]["s"]}})
    drift = 0
    for eid, (viol, dr) in sorted(verdicts.items()):
        e = ev_by_id[eid]
        c = by_id[e["case"]]
        if not viol:
            drift += 1
            if drift <= 6:
                ctx.notes.append("model drift (no contract clause violated): case %d request %d fields %s scenario %s" % (c["id"], e["k"], dr, pm.jdump(
                    {"req": c["req"]["s"], "resp": c["resp"]["s"]})))
            continue
        for clause in _primary(viol):
            what = _describe(clause, c, e)
            sig = _sig(c, clause, e["k"])
            if clause in REQ_CLAUSES and c.get("hold"):
                # "held": taken in by the mux, then parked while later requests ran to completion; "while-held": one of those later ones
                sig["schedule"] = e.get("sched") or "alone"
                what = {"held": "request taken in by the mux and held in front of the pipeline while %d later requests with bodies of their own ran to "
                                "completion: " % c["later"],
                        "while-held": "request that ran to completion while %d earlier ones were held in flight: " % c["hold"]}.get(e.get("sched"), "") + what
            if clause == "truncated":      # what the client was given: nothing at all, or a body with / without a gzip label
                sig["clientBody"] = "empty" if e["cr"]["got"] == 0 else (e["cr"]["body"]["label"] or "plain")
            if c["resp"]["s"]["cache"]:
                sig["repeat"] = e["k"] > 1
            ctx.violation(sig, what, {"case": c, "exchange": _trim(e), "violated": viol})
    if drift:
        ctx.notes.append("%d exchanges satisfied the contract but differed from the implementation-shaped layer's prediction" % drift)
        ctx.log("model drift on %d exchanges (not a verdict)" % drift)


def _primary(viol):
    """one signature per direction: the highest-priority violated clause of the request side and of the response side"""
    out = []
    rq = [c for c in PRIORITY if c in viol and c in REQ_CLAUSES]
    rp = [c for c in PRIORITY if c in viol and c not in REQ_CLAUSES]
    if rq:
        out.append(rq[0])
    if rp and "reach" not in viol:
        out.append(rp[0])
    elif rp and "framed" in viol:
        out.append("framed")
    return out


def _describe(clause, c, e):
    cr, bs = e["cr"], e["bs"]
    b = bs[-1] if bs else {"hdr": [], "host": None, "method": None, "body": {"len": None, "label": None, "decok": None}}
    if clause == "reach":
        return "client request %s %s was not delivered to a backend (backends saw %d requests, at most %d attempts configured; client got status %s)" % (
            e["c"]["method"], e["c"].get("targetText"), len(bs), e["cfg"]["maxAttempts"], cr["status"])
    if clause in ("path", "query"):
        return "backend received request-target %r for the client's %r (%s differs)" % (
            [x.get("targetText") for x in bs], e["c"].get("targetText"), clause)
    if clause == "status":
        pre = "one of %d requests in flight at the same time on one proxy instance (after a warm-up exchange): " % e["par"] if e.get("par") and e["k"] > 1 else ""
        return pre + "client received status %s for the backend's %s (%s, Content-Length framing: %s, compression minLength %s, ResponseAdaptor %s)" % (
            cr["status"], e["br"]["status"], e["c"]["method"], c["resp"]["s"]["bframing"], e["cfg"].get("compressionMin"), e["cfg"]["rsa"])
    if clause == "resplen":
        return ("the bodiless response (status %s to %s) lost the backend's Content-Length: backend declared %s, client received %s (Content-Encoding "
                "%r at both ends, no ResponseAdaptor body)" % (cr["status"], e["c"]["method"], e["br"]["declared"], cr["declared"], cr["body"]["label"]))
    seq = ""
    if e.get("par") and e["k"] > 1:
        seq = "one of %d requests in flight at the same time on one proxy instance (after a warm-up exchange): " % e["par"]
    if e["cfg"].get("memoryCache"):
        seq += "request %d of a sequence of identical requests to a pool with a memory cache (%s): " % (
            e["k"], "answered without a backend" if not bs else "answered by the backend")
    if clause == "truncated":
        return ("the backend's response broke off (Content-Length %s declared, %s body bytes sent, then the connection was closed) and the client "
                "received it as a complete success: status %s, framing %s, %s bytes, Content-Encoding %r decodable=%s (compression minLength %s, "
                "ResponseAdaptor %s, %s)" % (e["br"]["body"]["len"], e["br"].get("sent"), cr["status"], cr["framing"], cr["got"], cr["body"]["label"],
                                             cr["body"]["decok"], e["cfg"].get("compressionMin"), e["cfg"]["rsa"], c["resp"]["s"]["respMode"]))
    if clause == "framed":
        return seq + "response not well-framed: framing %s declared %s bytes, %s received, complete=%s, after=%s" % (
            cr["framing"], cr["declared"], cr["got"], cr["complete"], cr["after"])
    if clause == "content":
        return seq + "response content differs from the backend's (label %r, decodable=%s, %s bytes; backend %s bytes label %r)" % (
            cr["body"]["label"], cr["body"]["decok"], cr["got"], e["br"]["body"]["len"], e["br"]["body"]["label"])
    names = lambda hs: sorted(h["n"] for h in hs)
    if clause == "reqhop":
        return "a hop-by-hop header of the client reached the backend: client Connection tokens %s, client header names %s, backend header names %s" % (
            e["c"]["conn"], names(e["c"]["hdr"]), names(b["hdr"]))
    if clause == "reqe2e":
        return "an end-to-end header (or one of its values) of the client did not reach the backend: client %s, backend %s" % (
            pm.jdump(e["c"]["hdr"])[:600], pm.jdump(b["hdr"])[:600])
    if clause == "respe2e":
        return "an end-to-end header (or one of its values) of the backend's response did not reach the client: backend %s, client %s" % (
            pm.jdump(e["br"]["hdr"])[:600], pm.jdump(cr["hdr"])[:600])
    if clause == "host":
        return "backends received Host %r; client sent %r, server urls %s, keepHost=%s" % (
            [x["host"] for x in bs], e["c"]["host"], e["cfg"]["urls"], e["cfg"]["keepHost"])
    if clause == "method":
        return "backends received method %r for the client's %r" % ([x["method"] for x in bs], e["c"]["method"])
    if clause == "reqbody":
        return ("request body changed on the way: client sent %s bytes (label %r), the backends received (attempt by attempt) %s bytes "
                "(labels %r), RequestAdaptor %s" % (e["c"]["body"]["len"], e["c"]["body"]["label"], [x["body"]["len"] for x in bs],
                                                     [x["body"]["label"] for x in bs], e["cfg"]["ra"]))
    return "clause %s of the contract violated" % clause


def _trim(e):
    return e

"""C03 - Proxy forwards requests/responses faithfully, hop-by-hop stripped, well-framed (DESIGN 5/C03).

phases (VERIF_PHASES): mc    exhaustive model checking of the repaired implementation-shaped layer against the contract
                       lead  (thorough) the same with one defect left in: TLC must find the contract violation
                       mbt   scenarios enumerated by TLC, concretised and run on the real code over sockets,
                             the recorded exchanges evaluated by TLC against the contract (ProxyMsg_Trace)
"""
from props import _proxymsg as pm

PKG = "pkg/object/httpserver"
INVS = ("INVARIANTS Faithful Reaches PathUnchanged BodyUnchanged HopStripped HostRule StatusKept ContentKept WellFramed NoTruncatedSuccess "
        "HitLikeMiss Composed\n")

REQ_CLAUSES = ("reach", "method", "path", "query", "reqbody", "reqe2e", "reqhop", "host")
PRIORITY = ("reach", "status", "path", "query", "method", "host", "reqbody", "reqhop", "reqe2e", "truncated", "framed", "content", "respe2e")


def mc_cfg(fixed, quick):
    sp = ("ReqScnQuick", "RespScnQuick") if quick else ("ReqScn", "RespScn")
    return "SPECIFICATION Spec\nCONSTANTS\n  Fixed = {%s}\n  ReqSpace <- %s\n  RespSpace <- %s\n" % (
        ", ".join('"%s"' % f for f in fixed), sp[0], sp[1])


def gen_cfg(quick):
    sp = ("ReqScnQuick", "RespScnGenQuick") if quick else ("ReqScn", "RespScn")
    return "SPECIFICATION Spec\nCONSTANTS\n  ReqSpace <- %s\n  RespSpace <- %s\n" % sp


ALL = ["F5", "F6", "F7", "HEAD", "METRIC", "ABORT", "CLONE"]


def run(ctx):
    ctx.cov["rule"] = ("scenario = one element of the request-direction or response-direction toggle product of specs/ProxyMsgDefs.tla "
                       "(enumerated by TLC); evaluation = one real exchange (raw client -> mux.ServeHTTP -> Pipeline[RequestAdaptor? Proxy "
                       "ResponseAdaptor?] -> raw TCP backend and back) whose recording TLC evaluated against the contract; "
                       "a response scenario with a memory cache is a sequence of 3 identical requests to one proxy instance, each a recorded exchange; "
                       "trace = the same recorded exchange; non-trivial = distinct (request scenario class, response scenario, cache hit) "
                       "triples that exercise a non-default toggle")
    ctx.assumptions += [
        "path 'unchanged' = identical after percent-decoding (raw query: byte-identical); see ProxyMsgDefs.tla",
        "hop-by-hop 'removed' = no header of that name carrying one of the client's values reaches the backend; the client's own "
        "Transfer-Encoding/Trailer are consumed by net/http before easegress sees them and are not observable",
        "a ResponseAdaptor/RequestAdaptor `body:` replaces the content: the configured body is then what must arrive",
        "Content-Encoding values other than gzip, HTTP/2, HTTP/3, mirror pool, mTLS are outside the model",
        "memory cache: a repeated identical request may be answered from the cache or by a backend (the text does not say when a cache "
        "hits); whichever happens, the response must be the backend's (status, end-to-end headers, content) and well-framed",
        "a backend response that breaks off (declared Content-Length, connection closed early) has no complete content: the client must not "
        "receive a complete, decodable success (status < 400) - an error status or a visibly broken message are both admitted",
        "a server url without a port is exercised on port 80 of loopback addresses 127.a.b.c (IPv6 literal: the IPv4-mapped form "
        "[::ffff:127.a.b.c]); host names are exercised with a port only",
        "byte equality / gzip / sha256 are computed by the harness abstraction (trusted); TLC sees identities and lengths",
    ]
    if ctx.phase("mc"):
        r = ctx.tlc_mc("ProxyMsg", mc_cfg(ALL, ctx.quick) + INVS, label="repaired implementation layer refines the contract", timeout=1500)
        ctx.log("model checked: %d distinct states in %.0fs" % (r.distinct, r.wall))
    if ctx.phase("lead") and not ctx.quick:
        _leads(ctx)
    if ctx.phase("mbt"):
        _mbt(ctx)


def _leads(ctx):
    """Design-level leads: with one defect left in, TLC must find a contract violation (non-vacuity of
    the invariants and of the defect models).  Never a verdict about the code."""
    for f in ALL:
        r = ctx.tlc_mc("ProxyMsg", mc_cfg([x for x in ALL if x != f], True) + "INVARIANTS Faithful\n", expect_ok=False,
                       count=False, label="lead: model with defect %s left in" % f, timeout=900)
        if r.violated != "Faithful":
            ctx.inconclusive("the model with defect %s left in does not violate the contract (vacuous model?):\n%s" % (f, r.out[-1500:]))
    ctx.log("leads: TLC finds a contract violation for each of %s when it is left in the model" % ALL)


def _pair(ctx, vecs):
    """Pairs request-direction and response-direction scenarios into cases (seeded).  The response
    scenarios are drawn by stratum (plain / memory cache / backend breaks off) so that every run
    contains enough sequences and enough broken backend responses."""
    rnd = pm.rng(ctx, 303)
    reqs = [v for v in vecs if v["dir"] == "req"]
    resps = [v for v in vecs if v["dir"] == "resp"]
    if not reqs or not resps:
        ctx.inconclusive("vector generation produced no scenarios")
    reqs.sort(key=lambda v: pm.jdump(v["s"]))
    resps.sort(key=lambda v: pm.jdump(v["s"]))
    rnd.shuffle(reqs)
    rnd.shuffle(resps)
    strata = {"plain": [v for v in resps if not v["s"]["cache"] and not v["s"]["short"]],
              "cache": [v for v in resps if v["s"]["cache"]],
              "short": [v for v in resps if v["s"]["short"]]}
    if not all(strata.values()):
        ctx.inconclusive("vector generation produced no scenario for one of the strata %s" % sorted(strata))
    n = 1200 if ctx.quick else 12000
    bodyless = [v for v in reqs if v["s"]["rbody"] == "none"]
    cases = []
    taken = {k: 0 for k in strata}
    for i in range(n):
        st = ("plain", "cache", "plain", "short", "plain", "cache", "plain", "cache", "plain", "short")[i % 10]
        pv = strata[st][taken[st] % len(strata[st])]
        taken[st] += 1
        rv = reqs[i % len(reqs)]
        if pv["s"]["head"] and rv["s"]["rbody"] != "none":
            rv = bodyless[i % len(bodyless)]
        exps = []
        for pexp in pv["exps"]:       # one prediction per request of the sequence
            exp = dict(rv["exp"])     # times, pathrel, blabel, hostis from the request scenario
            exp.update({k: pexp[k] for k in ("status", "clabel")})
            exp["viol"] = sorted(set(rv["exp"]["viol"]) | set(pexp["viol"]))
            exps.append(exp)
        cases.append({"id": i + 1, "req": rv, "resp": pv, "exps": exps})
    return cases


def _sig(case, clause, k=1):
    rs, ps = case["req"]["s"], case["resp"]["s"]
    if clause in REQ_CLAUSES:
        sig = {"dir": "req", "clause": clause}
        if clause in ("reach", "path", "query"):
            sig.update(pathcls=case["req"]["pathcls"], querycls=case["req"]["querycls"])
        if clause in ("reach", "reqbody", "method"):
            sig.update(ra=rs["ra"], reqMode=rs["reqMode"], rbody=rs["rbody"], renc=rs["renc"], retried=rs["fails"] > 0)
        if clause in ("reqe2e", "reqhop"):
            sig.update(hshape=rs["hshape"], ra=rs["ra"], rahdr=rs["rahdr"], retried=rs["fails"] > 0)
        if clause == "host":
            sig.update(addr=rs["addr"], keepHost=rs["keepHost"])
        return sig
    sig = {"dir": "resp", "clause": clause}
    sig.update({k: ps[k] for k in ("comp", "rsa", "rsahdr", "respMode", "ae", "head", "bframing", "benc", "cache", "short")})
    sig["empty"] = ps["bsize"] == 0
    sig["finalLabel"] = case["exps"][min(k, len(case["exps"])) - 1]["clabel"]    # Content-Encoding the model predicts at the client
    sig.update(case["resp"]["feat"])
    return sig


def _mbt(ctx):
    vecs = ctx.tlc_dump("ProxyMsg_Gen", gen_cfg(ctx.quick), label="scenario vectors", timeout=900, count=False)
    cases = _pair(ctx, vecs)
    ctx.log("%d scenario vectors, %d cases" % (len(vecs), len(cases)))
    events, summ = pm.run_harness(ctx, PKG, "TestVerifC03Run", cases, "c03", timeout=1500)
    ctx.log("%d exchanges recorded (ipv6 backend: %s, servers without a port: %s)" % (len(events), summ.get("ipv6"), summ.get("noport")))
    if not summ.get("noport"):
        ctx.notes.append("port 80 could not be bound on a loopback address: server urls without a port were run with a port")
    by_id = {c["id"]: c for c in cases}
    ev_by_id = {e["id"]: e for e in events}
    # vacuity: the new dimensions must really have been exercised
    hits = sum(1 for e in events if e["cfg"]["mayHit"] and not e["bs"])
    broken = sum(1 for e in events if e["br"]["short"])
    if hits < 10 or broken < 10:
        ctx.inconclusive("only %d memory-cache hits and %d broken backend responses were exercised" % (hits, broken))
    ctx.log("%d exchanges answered from the memory cache, %d backend responses that break off" % (hits, broken))
    verdicts = pm.evaluate(ctx, "ProxyMsg_Trace", events, "c03_trace")
    ctx.evals(len(events))
    ctx.traces(len(events))
    for e in events:
        c = by_id[e["case"]]
        ctx.nontrivial({"r": {k: v for k, v in c["req"]["s"].items() if k not in ("path", "query")}, "pc": c["req"]["pathcls"], "p": c["resp"]["s"],
                        "hit": e["cfg"]["mayHit"] and not e["bs"]})
    for e in events[:3]:
        ctx.sample({"kind": "exchange", "client_target": e["c"].get("targetText"),
                    "backend_targets": [b.get("targetText") for b in e["bs"]],
                    "cfg": e["cfg"], "client_status": e["cr"]["status"], "framing": e["cr"]["framing"], "declared": e["cr"]["declared"],
                    "got": e["cr"]["got"], "scenario": {"req": by_id[e["case"]]["req"]["s"], "resp": by_id[e["case"]]["resp"]["s"]}})
    drift = 0
    for eid, (viol, dr) in sorted(verdicts.items()):
        e = ev_by_id[eid]
        c = by_id[e["case"]]
        if not viol:
            drift += 1
            if drift <= 6:
                ctx.notes.append("model drift (no contract clause violated): case %d request %d fields %s scenario %s" % (c["id"], e["k"], dr, pm.jdump(
                    {"req": c["req"]["s"], "resp": c["resp"]["s"]})))
            continue
        for clause in _primary(viol):
            what = _describe(clause, c, e)
            sig = _sig(c, clause, e["k"])
            if clause == "truncated":      # what the client was given: nothing at all, or a body with / without a gzip label
                sig["clientBody"] = "empty" if e["cr"]["got"] == 0 else (e["cr"]["body"]["label"] or "plain")
            if c["resp"]["s"]["cache"]:
                sig["repeat"] = e["k"] > 1
            ctx.violation(sig, what, {"case": c, "exchange": _trim(e), "violated": viol})
    if drift:
        ctx.notes.append("%d exchanges satisfied the contract but differed from the implementation-shaped layer's prediction" % drift)
        ctx.log("model drift on %d exchanges (not a verdict)" % drift)


def _primary(viol):
    """one signature per direction: the highest-priority violated clause of the request side and of the response side"""
    out = []
    rq = [c for c in PRIORITY if c in viol and c in REQ_CLAUSES]
    rp = [c for c in PRIORITY if c in viol and c not in REQ_CLAUSES]
    if rq:
        out.append(rq[0])
    if rp and "reach" not in viol:
        out.append(rp[0])
    elif rp and "framed" in viol:
        out.append("framed")
    return out


def _describe(clause, c, e):
    cr, bs = e["cr"], e["bs"]
    b = bs[-1] if bs else {"hdr": [], "host": None, "method": None, "body": {"len": None, "label": None, "decok": None}}
    if clause == "reach":
        return "client request %s %s was not delivered to a backend (backends saw %d requests, at most %d attempts configured; client got status %s)" % (
            e["c"]["method"], e["c"].get("targetText"), len(bs), e["cfg"]["maxAttempts"], cr["status"])
    if clause in ("path", "query"):
        return "backend received request-target %r for the client's %r (%s differs)" % (
            [x.get("targetText") for x in bs], e["c"].get("targetText"), clause)
    if clause == "status":
        return "client received status %s for the backend's %s (%s, Content-Length framing: %s, compression minLength %s, ResponseAdaptor %s)" % (
            cr["status"], e["br"]["status"], e["c"]["method"], c["resp"]["s"]["bframing"], e["cfg"].get("compressionMin"), e["cfg"]["rsa"])
    seq = ""
    if e["cfg"].get("memoryCache"):
        seq = "request %d of a sequence of identical requests to a pool with a memory cache (%s): " % (
            e["k"], "answered without a backend" if not bs else "answered by the backend")
    if clause == "truncated":
        return ("the backend's response broke off (Content-Length %s declared, %s body bytes sent, then the connection was closed) and the client "
                "received it as a complete success: status %s, framing %s, %s bytes, Content-Encoding %r decodable=%s (compression minLength %s, "
                "ResponseAdaptor %s, %s)" % (e["br"]["body"]["len"], e["br"].get("sent"), cr["status"], cr["framing"], cr["got"], cr["body"]["label"],
                                             cr["body"]["decok"], e["cfg"].get("compressionMin"), e["cfg"]["rsa"], c["resp"]["s"]["respMode"]))
    if clause == "framed":
        return seq + "response not well-framed: framing %s declared %s bytes, %s received, complete=%s, after=%s" % (
            cr["framing"], cr["declared"], cr["got"], cr["complete"], cr["after"])
    if clause == "content":
        return seq + "response content differs from the backend's (label %r, decodable=%s, %s bytes; backend %s bytes label %r)" % (
            cr["body"]["label"], cr["body"]["decok"], cr["got"], e["br"]["body"]["len"], e["br"]["body"]["label"])
    names = lambda hs: sorted(h["n"] for h in hs)
    if clause == "reqhop":
        return "a hop-by-hop header of the client reached the backend: client Connection tokens %s, client header names %s, backend header names %s" % (
            e["c"]["conn"], names(e["c"]["hdr"]), names(b["hdr"]))
    if clause == "reqe2e":
        return "an end-to-end header (or one of its values) of the client did not reach the backend: client %s, backend %s" % (
            pm.jdump(e["c"]["hdr"])[:600], pm.jdump(b["hdr"])[:600])
    if clause == "respe2e":
        return "an end-to-end header (or one of its values) of the backend's response did not reach the client: backend %s, client %s" % (
            pm.jdump(e["br"]["hdr"])[:600], pm.jdump(cr["hdr"])[:600])
    if clause == "host":
        return "backends received Host %r; client sent %r, server urls %s, keepHost=%s" % (
            [x["host"] for x in bs], e["c"]["host"], e["cfg"]["urls"], e["cfg"]["keepHost"])
    if clause == "method":
        return "backends received method %r for the client's %r" % ([x["method"] for x in bs], e["c"]["method"])
    if clause == "reqbody":
        return ("request body changed on the way: client sent %s bytes (label %r), the backends received (attempt by attempt) %s bytes "
                "(labels %r), RequestAdaptor %s" % (e["c"]["body"]["len"], e["c"]["body"]["label"], [x["body"]["len"] for x in bs],
                                                     [x["body"]["label"] for x in bs], e["cfg"]["ra"]))
    return "clause %s of the contract violated" % clause


def _trim(e):
    return e

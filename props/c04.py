"""C04 - load balancers pick only live pool members, fairly or stickily, never failing (DESIGN 5/C04).

Oracle: specs/LoadBalance.tla (contract).  specs/LoadBalanceImpl.tla is the implementation-shaped
layer whose refinement of the contract TLC checks.  The real code is bound by
  * MBT: TLC -simulate behaviours of the contract (configuration, discovery reports, keyed requests)
         replayed through the real Proxy filter with the transport stubbed; the recorded observations
         are validated by TLC against the contract (LoadBalance_Trace);
  * TV : seeded random pools / request sequences, same validation;
  * CTV: concurrent selectors + concurrent list replacement, inv/ret events, linearisation search by TLC
         (LoadBalance_CTrace); -race in the thorough tier.
"""
import re

from lib.vlib import jdump

PKG = "pkg/filters/proxy"

INVS = "INVARIANTS TypeOK RRFair Member NilIffEmpty NoZeroWeight\n"
PROPS = INVS + "PROPERTIES Sticky StickyPick\n"


def contract_cfg(configs, insts, procs, keys, maxsel, maxgen):
    return ("SPECIFICATION GSpec\nCONSTANTS\n  Configs <- %s\n  InstSets <- %s\n  Procs = {%s}\n  Keys = {%s}\n"
            "  MaxSel = %d\n  MaxGen = %d\nVIEW view\n" % (configs, insts, _strs(procs), _strs(keys), maxsel, maxgen)
            ) + PROPS + "PROPERTIES ReplaceRule\n"


def impl_cfg(configs, insts, procs, keys, maxsel, maxgen, atomic=True, fixed=True, hrange=2):
    return ("SPECIFICATION ISpec\nCONSTANTS\n  Configs <- %s\n  InstSets <- %s\n  Procs = {%s}\n  Keys = {%s}\n"
            "  MaxSel = %d\n  MaxGen = %d\n  AtomicRR = %s\n  FixedWR = %s\n  HashRange = %d\nVIEW iview\n"
            % (configs, insts, _strs(procs), _strs(keys), maxsel, maxgen, str(atomic).upper(), str(fixed).upper(), hrange)
            ) + INVS.strip() + " NoPanic ObjIsList\nPROPERTIES Refines Sticky StickyPick\n"


def _strs(xs):
    return ", ".join('"%s"' % x for x in xs)


SIM_CFG = ("SPECIFICATION GSeqSpec\nCONSTANTS\n  Configs <- GenConfigs\n  InstSets <- GenInstSets\n  Procs = {\"g0\"}\n"
           "  Keys = {\"k0\", \"k1\", \"k2\"}\n  MaxSel = 14\n  MaxGen = 4\n")

TRACE_CFG = ("SPECIFICATION TSpec\nCONSTANTS\n  Configs = {}\n  InstSets = {}\n"
             "  Procs = {\"g0\", \"g1\", \"g2\", \"g3\", \"g4\", \"g5\", \"g6\", \"g7\"}\n  Keys = {\"k0\", \"k1\", \"k2\", \"k3\"}\n"
             "  MaxSel = 100000000\n  MaxGen = 100000000\nCONSTRAINT HWM\nPOSTCONDITION TraceAccepted\n") + PROPS


def run(ctx):
    ctx.cov["rule"] = ("behaviours = TLC -simulate runs of the LoadBalance contract (pool configuration, discovery reports, keyed "
                       "requests) replayed through the real Proxy filter with a recording transport, observations validated by TLC; "
                       "traces = seeded random sequential request sequences and concurrent selector/watcher runs of the real pool "
                       "validated by TLC against the contract (linearisation search for the concurrent ones); non-trivial = distinct "
                       "behaviours/traces with at least two servers in some list and at least one of: a replacement, a repeated key, "
                       "a positive/zero weight mix, more selections than servers")
    ctx.assumptions += ["service discovery is played by the harness calling ServerPool.useService, as the pool's watcher goroutine does",
                        "discovered weights are non-negative",
                        "a hash policy's stickiness is required within one generation of the list (a discovery report starts a new one)"]
    # the exhaustive TLC runs (JVMs) go on in the background while the real code is exercised
    from concurrent.futures import ThreadPoolExecutor
    with ThreadPoolExecutor(max_workers=1) as ex:
        mc = ex.submit(_mc, ctx) if ctx.phase("mc") else None
        try:
            if ctx.phase("mbt"):
                _mbt(ctx)
            if ctx.phase("tv"):
                _tv(ctx)
            if ctx.phase("ctv"):
                _ctv(ctx)
            if ctx.phase("stress"):
                _stress(ctx)
        finally:
            if mc is not None:
                mc.result()


def _mc(ctx):
    """exhaustive runs, as parallel JVMs (each is small; the wall time is that of the largest)"""
    from concurrent.futures import ThreadPoolExecutor
    q = ctx.quick
    g2, g3 = ["g0", "g1"], ["g0", "g1", "g2"]
    w = 4 if q else 8
    jobs = {}
    with ThreadPoolExecutor(max_workers=6) as ex:
        # contract: the property's clauses are theorems of it, for all interleavings of callers and replacements
        jobs["contract"] = ex.submit(
            ctx.tlc_mc, "LoadBalance_Gen", contract_cfg("McConfigs", "McInstSets", g2, ["k0", "k1"], 3 if q else 5, 2),
            label="contract, 2 callers, %d selections" % (3 if q else 5), timeout=1500, workers=w)
        # implementation-shaped layer refines the contract
        runs = [("RRConfigs", "McInstSets", g2, ["k0"], 4 if q else 5, 2 if q else 3, 2),
                ("WRConfigs", "McInstSets", g2, ["k0"], 3 if q else 4, 2, 2),
                ("HashConfigs", "McInstSets", g2, ["k0", "k1"], 3 if q else 4, 2, 2 if q else 3)]
        if not q:
            runs.append(("RRConfigs", "McInstSets", g3, ["k0"], 4, 2, 2))
        for (cf, ins, pr, ks, ms, mg, hr) in runs:
            jobs[cf + str(len(pr))] = ex.submit(ctx.tlc_mc, "LoadBalanceImpl_MC", impl_cfg(cf, ins, pr, ks, ms, mg, hrange=hr),
                                 label="implementation layer refines contract, %s" % cf, timeout=1500, workers=w)
        # negative controls: the model is able to find what the property forbids
        jobs["neg-rr"] = ex.submit(ctx.tlc_mc, "LoadBalanceImpl_MC", impl_cfg("RRConfigs", "McInstSets", g2, ["k0"], 3, 2, atomic=False),
                                   label="negative control: non-atomic counter", expect_ok=False, count=False, workers=2)
        jobs["pinned-wr"] = ex.submit(ctx.tlc_mc, "LoadBalanceImpl_MC", impl_cfg("WRConfigs", "McInstSets", g2, ["k0"], 3, 2, fixed=False),
                                      label="negative control: weightedRandom without the zero-total-weight guard", expect_ok=False,
                                      count=False, workers=2)
        res = {k: f.result() for k, f in jobs.items()}
    for k in sorted(res):
        if res[k].ok:
            ctx.log("%s: %d distinct states, %.0fs" % (k, res[k].distinct, res[k].wall))
    r = res["neg-rr"]
    if r.violated not in ("RRFair", "Refines"):
        ctx.inconclusive("negative control (non-atomic round robin counter) was not rejected by TLC: %s" % r.error)
    r = res["pinned-wr"]
    if r.violated not in ("NoPanic", "Refines"):
        ctx.inconclusive("negative control (weightedRandom without the zero-total-weight guard) was not rejected by TLC: %s" % r.error)


# ------------------------------------------------------------------------------------------
def _segments(ev):
    """[(start_index, events)] split at reset"""
    segs, cur, st = [], [], 0
    for i, e in enumerate(ev):
        if e.get("ev") == "reset":
            if cur:
                segs.append((st, cur))
            cur, st = [], i
        cur.append(e)
    if cur:
        segs.append((st, cur))
    return segs


def _lists(seg, upto):
    """the successive lists of a segment as the contract computes them (only used to describe a violation)"""
    cfg = seg[0]["cfg"]
    cur = list(cfg["static"])
    for e in seg[1:upto + 1]:
        if e.get("ev") in ("rep", "rinv"):
            tagged = [{"id": x["id"], "w": x["w"]} for x in e["insts"] if x["t"]]
            cur = tagged if tagged else list(cfg["static"])
    return cur


def _conc_lists(seg, idx):
    """concurrent trace: every list that may have been current during the call invoked at seg[idx]"""
    p = seg[idx].get("p")
    end = idx
    for j in range(idx + 1, len(seg)):
        if seg[j].get("ev") == "ret" and seg[j].get("p") == p:
            end = j
            break
    cfg = seg[0]["cfg"]
    lists = [list(cfg["static"])]
    done_before_inv = 0
    for j, e in enumerate(seg[1:end + 1], start=1):
        if e.get("ev") == "rinv":
            tagged = [{"id": x["id"], "w": x["w"]} for x in e["insts"] if x["t"]]
            lists.append(tagged if tagged else list(cfg["static"]))
        if e.get("ev") == "rret" and j < idx:
            done_before_inv += 1
    return lists[done_before_inv:]


def _sig(seg, idx, kind):
    """signature of a rejected observation: policy, what was observed, shape of the current list"""
    e = seg[idx]
    cur = _lists(seg, idx)
    if e.get("ev") == "batch":
        ids = {x["id"] for x in cur}
        got = {x["id"] for x in e["picks"]}
        obs = "panic" if "panic" in got else ("non-member" if got - ids - {"nil"} else "tally")
        totw = sum(x["w"] for x in cur)
        return {"kind": kind, "policy": seg[0]["cfg"]["policy"], "obs": obs, "n": min(len(cur), 3),
                "totw": 0 if totw == 0 else 1, "zero": any(x["w"] == 0 for x in cur) and totw > 0}
    if kind == "conc":
        # the list current at the call is only known up to the replacements overlapping it: prefer a
        # candidate with total weight 0 (the shape that matters for describing a panic)
        cands = _conc_lists(seg, idx)
        zero = [c for c in cands if c and sum(x["w"] for x in c) == 0]
        cur = zero[0] if zero else cands[-1]
    r = e.get("r")
    ids = {x["id"] for x in cur}
    if r in ("panic", "nil"):
        obs = r
    elif isinstance(r, str) and r.startswith("unexpected"):
        obs = "unexpected"
    elif r in ids:
        obs = "member"
    else:
        obs = "non-member"
    totw = sum(x["w"] for x in cur)
    return {"kind": kind, "policy": seg[0]["cfg"]["policy"], "obs": obs, "n": min(len(cur), 3),
            "totw": 0 if totw == 0 else 1, "zero": any(x["w"] == 0 for x in cur) and totw > 0}


def _nontrivial(ctx, seg):
    big = len(seg[0]["cfg"]["static"]) >= 2 or any(len([x for x in e.get("insts", []) if x["t"]]) >= 2 for e in seg)
    if not big:
        return
    reps = sum(1 for e in seg if e.get("ev") in ("rep", "rinv"))
    ch = [e for e in seg if e.get("ev") in ("ch", "inv")]
    keys = [e.get("k") for e in ch]
    mix = any(any(x["w"] == 0 for x in e.get("insts", []) if x["t"]) and any(x["w"] > 0 for x in e.get("insts", []) if x["t"])
              for e in seg)
    if reps or len(set(keys)) < len(keys) or mix or len(ch) > 3:
        ctx.nontrivial({"cfg": seg[0]["cfg"], "ev": [(e.get("ev"), e.get("k"), jdump(e.get("insts"))) for e in seg[1:]]})


def _validate_seq(ctx, tp, ev, kind, what):
    """one TLC run over the concatenated sequential traces; the trace spec reports every rejected trace"""
    tr = ctx.tlc_trace("LoadBalance_Trace", TRACE_CFG, tp)
    segs = _segments(ev)
    rejected = sorted({int(x) for x in re.findall(r"VERIF_REJECT\W+(\d+)", tr.out)})
    if not tr.accepted:
        if tr.inv:
            seg = _seg_at(segs, tr.hwm)
            ctx.violation({"kind": kind, "inv": tr.inv, "policy": seg[1][0]["cfg"]["policy"]},
                          "%s: contract invariant %s fails on an observed execution" % (what, tr.inv), seg[1])
            return 0, 1
        ctx.inconclusive("trace validation of %s stopped at event %d of %d without a rejection report:\n%s"
                         % (what, tr.hwm + 1, tr.total, tr.out[-2000:]))
    bad = set()
    for ln in rejected:
        st, seg = _seg_at(segs, ln - 1)
        idx = ln - 1 - st
        bad.add(st)
        e = seg[idx]
        seen = ("tally %s of %d concurrent selections" % (jdump(e["picks"])[:400], e.get("n", 0)) if e.get("ev") == "batch"
                else "request with key %s observed %r" % (e.get("k"), e.get("r")))
        ctx.violation(_sig(seg, idx, kind),
                      "%s: %s, which the contract does not allow for policy %s with current list %s"
                      % (what, seen, seg[0]["cfg"]["policy"], jdump(_lists(seg, idx))), seg[:idx + 1])
    good = [s for s in segs if s[0] not in bad]
    ctx.traces(len(good))
    for _st, seg in good:
        _nontrivial(ctx, seg)
    return len(good), len(bad)


def _seg_at(segs, i):
    cur = segs[0]
    for s in segs:
        if s[0] <= i:
            cur = s
    return cur


def _check_rejected(ctx, ev, what):
    """a configuration the contract accepts (Accepted) but the filter's validation rejected would make the run vacuous"""
    rej = [e for e in ev if e.get("ev") == "rejected"]
    if rej:
        ctx.inconclusive("%s: the Proxy spec rejected a configuration the model considers accepted: %s" % (what, jdump(rej[0])))


def _mbt(ctx):
    nb = 400 if ctx.quick else 4000
    behs = ctx.tlc_simulate("LoadBalance_Gen", SIM_CFG, num=nb, depth=14)
    inp = ctx.write_ndjson("c04_behs.ndjson", behs)
    tp = ctx.path("c04_replay.ndjson")
    rc, out = ctx.go_test(PKG, "^TestVerifC04Replay$", env={"VERIF_IN": inp, "VERIF_OUT": tp})
    ev = ctx.read_ndjson(tp)
    if rc != 0 or not ev:
        ctx.inconclusive("C04 replay harness failed:\n" + out[-3000:])
    _check_rejected(ctx, ev, "replay")
    ctx.evals(len(behs))
    ok, bad = _validate_seq(ctx, tp, ev, "replay", "replay of a TLC-generated behaviour on the real Proxy")
    ctx.log("replay: %d behaviours validated, %d rejected" % (ok, bad))
    ctx.sample({"kind": "tlc-behaviour replayed", "events": ev[:6]})


def _tv(ctx):
    n, steps = (60, 50) if ctx.quick else (600, 120)
    tp = ctx.path("c04_trace.ndjson")
    rc, out = ctx.go_test(PKG, "^TestVerifC04Trace$", env={"VERIF_OUT": tp, "VERIF_N": n, "VERIF_STEPS": steps})
    ev = ctx.read_ndjson(tp)
    if rc != 0 or not ev:
        ctx.inconclusive("C04 trace harness failed:\n" + out[-3000:])
    _check_rejected(ctx, ev, "random pools")
    ctx.evals(n)
    ok, bad = _validate_seq(ctx, tp, ev, "trace", "random request sequence through the real Proxy")
    ctx.log("random traces: %d validated, %d rejected" % (ok, bad))
    ctx.sample({"kind": "recorded-trace", "events": ev[:6]})


def _stress(ctx):
    n, steps = (30, 2000) if ctx.quick else (200, 5000)
    tp = ctx.path("c04_stress.ndjson")
    rc, out = ctx.go_test(PKG, "^TestVerifC04Stress$", env={"VERIF_OUT": tp, "VERIF_N": n, "VERIF_STEPS": steps}, race=not ctx.quick,
                          timeout=1200)
    if "DATA RACE" in out:
        ctx.violation({"kind": "race"}, "data race reported by the Go race detector in concurrent ChooseServer", out[-4000:])
        return
    ev = ctx.read_ndjson(tp)
    if rc != 0 or not ev:
        ctx.inconclusive("C04 stress harness failed:\n" + out[-3000:])
    _check_rejected(ctx, ev, "stress pools")
    ctx.evals(n)
    ok, bad = _validate_seq(ctx, tp, ev, "stress", "burst of concurrent selections on the real pool")
    ctx.log("stress traces: %d validated, %d rejected (%d selections)" % (ok, bad, sum(e.get("n", 0) for e in ev if e.get("ev") == "batch")))


def _ctv(ctx):
    n = 40 if ctx.quick else 400
    tp = ctx.path("c04_ctrace.ndjson")
    rc, out = ctx.go_test(PKG, "^TestVerifC04Conc$", env={"VERIF_OUT": tp, "VERIF_N": n}, race=not ctx.quick, timeout=1200)
    if "DATA RACE" in out:
        ctx.violation({"kind": "race"}, "data race reported by the Go race detector in concurrent ChooseServer/useService", out[-4000:])
        return
    ev = ctx.read_ndjson(tp)
    if rc != 0 or not ev:
        ctx.inconclusive("C04 concurrent harness failed:\n" + out[-3000:])
    _check_rejected(ctx, ev, "concurrent pools")
    ctx.evals(n)
    segs = _segments(ev)
    nseg = len(segs)
    # rejected traces other than panics stop the search: report, remove the trace, search the rest
    for _round in range(12):
        tr = ctx.tlc_trace("LoadBalance_CTrace", TRACE_CFG + "VIEW tview\n", tp, timeout=1200)
        rejected = sorted({int(x) for x in re.findall(r"VERIF_REJECT\W+(\d+)", tr.out)})
        bad = set()
        for ln in rejected:
            st, seg = _seg_at(segs, ln - 1)
            idx = ln - 1 - st
            bad.add(st)
            ctx.violation(_sig(seg, idx, "conc"),
                          "concurrent ChooseServer panicked (policy %s, current list %s)" % (seg[0]["cfg"]["policy"], jdump(_lists(seg, idx))),
                          seg[:idx + 1])
        if tr.accepted:
            good = [s for s in segs if s[0] not in bad]
            ctx.traces(len(good))
            for _st, seg in good:
                _nontrivial(ctx, seg)
            ctx.sample({"kind": "concurrent-trace", "events": good[0][1][:10] if good else []})
            ctx.log("concurrent traces: %d linearised, %d rejected" % (len(good), nseg - len(good)))
            return
        st, seg = _seg_at(segs, tr.hwm)
        e = seg[min(tr.hwm - st, len(seg) - 1)]
        ctx.violation({"kind": "conc", "policy": seg[0]["cfg"]["policy"], "inv": tr.inv or "no-linearisation", "ev": e.get("ev")},
                      "concurrent history of the real pool has no linearisation allowed by the contract (policy %s; first unexplained "
                      "event #%d %s%s)" % (seg[0]["cfg"]["policy"], tr.hwm + 1, jdump(e), ", invariant %s" % tr.inv if tr.inv else ""), seg)
        # drop that trace and validate the others
        segs = [s for s in segs if s[0] != st]
        flat = [x for _s, sg in segs for x in sg]
        # re-index
        segs = _segments(flat)
        tp = ctx.write_ndjson("c04_ctrace_%d.ndjson" % _round, flat)
        if not flat:
            return
    if not ctx.violations:
        ctx.inconclusive("more than 12 concurrent traces rejected; remaining traces not validated")

"""C04 - load balancers pick only live pool members, fairly or stickily, never failing (DESIGN 5/C04).

Oracle: specs/LoadBalance.tla (contract).  specs/LoadBalanceImpl.tla is the implementation-shaped
layer whose refinement of the contract TLC checks.  The real code is bound by
  * MBT: TLC -simulate behaviours of the contract (configuration, discovery reports, keyed requests,
         requests held between the load of the pool's balancer and the choice while the list is replaced,
         round robin balancers that have served 2^b - d selections before, pools with a retry policy and
         requests whose attempts fail at the backend - LoadBalanceRetry.tla) replayed through the real Proxy
         filter with the transport stubbed; the recorded observations are validated by TLC against the
         contract (LoadBalance_Trace);
  * TV : seeded random pools / request sequences (same ingredients), same validation;
  * CTV: concurrent selectors + concurrent list replacement (some selectors load the balancer before and
         choose after the replacement), inv/ret events, linearisation search by TLC (LoadBalance_CTrace);
         -race in the thorough tier;
  * stress: bursts of concurrent selections, tallied (also on balancers with earlier selections, so that
         the burst crosses a power of two).
"""
import re

from lib.vlib import jdump

PKG = "pkg/filters/proxy"

INVS = "INVARIANTS TypeOK RRFair Member NilIffEmpty NoZeroWeight HeldOK\n"
PROPS = INVS + "PROPERTIES Sticky StickyPick StickyRebuild\n"
# requests with several attempts (LoadBalanceRetry.tla)
RETRY_PROPS = "INVARIANTS AttemptOK NoZeroWeightRetry\nPROPERTIES StickyRetry\n"


# exhaustive runs: balancers that have served 2^b - d = 3, 7 selections before (small numbers: the model's counter is exact)
MC_AGE = "  AgeBits = {2, 3}\n  AgeD = {1}\n"


NO_AGE = "  AgeBits = {}\n  AgeD = {}\n"


def contract_cfg(configs, insts, procs, keys, maxsel, maxgen, spec="GSpec", age=NO_AGE, retry=False):
    return ("SPECIFICATION %s\nCONSTANTS\n  Configs <- %s\n  InstSets <- %s\n  Procs = {%s}\n  Keys = {%s}\n"
            "  MaxSel = %d\n  MaxGen = %d\n%sVIEW %s\n" % (spec, configs, insts, _strs(procs), _strs(keys), maxsel, maxgen, age,
                                                        "rview" if retry else "view")
            ) + PROPS + "PROPERTIES ReplaceRule\n" + (RETRY_PROPS + "INVARIANTS AttBound\n" if retry else "")


def impl_cfg(configs, insts, procs, keys, maxsel, maxgen, atomic=True, fixed=True, hrange=2, ctrbits=0, age=NO_AGE, reseed=False):
    return ("SPECIFICATION ISpec\nCONSTANTS\n  Configs <- %s\n  InstSets <- %s\n  Procs = {%s}\n  Keys = {%s}\n"
            "  MaxSel = %d\n  MaxGen = %d\n  AtomicRR = %s\n  FixedWR = %s\n  HashRange = %d\n  CtrBits = %d\n  Reseed = %s\n%sVIEW iview\n"
            % (configs, insts, _strs(procs), _strs(keys), maxsel, maxgen, str(atomic).upper(), str(fixed).upper(), hrange, ctrbits,
               str(reseed).upper(), age)
            ) + INVS.strip() + " NoPanic ObjIsList\nPROPERTIES Refines Sticky StickyPick StickyRebuild\n"


def _strs(xs):
    return ", ".join('"%s"' % x for x in xs)


# numbers of earlier selections 2^b - d around the widths a counter may be narrowed to or converted through
AGE_BITS = [8, 16, 31, 32, 33, 48, 62]
SIM_CFG = ("SPECIFICATION GSeqSpec\nCONSTANTS\n  Configs <- GenConfigs\n  InstSets <- GenInstSets\n  Procs = {\"g0\", \"g1\"}\n"
           "  Keys = {\"k0\", \"k1\", \"k2\"}\n  MaxSel = 14\n  MaxGen = 4\n  AgeBits = {%s}\n  AgeD = {1, 2, 3}\n"
           % ", ".join(map(str, AGE_BITS)))

TRACE_CFG = ("SPECIFICATION TSpec\nCONSTANTS\n  Configs = {}\n  InstSets = {}\n"
             "  Procs = {\"g0\", \"g1\", \"g2\", \"g3\", \"g4\", \"g5\", \"g6\", \"g7\"}\n  Keys = {\"k0\", \"k1\", \"k2\", \"k3\"}\n"
             "  MaxSel = 100000000\n  MaxGen = 100000000\n  AgeBits = {}\n  AgeD = {}\nCONSTRAINT HWM\nPOSTCONDITION TraceAccepted\n") + PROPS
# the sequential traces may contain requests with several attempts
SEQ_TRACE_CFG = TRACE_CFG + RETRY_PROPS


def run(ctx):
    _run(ctx)
    if not ctx.quick and ctx.phase("apalache"):
        # extra: unbounded (in the number of selections) inductive fairness invariant, Apalache; notes only
        from props import _c04apalache
        _c04apalache.run(ctx)


def _run(ctx):
    ctx.cov["rule"] = ("behaviours = TLC -simulate runs of the LoadBalance contract (pool configuration, discovery reports, keyed "
                       "requests) replayed through the real Proxy filter with a recording transport, observations validated by TLC; "
                       "traces = seeded random sequential request sequences and concurrent selector/watcher runs of the real pool "
                       "validated by TLC against the contract (linearisation search for the concurrent ones); non-trivial = distinct "
                       "behaviours/traces with at least two servers in some list and at least one of: a replacement, a repeated key, "
                       "a positive/zero weight mix, more selections than servers")
    ctx.assumptions += ["service discovery is played by the harness calling ServerPool.useService, as the pool's watcher goroutine does",
                        "discovered weights are non-negative",
                        "a hash policy's stickiness is required while the list is unchanged: within one balancer, and across a rebuild of "
                        "the balancer (discovery report) that yields the same servers in the same order - the static list fallen back to "
                        "again, or the same instances coming out of the registry's map in the same order (observed on the balancer built); "
                        "a report that changes the members, their weights or their order starts a new list",
                        "'after any number k of selections' is exercised for k < 2^63 (k0 = 2^b - d earlier selections, b <= 62): a "
                        "round robin balancer after k0 selections is obtained by advancing its only integer field (the selection "
                        "counter, whatever its width) by k0 in that field's own arithmetic",
                        "a request that loaded the pool's balancer before a replacement and chooses after it must get a server of a "
                        "list that was current at some instant in between (and none only if such a list is empty)"]
    # the exhaustive TLC runs (JVMs) go on in the background while the real code is exercised
    from concurrent.futures import ThreadPoolExecutor
    with ThreadPoolExecutor(max_workers=1) as ex:
        mc = ex.submit(_mc, ctx) if ctx.phase("mc") else None
        try:
            if ctx.phase("mbt"):
                _mbt(ctx)
            if ctx.phase("tv"):
                _tv(ctx)
            if ctx.phase("ctv"):
                _ctv(ctx)
            if ctx.phase("stress"):
                _stress(ctx)
        finally:
            if mc is not None:
                mc.result()


def _mc(ctx):
    """exhaustive runs, as parallel JVMs (each is small; the wall time is that of the largest)"""
    from concurrent.futures import ThreadPoolExecutor
    q = ctx.quick
    g2, g3 = ["g0", "g1"], ["g0", "g1", "g2"]
    w = 4 if q else 8
    jobs = {}
    with ThreadPoolExecutor(max_workers=8) as ex:
        # contract: the property's clauses are theorems of it, for all interleavings of callers and replacements
        jobs["contract"] = ex.submit(
            ctx.tlc_mc, "LoadBalance_Gen", contract_cfg("McConfigs", "McInstSets", g2, ["k0", "k1"], 3 if q else 5, 2),
            label="contract, 2 callers, %d selections" % (3 if q else 5), timeout=1500, workers=w)
        # ... and for requests held between the load of the balancer and the choice, across replacements
        jobs["held"] = ex.submit(
            ctx.tlc_mc, "LoadBalance_Gen", contract_cfg("McConfigs", "McInstSets", g2, ["k0", "k1"], 3, 2 if q else 3, spec="GHeldSpec"),
            label="contract, held requests across replacements", timeout=1500, workers=w)
        # ... and for requests with several attempts (pools with a retry policy), interleaved with replacements,
        # other requests and held requests: every attempt a selection in the list current then, nil iff empty
        jobs["retry"] = ex.submit(
            ctx.tlc_mc, "LoadBalance_Gen", contract_cfg("McRetryConfigs", "McInstSets", g2, ["k0"] if q else ["k0", "k1"], 3, 2,
                                                        spec="GSeqSpec", retry=True),
            label="contract, requests with several attempts", timeout=1500, workers=w)
        # ... and for round robin balancers that have served selections before (the counts stay fair from there on)
        jobs["aged"] = ex.submit(
            ctx.tlc_mc, "LoadBalance_Gen", contract_cfg("McRRConfigs", "McInstSets", g2, ["k0"], 3 if q else 4, 2, age=MC_AGE),
            label="contract, round robin balancers with earlier selections", timeout=1500, workers=w)
        jobs["aged-impl"] = ex.submit(
            ctx.tlc_mc, "LoadBalanceImpl_MC", impl_cfg("RROnlyConfigs", "McInstSets", g2, ["k0"], 3 if q else 4, 2, age=MC_AGE),
            label="implementation layer refines contract, round robin counters with earlier selections", timeout=1500, workers=w)
        # implementation-shaped layer refines the contract
        runs = [("RRConfigs", "McInstSets", g2, ["k0"], 4 if q else 5, 2 if q else 3, 2),
                ("WRConfigs", "McInstSets", g2, ["k0"], 3 if q else 4, 2, 2),
                ("HashConfigs", "McInstSets", g2, ["k0", "k1"], 3 if q else 4, 2, 2 if q else 3),
                # three generations: the same instances reported twice come out in the same order or in another one
                ("HashConfigs", "AgainInstSets", g2, ["k0"], 3, 3 if q else 4, 2)]
        if not q:
            runs.append(("RRConfigs", "McInstSets", g3, ["k0"], 4, 2, 2))
        for (cf, ins, pr, ks, ms, mg, hr) in runs:
            jobs[cf + ins + str(len(pr))] = ex.submit(ctx.tlc_mc, "LoadBalanceImpl_MC", impl_cfg(cf, ins, pr, ks, ms, mg, hrange=hr),
                                 label="implementation layer refines contract, %s" % cf, timeout=1500, workers=w)
        # negative controls: the model is able to find what the property forbids
        jobs["neg-rr"] = ex.submit(ctx.tlc_mc, "LoadBalanceImpl_MC", impl_cfg("RRConfigs", "McInstSets", g2, ["k0"], 3, 2, atomic=False),
                                   label="negative control: non-atomic counter", expect_ok=False, count=False, workers=2)
        jobs["pinned-wr"] = ex.submit(ctx.tlc_mc, "LoadBalanceImpl_MC", impl_cfg("WRConfigs", "McInstSets", g2, ["k0"], 3, 2, fixed=False),
                                      label="negative control: weightedRandom without the zero-total-weight guard", expect_ok=False,
                                      count=False, workers=2)
        jobs["neg-wrap"] = ex.submit(ctx.tlc_mc, "LoadBalanceImpl_MC", impl_cfg("RROnlyConfigs", "McInstSets", g2, ["k0"], 3, 2, ctrbits=3, age=MC_AGE),
                                     label="negative control: 3-bit round robin counter that wraps", expect_ok=False, count=False, workers=2)
        jobs["neg-reseed"] = ex.submit(ctx.tlc_mc, "LoadBalanceImpl_MC", impl_cfg("HashConfigs", "McInstSets", g2, ["k0"], 3, 2, reseed=True),
                                       label="negative control: hash function drawn per balancer object", expect_ok=False, count=False,
                                       workers=2)
        jobs["neg-retry"] = ex.submit(
            ctx.tlc_mc, "LoadBalance_Gen", contract_cfg("McRetryConfigs", "McInstSets", g2, ["k0"], 3, 2, spec="GBadRetrySpec", retry=True),
            label="negative control: a retry that gives up when only the server that failed before is offered", expect_ok=False,
            count=False, workers=2)
        res = {k: f.result() for k, f in jobs.items()}
    for k in sorted(res):
        if res[k].ok:
            ctx.log("%s: %d distinct states, %.0fs" % (k, res[k].distinct, res[k].wall))
    r = res["neg-rr"]
    if r.violated not in ("RRFair", "Refines"):
        ctx.inconclusive("negative control (non-atomic round robin counter) was not rejected by TLC: %s" % r.error)
    r = res["neg-wrap"]
    if r.violated not in ("RRFair", "Refines"):
        ctx.inconclusive("negative control (round robin counter that wraps) was not rejected by TLC: %s" % r.error)
    r = res["neg-reseed"]
    if r.violated not in ("Refines", "StickyRebuild"):
        ctx.inconclusive("negative control (hash seeded per balancer object) was not rejected by TLC: %s" % r.error)
    r = res["neg-retry"]
    if r.violated != "AttemptOK":
        ctx.inconclusive("negative control (retry that gives up for lack of an untried server) was not rejected by TLC: %s" % r.error)
    r = res["pinned-wr"]
    if r.violated not in ("NoPanic", "Refines"):
        ctx.inconclusive("negative control (weightedRandom without the zero-total-weight guard) was not rejected by TLC: %s" % r.error)


# ------------------------------------------------------------------------------------------
def _segments(ev):
    """[(start_index, events)] split at reset"""
    segs, cur, st = [], [], 0
    for i, e in enumerate(ev):
        if e.get("ev") == "reset":
            if cur:
                segs.append((st, cur))
            cur, st = [], i
        cur.append(e)
    if cur:
        segs.append((st, cur))
    return segs


def _lists(seg, upto):
    """the successive lists of a segment as the contract computes them (only used to describe a violation)"""
    cfg = seg[0]["cfg"]
    cur = list(cfg["static"])
    for e in seg[1:upto + 1]:
        if e.get("ev") in ("rep", "rinv"):
            tagged = [{"id": x["id"], "w": x["w"]} for x in e["insts"] if x["t"]]
            cur = tagged if tagged else list(cfg["static"])
    return cur


def _conc_lists(seg, idx):
    """concurrent trace: every list that may have been current during the call invoked at seg[idx]"""
    p = seg[idx].get("p")
    end = idx
    for j in range(idx + 1, len(seg)):
        if seg[j].get("ev") == "ret" and seg[j].get("p") == p:
            end = j
            break
    cfg = seg[0]["cfg"]
    lists = [list(cfg["static"])]
    done_before_inv = 0
    for j, e in enumerate(seg[1:end + 1], start=1):
        if e.get("ev") == "rinv":
            tagged = [{"id": x["id"], "w": x["w"]} for x in e["insts"] if x["t"]]
            lists.append(tagged if tagged else list(cfg["static"]))
        if e.get("ev") == "rret" and j < idx:
            done_before_inv += 1
    return lists[done_before_inv:]


def _sig(seg, idx, kind):
    """signature of a rejected observation: policy, what was observed, shape of the current list"""
    e = seg[idx]
    cur = _lists(seg, idx)
    if e.get("ev") == "batch":
        ids = {x["id"] for x in cur}
        got = {x["id"] for x in e["picks"]}
        obs = "panic" if "panic" in got else ("non-member" if got - ids - {"nil"} else "tally")
        totw = sum(x["w"] for x in cur)
        return {"kind": kind, "policy": seg[0]["cfg"]["policy"], "obs": obs, "n": min(len(cur), 3),
                "totw": 0 if totw == 0 else 1, "zero": any(x["w"] == 0 for x in cur) and totw > 0}
    if e.get("ev") == "hpick":
        # a held request: the lists that were current between its load of the balancer and its choice
        hold = max(j for j in range(idx) if seg[j].get("ev") == "hold" and seg[j].get("p") == e.get("p"))
        span = [_lists(seg, j) for j in range(hold, idx + 1) if j == hold or seg[j].get("ev") == "rep"]
        r = e.get("r")
        obs = r if r in ("panic", "nil") else ("member" if any(r in {x["id"] for x in l} for l in span) else "non-member")
        return {"kind": kind, "policy": seg[0]["cfg"]["policy"], "obs": obs, "held": True, "replaced": len(span) > 1,
                "empty": any(not l for l in span)}
    if kind == "conc":
        # the list current at the call is only known up to the replacements overlapping it: prefer a
        # candidate with total weight 0 (the shape that matters for describing a panic)
        cands = _conc_lists(seg, idx)
        zero = [c for c in cands if c and sum(x["w"] for x in c) == 0]
        cur = zero[0] if zero else cands[-1]
    r = e.get("r")
    ids = {x["id"] for x in cur}
    if e.get("ev") in ("send", "nosrv"):
        # an attempt of a request with several attempts: which attempt, and whether the servers of the list had
        # all been tried by the request before
        obs = r if r in ("panic", "nil") else ("unexpected" if str(r).startswith("unexpected") else "member" if r in ids else "non-member")
        tried = {x.get("r") for x in seg[:idx] if x.get("ev") == "send" and x.get("p") == e.get("p")
                 and x.get("k") == e.get("k") and x.get("i", 0) <= e.get("i", 0)}
        return {"kind": kind, "policy": seg[0]["cfg"]["policy"], "obs": obs, "n": min(len(cur), 3), "retry": True,
                "attempt": min(e.get("i", 0) + (1 if e.get("ev") == "nosrv" else 0), 3), "att": min(seg[0]["cfg"].get("att", 1), 3),
                "all_tried": bool(ids) and ids <= tried}
    aged = [x for x in seg[:idx] if x.get("ev") in ("age", "rep")]
    if aged and aged[-1]["ev"] == "age" and r in ids:
        return {"kind": kind, "policy": seg[0]["cfg"]["policy"], "obs": "member-unfair", "aged": aged[-1]["b"], "n": min(len(cur), 3)}
    if r in ("panic", "nil"):
        obs = r
    elif isinstance(r, str) and r.startswith("unexpected"):
        obs = "unexpected"
    elif r in ids:
        obs = "member"
    else:
        obs = "non-member"
    totw = sum(x["w"] for x in cur)
    sig = {"kind": kind, "policy": seg[0]["cfg"]["policy"], "obs": obs, "n": min(len(cur), 3),
           "totw": 0 if totw == 0 else 1, "zero": any(x["w"] == 0 for x in cur) and totw > 0}
    reps = [x for x in seg[:idx] if x.get("ev") == "rep"]
    if seg[0]["cfg"]["policy"] in ("ipHash", "headerHash") and obs == "member" and reps and \
            (reps[-1].get("same") or not any(x["t"] for x in reps[-1]["insts"])):
        sig["after_rebuild_over_unchanged_list"] = True      # the key went to another server of the same list
    return sig


def _nontrivial(ctx, seg):
    big = len(seg[0]["cfg"]["static"]) >= 2 or any(len([x for x in e.get("insts", []) if x["t"]]) >= 2 for e in seg)
    if not big:
        return
    reps = sum(1 for e in seg if e.get("ev") in ("rep", "rinv"))
    ch = [e for e in seg if e.get("ev") in ("ch", "inv", "send")]
    keys = [e.get("k") for e in ch]
    mix = any(any(x["w"] == 0 for x in e.get("insts", []) if x["t"]) and any(x["w"] > 0 for x in e.get("insts", []) if x["t"])
              for e in seg)
    if reps or len(set(keys)) < len(keys) or mix or len(ch) > 3:
        ctx.nontrivial({"cfg": seg[0]["cfg"], "ev": [(e.get("ev"), e.get("k"), jdump(e.get("insts"))) for e in seg[1:]]})


def _schedules(segs):
    """how many of the two schedule classes the recorded traces contain: requests held across a replacement
    between two non-empty lists, and round robin selections that cross a power of two on an aged balancer"""
    held = crossed = 0
    for _st, seg in segs:
        for i, e in enumerate(seg):

            if e.get("ev") == "hpick":
                h = max(j for j in range(i) if seg[j].get("ev") == "hold" and seg[j].get("p") == e.get("p"))
                reps = [j for j in range(h, i) if seg[j].get("ev") == "rep"]
                if reps and _lists(seg, h) and _lists(seg, reps[-1]):
                    held += 1
            if e.get("ev") == "age":
                j, m = i + 1, 0
                while j < len(seg) and seg[j].get("ev") in ("ch", "batch"):
                    m += seg[j].get("n", 1)
                    j += 1
                if m > e["d"] and len(_lists(seg, i)) >= 2:
                    crossed += 1
    return held, crossed


def _rebuilds(ev):
    """hash policies: requests whose key had been sent to a server of the current list before the balancer was rebuilt
    over the unchanged list (>= 2 servers) - by the kind of rebuild"""
    n = {"static_again": 0, "same_instances_same_order": 0, "same_instances_other_order": 0}
    for _st, seg in _segments(ev):
        cfg = seg[0]["cfg"]
        if cfg["policy"] not in ("ipHash", "headerHash"):
            continue
        static, size, kind, seen, carried, prev = True, len(cfg["static"]), None, set(), set(), None
        for e in seg[1:]:
            if e.get("ev") == "rep":
                tagged = sorted((x["id"], x["w"]) for x in e["insts"] if x["t"])
                if not tagged:
                    unchanged, kind = static, "static_again"
                    static, size = True, len(cfg["static"])
                else:
                    unchanged, kind = (not static and tagged == prev and bool(e.get("same"))), "same_instances_same_order"
                    if not static and tagged == prev and not e.get("same") and seen:
                        n["same_instances_other_order"] += 1
                    static, size = False, len(tagged)
                prev = tagged
                carried = (carried | seen) if unchanged else set()
                seen = set()
            elif e.get("ev") in ("ch", "hpick", "send") and e.get("r") not in (None, "nil"):
                k = e.get("k")
                if k in carried and size >= 2 and kind:
                    n[kind] += 1
                if k is not None:
                    seen.add(k)
    return n


def _prev_send(seg, i):
    for j in range(i - 1, 0, -1):
        if seg[j].get("ev") == "send" and seg[j].get("p") == seg[i].get("p"):
            return j
    return i


def _retries(ev):
    """how many attempts after the first the recorded traces contain, by the class of situation"""
    rt = {"retried": 0, "one_server": 0, "hash": 0, "more_attempts_than_servers": 0, "replaced_between_attempts": 0, "no_server": 0}
    for _st, seg in _segments(ev):
        for i, e in enumerate(seg):
            if e.get("ev") == "send" and e.get("i", 1) >= 2:
                # a retry ... for which the balancer can only offer servers the request has tried before
                cur = _lists(seg, i)
                rt["retried"] += 1
                if len(cur) == 1:
                    rt["one_server"] += 1
                elif seg[0]["cfg"]["policy"] in ("ipHash", "headerHash"):
                    rt["hash"] += 1
                elif e["i"] > len(cur) >= 2:
                    rt["more_attempts_than_servers"] += 1
                if any(x.get("ev") == "rep" for x in seg[_prev_send(seg, i):i]):
                    rt["replaced_between_attempts"] += 1
            if e.get("ev") == "nosrv":
                rt["no_server"] += 1
    return rt


def _validate_seq(ctx, tp, ev, kind, what):
    """one TLC run over the concatenated sequential traces; the trace spec reports every rejected trace"""
    tr = ctx.tlc_trace("LoadBalance_Trace", SEQ_TRACE_CFG, tp)
    segs = _segments(ev)
    rejected = sorted({int(x) for x in re.findall(r"VERIF_REJECT\W+(\d+)", tr.out)})
    if not tr.accepted:
        if tr.inv:
            seg = _seg_at(segs, tr.hwm)
            ctx.violation({"kind": kind, "inv": tr.inv, "policy": seg[1][0]["cfg"]["policy"]},
                          "%s: contract invariant %s fails on an observed execution" % (what, tr.inv), seg[1])
            return 0, 1
        ctx.inconclusive("trace validation of %s stopped at event %d of %d without a rejection report:\n%s"
                         % (what, tr.hwm + 1, tr.total, tr.out[-2000:]))
    bad = set()
    for ln in rejected:
        st, seg = _seg_at(segs, ln - 1)
        idx = ln - 1 - st
        bad.add(st)
        e = seg[idx]
        aged = [x for x in seg[:idx] if x.get("ev") in ("age", "rep")]
        after = (" (balancer that had served %s selections before)" % aged[-1]["k0"]) if aged and aged[-1]["ev"] == "age" else ""
        seen = ("tally %s of %d concurrent selections%s" % (jdump(e["picks"])[:400], e.get("n", 0), after) if e.get("ev") == "batch"
                else "attempt %d of the request of %s (key %s; pool with a retry policy of %d attempts; the attempt before it was "
                     "answered with a failure) was not sent: the request ended with 503 'no available server'"
                     % (e.get("i", 0) + 1, e.get("p"), e.get("k"), seg[0]["cfg"].get("att", 1)) if e.get("ev") == "nosrv"
                else "attempt %d of the request of %s (key %s) observed %r" % (e.get("i", 0), e.get("p"), e.get("k"), e.get("r"))
                if e.get("ev") == "send"
                else "request %s, held between the load of the balancer and its choice, observed %r" % (e.get("p"), e.get("r"))
                if e.get("ev") == "hpick"
                else "request with key %s observed %r%s" % (e.get("k"), e.get("r"), after))
        ctx.violation(_sig(seg, idx, kind),
                      "%s: %s, which the contract does not allow for policy %s with current list %s"
                      % (what, seen, seg[0]["cfg"]["policy"], jdump(_lists(seg, idx))), seg[:idx + 1])
    good = [s for s in segs if s[0] not in bad]
    ctx.traces(len(good))
    for _st, seg in good:
        _nontrivial(ctx, seg)
    return len(good), len(bad)


def _seg_at(segs, i):
    cur = segs[0]
    for s in segs:
        if s[0] <= i:
            cur = s
    return cur


def _check_rejected(ctx, ev, what):
    """a configuration the contract accepts (Accepted) but the filter's validation rejected would make the run vacuous"""
    rej = [e for e in ev if e.get("ev") == "rejected"]
    if rej:
        ctx.inconclusive("%s: the Proxy spec rejected a configuration the model considers accepted: %s" % (what, jdump(rej[0])))


def _vacuity(ctx, ev, held, crossed, what):
    rt = _retries(ev)
    ctx.cov.setdefault("c04_schedules", {})[what] = {"held_across_replacement": held, "aged_crossing_power_of_two": crossed,
                                                     "retries": rt}
    ctx.log("%s: attempts after the first: %s" % (what, jdump(rt)))
    if ctx.violations:
        return
    for cls in ("one_server", "hash", "more_attempts_than_servers", "replaced_between_attempts"):
        if rt[cls] == 0:
            ctx.inconclusive("%s: no request was retried in the situation '%s'" % (what, cls))
    if held == 0:
        ctx.inconclusive("%s: no request was held across a replacement of a non-empty list by a non-empty list" % what)
    rb = _rebuilds(ev)
    ctx.cov["c04_schedules"][what]["keys_seen_again_after_rebuild_over_unchanged_list"] = rb
    ctx.log("%s: keyed requests after a rebuild of a hash balancer over the unchanged list: %s" % (what, jdump(rb)))
    if rb["same_instances_other_order"]:
        note = ("lead, not judged: when the registry reports the same instances again, useService ranges over a Go map, so the "
                "rebuilt list can hold the same servers in another order and ipHash / headerHash then move keys to other servers; "
                "the check demands stickiness across a rebuild only when the servers come out in the same order (or the static "
                "list is fallen back to again)")
        if note not in ctx.notes:
            ctx.notes.append(note)
    if what == "random traces" and rb["static_again"] == 0:
        ctx.inconclusive("%s: no key of a hash policy was requested before and after a rebuild of the balancer over the unchanged "
                         "static list" % what)
    if any(e.get("ev") == "noage" and e.get("why") == "nocounter" for e in ev):
        note = ("the round robin balancer keeps no single integer field that counts its selections: balancers with earlier "
                "selections were not produced")
        if note not in ctx.notes:
            ctx.notes.append(note)
    elif crossed == 0:
        ctx.inconclusive("%s: no round robin balancer with earlier selections crossed a power of two" % what)


def _mbt(ctx):
    nb = 400 if ctx.quick else 4000
    behs = ctx.tlc_simulate("LoadBalance_Gen", SIM_CFG, num=nb, depth=14)
    inp = ctx.write_ndjson("c04_behs.ndjson", behs)
    tp = ctx.path("c04_replay.ndjson")
    rc, out = ctx.go_test(PKG, "^TestVerifC04Replay$", env={"VERIF_IN": inp, "VERIF_OUT": tp})
    ev = ctx.read_ndjson(tp)
    if rc != 0 or not ev:
        ctx.inconclusive("C04 replay harness failed:\n" + out[-3000:])
    _check_rejected(ctx, ev, "replay")
    ctx.evals(len(behs))
    ok, bad = _validate_seq(ctx, tp, ev, "replay", "replay of a TLC-generated behaviour on the real Proxy")
    held, crossed = _schedules(_segments(ev))
    ctx.log("replay: %d behaviours validated, %d rejected (%d requests held across a replacement, %d aged balancers)"
            % (ok, bad, held, crossed))
    _vacuity(ctx, ev, held, crossed, "replay")
    ctx.sample({"kind": "tlc-behaviour replayed", "events": ev[:6]})


def _tv(ctx):
    n, steps = (60, 50) if ctx.quick else (600, 120)
    tp = ctx.path("c04_trace.ndjson")
    rc, out = ctx.go_test(PKG, "^TestVerifC04Trace$", env={"VERIF_OUT": tp, "VERIF_N": n, "VERIF_STEPS": steps})
    ev = ctx.read_ndjson(tp)
    if rc != 0 or not ev:
        ctx.inconclusive("C04 trace harness failed:\n" + out[-3000:])
    _check_rejected(ctx, ev, "random pools")
    ctx.evals(n)
    ok, bad = _validate_seq(ctx, tp, ev, "trace", "random request sequence through the real Proxy")
    held, crossed = _schedules(_segments(ev))
    ctx.log("random traces: %d validated, %d rejected (%d requests held across a replacement, %d aged balancers)"
            % (ok, bad, held, crossed))
    _vacuity(ctx, ev, held, crossed, "random traces")
    ctx.sample({"kind": "recorded-trace", "events": ev[:6]})


def _stress(ctx):
    n, steps = (30, 2000) if ctx.quick else (200, 5000)
    tp = ctx.path("c04_stress.ndjson")
    rc, out = ctx.go_test(PKG, "^TestVerifC04Stress$", env={"VERIF_OUT": tp, "VERIF_N": n, "VERIF_STEPS": steps}, race=not ctx.quick,
                          timeout=1200)
    if "DATA RACE" in out:
        ctx.violation({"kind": "race"}, "data race reported by the Go race detector in concurrent ChooseServer", out[-4000:])
        return
    ev = ctx.read_ndjson(tp)
    if rc != 0 or not ev:
        ctx.inconclusive("C04 stress harness failed:\n" + out[-3000:])
    _check_rejected(ctx, ev, "stress pools")
    ctx.evals(n)
    ok, bad = _validate_seq(ctx, tp, ev, "stress", "burst of concurrent selections on the real pool")
    ctx.log("stress traces: %d validated, %d rejected (%d selections)" % (ok, bad, sum(e.get("n", 0) for e in ev if e.get("ev") == "batch")))


def _ctv(ctx):
    n = 40 if ctx.quick else 400
    tp = ctx.path("c04_ctrace.ndjson")
    rc, out = ctx.go_test(PKG, "^TestVerifC04Conc$", env={"VERIF_OUT": tp, "VERIF_N": n}, race=not ctx.quick, timeout=1200)
    if "DATA RACE" in out:
        ctx.violation({"kind": "race"}, "data race reported by the Go race detector in concurrent ChooseServer/useService", out[-4000:])
        return
    ev = ctx.read_ndjson(tp)
    if rc != 0 or not ev:
        ctx.inconclusive("C04 concurrent harness failed:\n" + out[-3000:])
    _check_rejected(ctx, ev, "concurrent pools")
    ctx.evals(n)
    nheld = sum(1 for e in ev if e.get("ev") == "inv" and e.get("held"))
    ctx.cov.setdefault("c04_schedules", {})["concurrent"] = {"held_across_replacement": nheld}
    if nheld == 0:
        ctx.inconclusive("concurrent pools: no selection was held between the load of the balancer and the choice across a replacement")
    segs = _segments(ev)
    nseg = len(segs)
    # rejected traces other than panics stop the search: report, remove the trace, search the rest
    for _round in range(12):
        tr = ctx.tlc_trace("LoadBalance_CTrace", TRACE_CFG + "VIEW tview\n", tp, timeout=1200)
        rejected = sorted({int(x) for x in re.findall(r"VERIF_REJECT\W+(\d+)", tr.out)})
        bad = set()
        for ln in rejected:
            st, seg = _seg_at(segs, ln - 1)
            idx = ln - 1 - st
            bad.add(st)
            ctx.violation(_sig(seg, idx, "conc"),
                          "concurrent ChooseServer panicked (policy %s, current list %s)" % (seg[0]["cfg"]["policy"], jdump(_lists(seg, idx))),
                          seg[:idx + 1])
        if tr.accepted:
            good = [s for s in segs if s[0] not in bad]
            ctx.traces(len(good))
            for _st, seg in good:
                _nontrivial(ctx, seg)
            ctx.sample({"kind": "concurrent-trace", "events": good[0][1][:10] if good else []})
            ctx.log("concurrent traces: %d linearised, %d rejected (%d selections held across a replacement)"
                    % (len(good), nseg - len(good), nheld))
            return
        st, seg = _seg_at(segs, tr.hwm)
        e = seg[min(tr.hwm - st, len(seg) - 1)]
        ctx.violation({"kind": "conc", "policy": seg[0]["cfg"]["policy"], "inv": tr.inv or "no-linearisation", "ev": e.get("ev")},
                      "concurrent history of the real pool has no linearisation allowed by the contract (policy %s; first unexplained "
                      "event #%d %s%s)" % (seg[0]["cfg"]["policy"], tr.hwm + 1, jdump(e), ", invariant %s" % tr.inv if tr.inv else ""), seg)
        # drop that trace and validate the others
        segs = [s for s in segs if s[0] != st]
        flat = [x for _s, sg in segs for x in sg]
        # re-index
        segs = _segments(flat)
        tp = ctx.write_ndjson("c04_ctrace_%d.ndjson" % _round, flat)
        if not flat:
            return
    if not ctx.violations:
        ctx.inconclusive("more than 12 concurrent traces rejected; remaining traces not validated")

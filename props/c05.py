"""C05 - IP filter: denied clients never reach a pipeline, allowed ones are unaffected (DESIGN 5/C05)."""
from props import _router as R
from props.c12 import classify
from lib.vlib import jdump

IPF_PKG = "pkg/util/ipfilter"
VIAS = ("remote", "xff", "xri", "xffchain", "xrichain")      # HttpRouter.tla: req.via
IPF_INV = "INVARIANTS Refines Table ChainConj FamilySeparation\n"


def ipf_cfg(w, ma, mb, chain, pair=False):
    return ("SPECIFICATION Spec\nCONSTANTS\n  BitWidth = %d\n  MaxAllow = %d\n  MaxBlock = %d\n  ChainMode = %s\n  PairMode = %s\n" % (
        w, ma, mb, "TRUE" if chain else "FALSE", "TRUE" if pair else "FALSE")) + IPF_INV


IPF_TRACE_CFG = "SPECIFICATION TSpec\nCONSTRAINT HWM\nPOSTCONDITION Accepted\n"


def run(ctx):
    ctx.cov["rule"] = ("states = TLC: decision table of the IP filter over all small allow/block lists (implementation-shaped switch = "
                       "contract, chain = conjunction) and the router with filters at three levels, cache and filter-less twin "
                       "(C05 (i)-(iii) after any history and evictions, repaired cache design); behaviours = every decision vector of the "
                       "small model replayed on the real ipfilter.IPFilter, and TLC -simulate behaviours replayed on four real muxes "
                       "(filters / filter-less twin x cache off / on); traces = recorded decisions of random real IPv4/IPv6 filters and "
                       "recorded request sequences of the four muxes, validated by TLC; non-trivial = distinct (membership pattern, "
                       "default, decision) and (filter level, outcome) cases")
    ctx.assumptions += ["client address unambiguous: RemoteAddr, or the only public address named by X-Forwarded-For / X-Real-IP (alone, or "
                        "among private / loopback / link-local proxy hops; the choice among several public addresses is not the "
                        "property's)", "addresses parse; IPv4-mapped IPv6 addresses excluded",
                        "bits of recorded addresses/prefixes computed with net/netip",
                        "C05 (ii) read as: routed like the filter-less twin (same cache size, same history) or as the routing rules say",
                        "C05 (iii): whether the filter of a host-matching rule passed over on the way to the route 'applies' is the server's "
                        "choice, shown by its cache-less search; the cached server after any history must make the same choice",
                        "a client denied only by a filter of a rule/path the request does not belong to may be refused or routed (iii)"]
    R.run_phases(ctx, (("ipf", _ipf), ("mc", _mc), ("mbt", _mbt), ("tv", _tv)))


# ------------------------------------------------------------------------------------------ ipfilter package
def _vectors(ctx, vecs, width, name, least):
    """replays the decision vectors of one universe on the real ipfilter.IPFilter"""
    seen, uniq = set(), []
    for v in vecs:
        k = jdump([v["f"], v["a"]])
        if k not in seen:
            seen.add(k)
            uniq.append(v)
    if len(uniq) < least:
        ctx.inconclusive("C05: only %d decision vectors exported (%s)" % (len(uniq), name))
    inp = ctx.write_ndjson("c05_vectors_%s.ndjson" % name, uniq)
    outp = ctx.path("c05_vec_out_%s.ndjson" % name)
    rc, out = ctx.go_test(IPF_PKG, "^TestVerifC05Vectors$", env={"VERIF_IN": inp, "VERIF_OUT": outp, "VERIF_W": width}, timeout=900)
    recs = ctx.read_ndjson(outp)
    summ = [x for x in recs if x.get("k") == "summary"]
    if rc != 0 or not summ or summ[0]["vectors"] != len(uniq):
        ctx.inconclusive("C05 vector harness failed (%s):\n%s" % (name, out[-3000:]))
    ctx.evals(len(uniq))
    ctx.traces(len(uniq))
    for v in uniq:
        ctx.nontrivial({"u": name, "al": len(v["f"]["allow"]), "bl": len(v["f"]["block"]), "d": v["f"]["dflt"], "ok": v["allow"],
                        "fam": v["a"]["fam"]})
    ctx.sample({"kind": "decision-vector", "universe": name, "v": uniq[len(uniq) // 2]})
    for m in [x for x in recs if x.get("k") == "mismatch"]:
        al, bl = m.get("allowIPs") or [], m.get("blockIPs") or []      # a Go nil slice arrives as null
        ctx.violation({"kind": "ipfilter-vector", "got": m["got"], "dflt": m["blockByDefault"], "nallow": len(al), "nblock": len(bl)},
                      "IPFilter{allow %s, block %s, blockByDefault %s}.Allow(%s) = %s, the decision table says %s" % (
                          al, bl, m["blockByDefault"], m["addr"], m["got"], m["exp"]), m)


def _ipf(ctx):
    # exhaustive decision table + export of all vectors
    if ctx.quick:
        vecs = ctx.tlc_dump("IPFilter_MC", ipf_cfg(2, 1, 2, True), timeout=600, label="decision table, width 2, <=1 allow, <=2 block, chains")
    else:
        ctx.tlc_mc("IPFilter_MC", ipf_cfg(2, 1, 2, True), timeout=900,
                   label="decision table with chains", deadlock=False)
        vecs = ctx.tlc_dump("IPFilter_MC", ipf_cfg(2, 2, 2, False), timeout=1500, label="decision table, width 2, <=2 allow, <=2 block")
    ctx.log("ipfilter: %d states of the small universe exported" % len(vecs))
    _vectors(ctx, vecs, 2, "small", 1000)
    ctx.log("ipfilter: small universe replayed")
    # two nets of one size in one list (siblings, adjacent non-siblings, apart) at every prefix length of a width-3 space
    vecs = ctx.tlc_dump("IPFilter_MC", ipf_cfg(3, 2, 2, False, pair=True), timeout=900,
                        label="decision table, width 3, two same-size nets in one list, <=1 in the other")
    ctx.log("ipfilter: %d states of the pair universe exported" % len(vecs))
    _vectors(ctx, vecs, 3, "pairs", 10000)
    ctx.log("ipfilter: pair universe replayed")
    # recorded decisions on real addresses
    nf, na = (350, 12) if ctx.quick else (5000, 16)
    tp = ctx.path("c05_ipf_trace.ndjson")
    rc, out = ctx.go_test(IPF_PKG, "^TestVerifC05Trace$", env={"VERIF_OUT": tp, "VERIF_N": nf, "VERIF_ADDRS": na}, timeout=900)
    ev = ctx.read_ndjson(tp)
    if rc != 0 or len(ev) < nf * na:
        ctx.inconclusive("C05 ipfilter trace harness failed:\n" + out[-3000:])
    allowed = sum(1 for e in ev if e["allow"])
    vacuous = None      # judged after the trace (the count comes from the real code)
    if allowed < len(ev) // 10 or allowed > len(ev) * 9 // 10:
        vacuous = "C05 ipfilter trace is vacuous: %d of %d decisions are 'allow'" % (allowed, len(ev))
    bad = {}
    chunk = 5000 if ctx.quick else 10000
    for k in range(0, len(ev), chunk):
        part = ev[k:k + chunk]
        p = ctx.write_ndjson("c05_ipf_%d.ndjson" % k, part)
        tr = ctx.tlc_trace("IPFilter_Trace", IPF_TRACE_CFG, p, timeout=900, deque=False)
        if not tr.accepted:
            ctx.inconclusive("trace spec IPFilter_Trace stopped at line %d of %d:\n%s" % (tr.hwm + 1, tr.total, tr.out[-2000:]))
        for ln, rec in R.mismatches(tr.out).items():
            bad[k + ln - 1] = rec
    ctx.evals(len(ev))
    ctx.traces(nf)
    ctx.sample({"kind": "recorded-decision", "allow": [n["txt"] for n in ev[0]["f"]["allow"]], "block": [n["txt"] for n in ev[0]["f"]["block"]],
                "blockByDefault": ev[0]["f"]["dflt"], "addr": ev[0]["a"]["txt"], "allowed": ev[0]["allow"]})
    for idx, rec in sorted(bad.items()):
        e = ev[idx]
        ctx.violation({"kind": "ipfilter-trace", "got": e["allow"], "dflt": e["f"]["dflt"], "fam": e["a"]["fam"]},
                      "IPFilter{allow %s, block %s, blockByDefault %s}.Allow(%s) = %s, the contract says %s" % (
                          [n["txt"] for n in e["f"]["allow"]], [n["txt"] for n in e["f"]["block"]], e["f"]["dflt"], e["a"]["txt"],
                          e["allow"], rec["allow"]), e)
    if vacuous:
        ctx.inconclusive(vacuous)


# ------------------------------------------------------------------------------------------ mux level
def _mc(ctx):
    uni = "C05InitQuick" if ctx.quick else "C12InitQuick"
    reqs = "C12ReqsA" if ctx.quick else "C12Reqs"
    r = ctx.tlc_mc("HttpRouter_MC", R.mc_cfg(uni, reqs, 2, True, "IPFilterRespected", twin=True, variant=R.REPAIRED),
                   label="C05 (i)-(iii), repaired cache design, cache on, filter-less twin, %s" % uni, timeout=1800)
    ctx.log("C05 (i)-(iii) hold on the implementation-shaped router with cache (repaired design): %d transitions" % r.generated)
    r = ctx.tlc_mc("HttpRouter_MC", R.mc_cfg("C12InitQuick" if ctx.quick else "C12InitFull", "C12Reqs", 1, False, "IPFilterRespected Transparent"),
                   label="C05 (i)-(ii) and the 403 rules, cache off", timeout=1800)
    ctx.log("C05 (i)-(ii) hold with the cache off: %d transitions" % r.generated)
    r = ctx.tlc_mc("HttpRouter_MC", R.mc_cfg("C05InitQuick", "C12ReqsA", 2, True, "IPFilterRespected", twin=True, variant=R.PINNED),
                   label="C05 (i)-(ii), cache design of the pinned tree", timeout=900, expect_ok=False, count=False)
    ctx.notes.append({"pinned_cache_design_refuted_by_tlc": r.violated is not None})


def _sig(clause, cache, q, cul, own, cown, exp, got):
    sig = {"clause": clause, "cache": bool(cache), "got": R.kind(got)}
    sig["class"] = classify(q, cul, own, cown, exp, got) if cache else "direct"
    return sig


def _what(clause, cache, q, o, z, c01, cul, own=None):
    w = "request %s: mux with IP filters%s answers %s; " % (R.show_req(q), " and route cache" if cache else "", R.show(o))
    route = R.show(c01) if c01 else ("entry %s" % own.get("pos") if own and own.get("code") == 0 else "none (%s)" % (own or {}).get("code"))
    if clause == "i":
        w += "the client is denied by a filter applying to the request (route per routing rules: %s)" % route
    elif clause == "iii":
        w += ("the client is denied by the filter of a host-matching rule ahead of its route (%s) and the same server without "
              "route cache answers %s: the refusal depends on the cache / on earlier requests" % (route, R.show(z)))
    else:
        w += "the client is allowed by every filter, the filter-less twin answers %s, the routing rules say %s" % (R.show(z), route)
    if cul:
        w += "; after earlier request %s" % R.show_req(cul[0])
    return w


def _mbt(ctx):
    nb = 800 if ctx.quick else 8000
    depth = 30 if ctx.quick else 40
    nreq = 7 if ctx.quick else 10
    behs = []
    # the general universe and four focused ones; the fourth: a filtered rule that the request's host matches but that
    # has no entry for it, ahead of the rule owning the route (C05 (iii))
    for k, (share, reqs, templates, shells, sfs, plans) in enumerate((
            (0.2, "C12SimReqsVia", "C12SimTemplates", "C12SimShells", "C12SimServerFilters", "PlansC12"),
            (0.15, "C12ReqsAVia", "C12HdrFocus", "C12Shells", "C12ServerFilters", "PlansHdrFocus"),
            (0.2, "C12SimReqsVia", "C12FilterFocus", "C12SimShells", "C12SimServerFilters", "PlansFilterFocus"),
            (0.2, "C05FocusReqsVia", "C12FilterFocus", "C05FocusShells", "C12SimServerFilters", "PlansFilterFocus"),
            (0.25, "C12ReqsAVia", "C12RuleFocus", "C12FocusShells", "C12NoServerFilter", "PlansRuleFocus"))):
        behs += ctx.tlc_simulate("HttpRouter_Gen", R.gen_cfg(reqs, nreq, True, templates, shells, sfs, plans, twin=True),
                                 num=int(nb * share), depth=depth, timeout=1200, seed=ctx.seed * 10 + k)
    behs = [b for b in behs if b and b[0].get("a") == "cfg" and len(b) > 1]
    if len(behs) < nb // 2:
        ctx.inconclusive("C05: TLC produced only %d usable behaviours" % len(behs))
    inp = ctx.path("c05_behs.ndjson")
    with open(inp, "w") as fh:
        for b in behs:
            fh.write(jdump(b) + "\n")
    outp = ctx.path("c05_replay.ndjson")
    rc, out = ctx.go_test(R.PKG, "^TestVerifC05Replay$", env={"VERIF_IN": inp, "VERIF_OUT": outp}, timeout=1200)
    recs = ctx.read_ndjson(outp)
    summ = [x for x in recs if x.get("k") == "summary"]
    if rc != 0 or not summ:
        ctx.inconclusive("C05 replay harness failed:\n" + out[-3000:])
    s = summ[0]
    if s["rejected"]:
        ctx.inconclusive("C05: %d TLC-generated configurations were rejected by easegress' validation" % s["rejected"])
    if s["denied"] < s["steps"] // 20 or s["allowed"] < s["steps"] // 20 or s["passed"] < s["steps"] // 100:
        ctx.inconclusive("C05 replay is vacuous: %d requests, %d denied, %d allowed everywhere, %d denied by a passed-over rule only" % (
            s["steps"], s["denied"], s["allowed"], s["passed"]))
    vias = {}
    for b in behs:
        for st in b[1:]:
            if st.get("a") == "req":
                v = st["q"].get("via", "remote")
                vias[v] = vias.get(v, 0) + 1
                if st["den"]:
                    vias["denied/" + v] = vias.get("denied/" + v, 0) + 1
    if any(vias.get("denied/" + v, 0) == 0 for v in VIAS):
        ctx.inconclusive("C05 replay is vacuous: denied clients do not arrive in every way %s: %s" % (VIAS, vias))
    ctx.evals(s["steps"])
    ctx.traces(len(behs))
    ctx.notes.append({"replay_requests": s["steps"], "denied_by_applying_filter": s["denied"], "allowed_everywhere": s["allowed"],
                      "denied_by_passed_over_rule_only": s["passed"], "via": vias})
    for b in behs:
        cfg = b[0]["cfg"]
        for st in b[1:]:
            if st.get("a") == "req" and (st["den"] or not st["all"]):
                if st.get("amb"):
                    ctx.nontrivial({"amb": True, "own": st["own"]["code"], "exp": R.kind(st["exp"])})
                own = st["own"]
                lvl = {"srv": cfg["ipf"]["on"]}
                if own["code"] == 0:
                    lvl["rule"] = cfg["rules"][own["pos"][0] - 1]["ipf"]["on"]
                    lvl["path"] = cfg["rules"][own["pos"][0] - 1]["paths"][own["pos"][1] - 1]["ipf"]["on"]
                ctx.nontrivial({"den": st["den"], "lvl": lvl, "own": own["code"], "exp": R.kind(st["exp"])})
    first = next(st for st in behs[0][1:] if st.get("a") == "req")
    ctx.sample({"kind": "tlc-behaviour-step", "q": R.show_req(first["q"]), "denied": first["den"], "allowed_everywhere": first["all"],
                "reference": R.show(first["exp"])})
    hit = {}
    for m in [x for x in recs if x.get("k") == "mismatch"]:
        sig = _sig(m["clause"], m["cache"], m["q"], m.get("cul"), m.get("own"), m.get("cown"), m["exp"], m["o"])
        hit[jdump(sig)] = hit.get(jdump(sig), 0) + 1
        ctx.violation(sig, _what(m["clause"], m["cache"], m["q"], m["o"], m["ou"] if m["clause"] == "iii" else m["z"], m["c01"],
                                 m.get("cul"), m.get("own")), m)
    ctx.notes.append({"replay_c05_failures": hit})


def _tv(ctx):
    ncfg, nreq = (150, 40) if ctx.quick else (1200, 60)
    raw = ctx.path("c05_trace_raw.ndjson")
    rc, out = ctx.go_test(R.PKG, "^TestVerifC05Trace$", env={"VERIF_OUT": raw, "VERIF_N": ncfg, "VERIF_REQS": nreq}, timeout=1200)
    tp, ev, other = R.split_trace(ctx, raw, "c05_trace.ndjson")
    ncfgs = sum(1 for e in ev if e["ev"] == "cfg")
    if rc != 0 or ncfgs < ncfg:
        ctx.inconclusive("C05 trace harness failed (%d configurations):\n%s" % (ncfgs, out[-3000:]))
    reqs = [e for e in ev if e["ev"] == "req"]
    n403 = sum(1 for e in reqs if e["ou"]["code"] == 403)
    nbe = sum(1 for e in reqs if e["ou"]["code"] == 0)
    vias = {}
    for e in reqs:
        vias[e["q"].get("via", "remote")] = vias.get(e["q"].get("via", "remote"), 0) + 1
        if e["ou"]["code"] in (0, 403):
            ctx.nontrivial({"tv": e["ou"]["code"], "via": e["q"].get("via"), "fam": e["q"]["ip"]["fam"], "z": R.kind(e["zu"])})
    ctx.notes.append({"tv_requests": len(reqs), "tv_403": n403, "tv_dispatched": nbe, "tv_via": vias})
    # (the outcome counts come from the real code: they are looked at after the trace has been judged, so that code which
    # refuses nobody - or everybody - is reported as violating and not as a vacuous run)
    vacuous = None
    if n403 < len(reqs) // 25 or nbe < len(reqs) // 25 or any(vias.get(v, 0) < len(reqs) // 100 for v in VIAS):
        vacuous = "C05 trace is vacuous: %d requests, %d refused with 403, %d dispatched, via %s" % (len(reqs), n403, nbe, vias)
    bad = R.validate_chunks(ctx, ev, "c05_tv", chunk=2500 if ctx.quick else 6000)
    ctx.evals(len(reqs))
    ctx.traces(ncfgs)
    ctx.sample({"kind": "recorded-trace-line", "q": R.show_req(reqs[0]["q"]), "filters": R.show(reqs[0]["ou"]), "twin": R.show(reqs[0]["zu"])})
    hit = {}
    for idx, rec in sorted(bad.items()):
        e = ev[idx]
        cfg = R.cfg_of_line(ev, idx)
        c01 = None
        for cache, ok, o, z in ((False, rec.get("c5u"), e["ou"], e["zu"]), (True, rec.get("c5c"), e["oc"], e["zc"])):
            if ok:
                continue
            code = o["code"]
            clause = "i" if rec["den"] and (code < 400 or code > 499 or (rec["own"]["code"] == 0 and code != 403)) else "ii"
            if cache and rec.get("amb") and (code == 0) != (e["ou"]["code"] == 0):
                clause, z = "iii", e["ou"]
            sig = _sig(clause, cache, e["q"], e.get("cul"), rec.get("own"), rec.get("cown"), rec["exp"], o)
            hit[jdump(sig)] = hit.get(jdump(sig), 0) + 1
            ctx.violation(sig, _what(clause, cache, e["q"], o, z, rec["exp"] if rec["all"] else None, e.get("cul"), rec.get("own")),
                          {"cfg": cfg, "q": e["q"], "observed": o, "twin": z, "contract": rec, "culprit": e.get("cul")})
    ctx.notes.append({"trace_c05_failures": hit})
    if vacuous:
        ctx.inconclusive(vacuous)

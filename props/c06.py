"""C06 - Validator admits exactly requests with valid JWT / signature / Basic credentials (DESIGN 5/C06).

Phases (VERIF_PHASES=enum,clock,etcd,file,reconf,go,mbt,tv):
  enum   TLC enumerates every (configuration, request record) vector of specs/Validator_Gen.tla with the contract's
         prediction, checking on the way the contract's theorems (single-mutation theorem, closure of the vector set)
  clock  TLC model-checks the temporal part (exp / nbf against an advancing clock) and generates clock behaviours
  etcd   TLC model-checks the credential-table part (ETCD mode: snapshots remove users / change passwords / empty the
         table between presentations) and generates such behaviours
  file   TLC model-checks the user-file part (FILE mode: the htpasswd file is edited between presentations, one to three edits in a
         row before the source settles) and generates such behaviours; the harness edits the real file (in place, appended, in
         chunks), twice or more in quick succession, grants the validator's file watcher a bounded wait (see the harness: a probe
         user written last into the file becomes valid, or 10 s pass; re-checked in a fresh world) and presents the request again
  reconf TLC model-checks the hot-update part (Reconfigure: a new generation is built from a new spec with Inherit: JWT secret
         rotated / algorithm changed, access keys removed / re-keyed, Basic users changed, methods dropped and added) and
         generates such behaviours (accepted -> hot update -> the same request again)
  go     the harness concretises every vector >= 3 times on the real Validator through the server path (Basic credentials: three
         users - plain password, password with ':', password beginning / ending with white space and name ending with white space -
         and, among the presented classes, credentials that differ from configured ones only by leading / trailing ASCII or Unicode
         white space, in both directions: padded / userPadded / trimmed)
  mbt    observed result vs. the prediction carried by the vector
  tv     the logged cases (plus randomly composed ones that carry no prediction) validated as a trace by TLC
"""
import json
import os
import random
from concurrent.futures import ThreadPoolExecutor

from lib.vlib import jdump, sha

PKG = "pkg/filters/validator"
METHODS = ("hdr", "jwt", "sig", "basic")
PARTS = ("method", "path", "pathenc", "query", "sheader", "iheader", "body", "sig")
TAGS = {"hdr": "header validator: ", "jwt": "JWT validator: ", "sig": "signature validator: ", "basic": "http basic validator: "}

INVS = ("OnlyIfAllAccept Complete RejectShape AcceptShape SingleMutationRejected IatNeverRescues NotBeforeNbf NeverAfterExp "
        "OnlyCurrentCredentials EmptyTableRejectsAll OnlyCurrentSecret OnlyCurrentAccessKeys NoAnonymousSigner RepairedImplRefines")

# the user-file part: the theorems that talk about the Basic method (the others are proved in the other parts, on other requests)
FILE_INVS = "OnlyIfAllAccept Complete RejectShape AcceptShape OnlyCurrentCredentials EmptyTableRejectsAll RepairedImplRefines"

def _consts(mode, now0, maxpresent, maxsync, full=False, maxreconf=0, maxedit=0):
    return ("CONSTANTS\n  Cfgs <- GenCfgs\n  Reqs <- GenReqs\n  Recfgs <- GenRecfgs\n  Now0 = %d\n  MaxNow = 4\n  MaxPresent = %d\n"
            "  MaxSync = %d\n  MaxReconf = %d\n  MaxEdit = %d\n  Full = %s\n  Mode = \"%s\"\n" % (now0, maxpresent, maxsync, maxreconf, maxedit,
                                                                                                "TRUE" if full else "FALSE", mode))


def enum_cfg(full):
    return "SPECIFICATION GSpec\n" + _consts("enum", 4, 1, 0, full) + "INVARIANTS %s MutantsEnumerated\n" % INVS


def clock_cfg(spec, maxpresent, props=True):
    return "SPECIFICATION %s\n" % spec + _consts("clock", 0, maxpresent, 0) + \
           ("VIEW view\nINVARIANTS %s\nPROPERTIES AcceptedThenExpired\n" % INVS if props else "")


def etcd_cfg(spec, maxpresent, maxsync, props=True):
    return "SPECIFICATION %s\n" % spec + _consts("etcd", 4, maxpresent, maxsync) + \
           ("VIEW view\nINVARIANTS %s\nPROPERTIES AcceptedThenRevoked\n" % INVS if props else "")


def file_cfg(spec, maxpresent, maxedit, props=True):
    return "SPECIFICATION %s\n" % spec + _consts("file", 4, maxpresent, 0, maxedit=maxedit) + \
           ("VIEW view\nINVARIANTS %s\nPROPERTIES AcceptedThenRevoked\n" % FILE_INVS if props else "")


def reconf_cfg(spec, maxpresent, maxreconf, maxsync=0, props=True):
    return "SPECIFICATION %s\n" % spec + _consts("reconf", 4, maxpresent, maxsync, maxreconf=maxreconf) + \
           ("VIEW view\nINVARIANTS %s\nPROPERTIES AcceptedThenRotated AcceptedThenRevoked\n" % INVS if props else "")


TRACE_CFG = ("SPECIFICATION TSpec\nCONSTANTS\n  Cfgs = {}\n  Reqs <- NoReqs\n  Recfgs <- NoRecfgs\n  Now0 = 0\n  MaxNow = 100000000\n  MaxPresent = 100000000\n"
             "  MaxSync = 100000000\n  MaxReconf = 100000000\n  MaxEdit = 100000000\n"
             "CONSTRAINT HWM\nPOSTCONDITION Accepted\nINVARIANTS TContract Final\n")


# ------------------------------------------------------------------------------------------ abstract records (python side)
NOMUT = {p: False for p in PARTS}
NOTOK = {"p": False, "key": "-", "alg": "-", "halg": "-", "nbf": -1, "exp": -1, "iat": "absent", "mut": "none"}
NOSG = {"p": False, "carrier": "-", "key": "-", "age": "-", "pexp": "-", "cexcl": False, "body": False, "mut": NOMUT}
NOBS = {"p": False, "user": "-", "ver": "v1", "pw": "-", "b64": True}
KNOWN_USERS = ("uPlain", "uColon", "uBlank")     # uBlank: password begins / ends with white space
USERS0 = {u: "v1" for u in KNOWN_USERS}
MAT0 = {"jsec": "k0", "aks": {"id0": "v1", "id1": "v1"}}
SGCRED = {"id0": ("id0", "v1"), "id1": ("id1", "v1"), "id0v2": ("id0", "v2"), "id1v2": ("id1", "v2")}
SGKEYS_BAD = ["id0wrongsecret", "unknown", "noid", "noidsecret", "id0nosecret", "id0v2", "id1v2"]


def random_behaviours(rng, nb, per):
    """randomly composed configurations and requests (full product of the per-method records): they carry no
    prediction; TLC judges them against the contract in the trace validation"""
    algs = ["HS256", "HS384", "HS512"]

    def tok(c):
        if rng.random() < 0.5:   # mostly plausible tokens, so that acceptance is exercised
            return {"p": True, "key": "k0", "alg": c["jwt"]["alg"], "halg": c["jwt"]["alg"],
                    "nbf": rng.choice([-1, 2, 4]), "exp": rng.choice([-1, 6, 5]), "iat": rng.choice(["absent", "past", "past", "future"]),
                    "mut": "none"}
        a = rng.choice(algs + ["none"])
        return {"p": True, "key": rng.choice(["k0", "k0", "k1"]), "alg": a, "halg": rng.choice([a, a, rng.choice(algs + ["none"])]),
                "nbf": rng.choice([-1, 2, 4, 5]), "exp": rng.choice([-1, 6, 3, 4]), "iat": rng.choice(["absent", "past", "future"]),
                "mut": rng.choice(["none", "none", "payload", "sig"])}

    def sg(c, carrier):
        good = rng.random() < 0.5
        mut = dict(NOMUT)
        if not good or rng.random() < 0.3:
            for p in rng.sample(PARTS, rng.choice([1, 1, 2])):
                mut[p] = True
        age = "fresh" if good else rng.choice(["fresh", "tooOld", "future"])
        pexp = "-" if carrier == "header" else ("live" if good or age == "future" else rng.choice(["live", "expired"]))
        return {"p": True, "carrier": carrier, "key": rng.choice(["id0", "id1"]) if good else rng.choice(["id0", "id1"] + SGKEYS_BAD),
                "age": age, "pexp": pexp, "cexcl": c["sig"]["excl"] if rng.random() < 0.9 else not c["sig"]["excl"],
                "body": rng.random() < 0.5, "mut": mut}

    def bs():
        if rng.random() < 0.5:
            return {"p": True, "user": rng.choice(KNOWN_USERS), "ver": "v1", "pw": "right", "b64": True}
        u = rng.choice(KNOWN_USERS + ("unknown",))
        pw = rng.choice(["wrong", "userPadded"]) if u == "unknown" else \
            rng.choice(["right", "wrong", "rightColonX", "empty", "nocolon", "padded", "padded", "userPadded"] +
                       (["prefix"] if u == "uColon" else []) + (["trimmed", "trimmed"] if u == "uBlank" else []))
        return {"p": True, "user": u, "ver": "v1" if u == "unknown" else rng.choice(["v1", "v1", "v2"]), "pw": pw, "b64": rng.random() < 0.8}

    behs = []
    while len(behs) < nb:
        c = {"hdr": rng.choice(["off", "off", "values", "regexp", "both"]),
             "jwt": {"on": rng.random() < 0.5, "alg": rng.choice(algs), "cookie": rng.random() < 0.5},
             "sig": {"on": rng.random() < 0.5, "ttl": rng.random() < 0.5, "excl": rng.random() < 0.5},
             "basic": rng.choice(["off", "off", "file", "etcd", "nomode"])}
        if not c["jwt"]["on"]:
            c["jwt"].update(alg="HS256", cookie=False)
        if not c["sig"]["on"]:
            c["sig"].update(ttl=False, excl=False)
        if c["hdr"] == "off" and not c["jwt"]["on"] and not c["sig"]["on"] and c["basic"] == "off":
            continue
        beh = [{"a": "init", "cfg": c, "now": 4}]
        last = None
        for _ in range(per):
            r = {"hv": [], "auth": "none", "tok": NOTOK, "ck": NOTOK, "sg": NOSG, "bs": NOBS}
            if c["hdr"] != "off" or rng.random() < 0.2:
                good = {"values": "inValues", "regexp": "matchRe", "both": rng.choice(["inValues", "matchRe"]), "off": "neither"}[c["hdr"]]
                r["hv"] = [good if rng.random() < 0.75 else rng.choice(["inValues", "matchRe", "neither"]) for _ in range(rng.choice([0, 1, 1, 1, 2]))]
            if c["jwt"]["on"] and rng.random() < 0.6 or rng.random() < 0.1:
                r["ck"] = tok(c)
            want = [m for m in ("jwt", "sig", "basic") if (c[m]["on"] if m != "basic" else c[m] != "off")]
            kind = rng.choice(want + ["none", "other"]) if want else rng.choice(["none", "other", "jwt", "basic"])
            if kind == "jwt":
                r["auth"], r["tok"] = "bearer", tok(c)
            elif kind == "basic":
                r["auth"], r["bs"] = "basic", bs()
            elif kind == "sig":
                if rng.random() < 0.6:
                    r["auth"], r["sg"] = "sig", sg(c, "header")
                else:
                    r["sg"] = sg(c, "query")
            elif kind == "other":
                r["auth"] = "other"
            if r["auth"] != "sig" and not r["sg"]["p"] and c["sig"]["on"] and rng.random() < 0.5:
                r["sg"] = sg(c, "query")
            if c["basic"] == "etcd" and rng.random() < 0.25:
                beh.append({"a": "sync", "users": {u: rng.choice(["v1", "v1", "v2", "gone"]) for u in KNOWN_USERS}})
            if c["basic"] == "file" and rng.random() < 0.3:
                # the user file edited once or several times in a row; mostly the source then settles before the next request
                for _ in range(rng.choice([1, 2, 2, 3])):
                    beh.append({"a": "edit", "users": {u: rng.choice(["v1", "v1", "v2", "gone"]) for u in KNOWN_USERS}})
                if rng.random() < 0.8:
                    beh.append({"a": "settle"})
                if last is not None and rng.random() < 0.6:
                    beh.append({"a": "present", "req": last})
            if rng.random() < 0.12 and c["basic"] != "nomode":
                # hot update: same methods, new material (the request generator above keeps using the first generation's
                # classes, so about half of the credentials stop / start being valid)
                c = json.loads(json.dumps(c))
                if c["jwt"]["on"]:
                    c["jwt"]["alg"] = rng.choice(algs)
                aks = {i: rng.choice(["v1", "v1", "v2", "gone"]) for i in ("id0", "id1")}
                if all(v == "gone" for v in aks.values()):
                    aks["id1"] = "v2"
                beh.append({"a": "reconf", "cfg": c, "mat": {"jsec": rng.choice(["k0", "k0", "k1"]), "aks": aks},
                            "users": {u: rng.choice(["v1", "v1", "v2", "gone"]) for u in KNOWN_USERS}})
                if last is not None and rng.random() < 0.7:
                    beh.append({"a": "present", "req": last})     # an earlier request again, after the hot update
            beh.append({"a": "present", "req": r})
            if rng.random() < 0.3:
                last = r
            if c["basic"] == "file" and rng.random() < 0.3:
                beh.append({"a": "settle"})
        behs.append(beh)
    return behs


# ------------------------------------------------------------------------------------------ signatures of violations
def _time_class(t, now):
    if not t["p"]:
        return "-"
    if t["nbf"] != -1 and now < t["nbf"]:
        return "notYet"
    if t["exp"] != -1 and now > t["exp"]:
        return "expired"
    if t["exp"] != -1 and now == t["exp"]:
        return "atExp"
    return "noClaims" if t["exp"] == -1 and t["nbf"] == -1 else "valid"


def _sg_known(key, mat):
    c = SGCRED.get(key)
    return bool(c) and mat["aks"][c[0]] == c[1]


def why_bad(m, cfg, req, now, users, mat=MAT0):
    """the conjuncts of the method's validity that fail, as a '+'-joined string (mirrors Validator.tla; used only to
    name the class of a violation, never to decide one)"""
    w = []
    if m == "hdr":
        ok = {"values": {"inValues"}, "regexp": {"matchRe"}, "both": {"inValues", "matchRe"}}.get(cfg["hdr"], set())
        w = ["absent"] if not req["hv"] else ["value:" + c for c in req["hv"] if c not in ok]
    elif m == "jwt":
        use_ck = cfg["jwt"]["cookie"] and req["ck"]["p"]
        toks = ([req["ck"]] if use_ck else []) + ([req["tok"]] if req["auth"] == "bearer" else [])
        if not toks:
            w = ["absent"]
        for t in toks:
            w += (["key"] if t["key"] != mat["jsec"] else []) + (["alg"] if t["alg"] != cfg["jwt"]["alg"] else []) + \
                 (["halg"] if t["halg"] != cfg["jwt"]["alg"] else []) + (["mut:" + t["mut"]] if t["mut"] != "none" else []) + \
                 (["time:" + _time_class(t, now)] if _time_class(t, now) in ("notYet", "expired") else []) + \
                 (["iat:future"] if t["iat"] == "future" else [])
    elif m == "sig":
        s = req["sg"]
        if not s["p"]:
            return "absent"
        covered = [p for p in PARTS if p not in ("iheader",) + (("body",) if cfg["sig"]["excl"] else ())]
        w = (["key:" + s["key"]] if not _sg_known(s["key"], mat) else []) + \
            (["age:" + s["age"]] if cfg["sig"]["ttl"] and s["age"] != "fresh" else []) + \
            (["pexp"] if s["carrier"] == "query" and s["pexp"] != "live" else []) + \
            ["mut:" + p for p in covered if s["mut"][p]] + (["cexcl"] if s["cexcl"] and not cfg["sig"]["excl"] else [])
    else:
        b = req["bs"]
        if cfg["basic"] == "nomode":
            w = ["nomode"]
        elif req["auth"] != "basic":
            w = ["absent"]
        else:
            w = (["user"] if b["user"] == "unknown" else (["table:" + users[b["user"]]] if users[b["user"]] != b["ver"] else [])) + \
                (["pw:" + b["pw"]] if b["pw"] != "right" else []) + ([] if b["b64"] else ["b64"])
    return "+".join(w)


def method_fields(m, cfg, req, now):
    """the small context that names the class of a request for method m"""
    if m == "hdr":
        return {"rule": cfg["hdr"], "hv": "+".join(req["hv"]) or "absent"}
    if m == "jwt":
        use_ck = cfg["jwt"]["cookie"] and req["ck"]["p"]
        t = req["ck"] if use_ck else req["tok"]
        both = use_ck and req["auth"] == "bearer"
        present = use_ck or req["auth"] == "bearer"
        return {"carrier": "both" if both else ("cookie" if use_ck else ("bearer" if present else "none")),
                "cookieCfg": cfg["jwt"]["cookie"], "time": _time_class(t, now) if present else "-", "iat": t["iat"] if present else "-"}
    if m == "sig":
        s = req["sg"]
        if not s["p"]:
            return {"carrier": "none", "auth": req["auth"]}
        return {"carrier": s["carrier"], "body": s["body"], "excl": cfg["sig"]["excl"], "cexcl": s["cexcl"],
                "mut": "+".join(p for p in PARTS if s["mut"][p]) or "none", "auth": req["auth"]}
    b = req["bs"]
    return {"mode": cfg["basic"], "user": b["user"], "pw": b["pw"]} if req["auth"] == "basic" else {"mode": cfg["basic"], "auth": req["auth"]}
    # (the state of the user table is part of `why` when it is the reason: "table:gone", "table:v2")


def signatures(case, exp, v):
    """list of (sig, what) for a case whose observation the contract (verdict exp, per-method v) does not allow"""
    cfg, req, now, res, users = case["cfg"], case["req"], case["now"], case["res"], case.get("users") or USERS0
    mat, gen = case.get("mat") or MAT0, case.get("gen", 0)
    hot = {"gen": "inherited"} if gen else {}     # the filter instance was built with Inherit from a running one
    if cfg["basic"] == "file" and case.get("edits"):   # the user file has been edited since the first generation was built
        hot["src"] = "edited-file" if case.get("settled") else "file-being-edited"
        if case.get("afterReplace") and case.get("settled"):
            # the file was REPLACED (new file renamed over it) and then edited again, in whatever way, and left alone
            hot["src"] = "replaced-file"
    out = []
    if case.get("panic"):
        return [({"kind": "panic", "site": case["panic"][:80]}, "Validator.Handle panicked: %s" % case["panic"][:200])]
    if not res["acc"] and res["status"] not in (400, 401):
        out.append(({"kind": "shape", "what": "status", "status": res["status"], "result": case.get("result")},
                    "rejected with result %r and status %s (expected invalid and 400/401)" % (case.get("result"), res["status"])))
    elif res["acc"] and not (res["status"] == 0 and res["intact"]):
        out.append(({"kind": "shape", "what": "accept", "status": res["status"], "intact": res["intact"]},
                    "accepted, but a response was prepared or the payload to be forwarded differs from the one received"))
    if exp == "reject" and res["acc"]:
        for m in METHODS:
            if v.get(m) == "bad":
                f = dict(method_fields(m, cfg, req, now), why=why_bad(m, cfg, req, now, users, mat), **hot)
                out.append((dict(kind="false-accept", method=m, **f),
                            "request accepted although the %s method must reject it (%s)" % (m, jdump(f))))
    elif exp == "accept" and not res["acc"]:
        blamed = [m for m in METHODS if TAGS[m] in (case.get("tag") or "")]
        m = blamed[0] if len(blamed) == 1 else "?"
        f = dict(method_fields(m, cfg, req, now) if m != "?" else {"tag": case.get("tag")}, **hot)
        out.append((dict(kind="false-reject", method=m, **f),
                    "request with valid credentials for every configured method rejected by the %s method: %s (%s)" % (m, case.get("tag"), jdump(f))))
    return out


def _allowed(exp, res):
    return exp == "free" or (exp == "accept") == bool(res["acc"])


def _impl_layer(ctx, vectors, cases):
    """Bookkeeping for the implementation-shaped layer (never a verdict): the vectors on which TLC finds the PINNED model
    of Handle leaving the contract are design-level leads; they count as defects only through the real code (above).
    Also measures how faithfully the two models (pinned / repaired) describe the code that was actually run."""
    leads = {jdump([v["cfg"], v["req"]]) for v in vectors
             if v["cfg"]["basic"] != "nomode" and not _allowed(v["exp"], v["impl"]["pinned"])}
    repro, agree_p, agree_r, neither, n = set(), 0, 0, 0, 0
    for c in cases:
        if not c.get("impl") or not c.get("settled", True):
            continue
        n += 1
        obs = (c["res"]["acc"], c["res"]["status"])
        p = obs == (c["impl"]["pinned"]["acc"], c["impl"]["pinned"]["status"])
        r = obs == (c["impl"]["repaired"]["acc"], c["impl"]["repaired"]["status"])
        agree_p += p
        agree_r += r
        neither += not (p or r)
        k = jdump([c["cfg"], c["req"]])
        if k in leads and not _allowed(c["exp"], c["res"]):
            repro.add(k)
    ctx.cov["impl_layer"] = {"leads_from_refinement_check": len(leads), "leads_reproduced_on_real_code": len(repro),
                             "cases": n, "agree_with_pinned_model": agree_p, "agree_with_repaired_model": agree_r,
                             "agree_with_neither": neither}
    ctx.log("impl layer: TLC refinement leads on the pinned model: %d vectors, reproduced on the real code: %d; "
            "observations matching pinned/repaired/neither model: %d/%d/%d of %d" % (len(leads), len(repro), agree_p, agree_r, neither, n))
    if neither:
        ctx.notes.append("implementation-shaped layer differs from the code on %d cases (model drift, not a verdict)" % neither)


def _vacuity(ctx, cases):
    """Coverage of the run measured on what the CONTRACT predicts for the executed cases (never on what the code did: a
    defect must not be able to turn a violation into 'vacuous'). Called after the verdict-bearing phases."""
    pred = [c for c in cases if c.get("exp")]
    for m in METHODS if ctx.phase("enum") else ():
        na = sum(1 for c in pred if c["v"][m] == "ok" and c["exp"] == "accept")
        nr = sum(1 for c in pred if c["v"][m] == "bad")
        if na < 10 or nr < 10:
            return "method %s: %d must-accept / %d must-reject cases executed" % (m, na, nr)
    nm = sum(1 for c in cases if c["mutations"])
    last, flips, revoked, readmit, empty = {}, 0, 0, 0, 0
    fe = {"revoked": 0, "revoked_burst": 0, "readmit": 0, "readmit_burst": 0, "unsettled_bad": 0, "unsettled_free": 0, "after_replace": 0}
    rot = {"jwt": 0, "sig": 0, "basic": 0, "readmit": 0, "same": 0}
    for c in pred:
        k = (c["beh"], c["rep"], jdump(c["req"]))
        was = last.get(k)
        if was and was[0] == "accept" and c["exp"] == "reject":
            flips += c["now"] > was[1]
            if c["users"] != was[2] and c["gen"] == was[3]:
                revoked += 1
                empty += all(v == "gone" for v in c["users"].values())
                if c["cfg"]["basic"] == "file" and c.get("settled"):
                    fe["revoked"] += 1
                    fe["revoked_burst"] += c.get("lastBurst", 0) >= 2
            if c["gen"] > was[3]:      # accepted by an earlier generation, must be rejected by this one: by which method
                for m in ("jwt", "sig", "basic"):
                    rot[m] += c["v"][m] == "bad"
        if was and was[0] == "reject" and c["exp"] == "accept" and c["users"] != was[2] and c["gen"] == was[3]:
            readmit += 1
            if c["cfg"]["basic"] == "file" and c.get("settled"):
                fe["readmit"] += 1
                fe["readmit_burst"] += c.get("lastBurst", 0) >= 2
        if c["cfg"]["basic"] == "file" and c.get("settled") and c.get("afterReplace"):
            fe["after_replace"] += 1
        if c["cfg"]["basic"] == "file" and not c.get("settled", True):
            fe["unsettled_bad" if c["v"]["basic"] == "bad" else "unsettled_free"] += 1
        if was and c["gen"] > was[3] and c["exp"] == "accept":
            rot["readmit" if was[0] == "reject" else "same"] += 1
        last[k] = (c["exp"], c["now"], c["users"], c["gen"])
    ctx.log("coverage (predicted): %d post-signing mutations, %d tokens accepted then expired, %d credentials accepted then revoked by a "
            "snapshot (%d: empty table), %d admitted after a snapshot" % (nm, flips, revoked, empty, readmit))
    ctx.log("coverage (predicted), hot updates: accepted by one generation then to be rejected by the next: jwt %(jwt)d, signature %(sig)d, "
            "basic %(basic)d; rejected then to be admitted: %(readmit)d; admitted before and after: %(same)d" % rot)
    ctx.log("coverage (predicted), user file: accepted then revoked by edits and settled: %(revoked)d (%(revoked_burst)d after two or more edits in a "
            "row); rejected then admitted: %(readmit)d (%(readmit_burst)d); presented while the file was being edited: %(unsettled_bad)d must-reject, "
            "%(unsettled_free)d open; presented after the file had been replaced (rename) and edited again: %(after_replace)d" % fe)
    ctx.cov["user_file_edits"] = fe
    if ctx.phase("file") and fe["after_replace"] < 3 and not ctx.known_hits:
        return "user file: only %d cases after a replaced file was edited again" % fe["after_replace"]
    if ctx.phase("file") and (fe["revoked_burst"] < 5 or fe["readmit_burst"] < 3 or fe["revoked"] - fe["revoked_burst"] < 1):
        return "user file: %s" % jdump(fe)
    if ctx.phase("reconf") and (min(rot["jwt"], rot["sig"], rot["basic"]) < 5 or rot["readmit"] < 5 or rot["same"] < 5):
        return "hot updates: %s" % jdump(rot)
    nk = sum(1 for c in pred if c["req"]["sg"]["p"] and c["req"]["sg"]["key"] in ("noid", "noidsecret", "id0nosecret") and c["cfg"]["sig"]["on"])
    if ctx.phase("enum") and nk < 20:
        return "only %d signatures with an empty access key id / empty secret executed" % nk
    # credentials that differ from configured ones by leading / trailing white space only (must be rejected), and the
    # credentials of the user whose configured password / name really has white space at its ends (must be accepted)
    ws_rej = sum(1 for c in pred if c["req"]["auth"] == "basic" and c["req"]["bs"]["pw"] in ("padded", "userPadded", "trimmed")
                 and c["req"]["bs"]["b64"] and c["cfg"]["basic"] in ("file", "etcd") and c["v"]["basic"] == "bad")
    ws_acc = sum(1 for c in pred if c["req"]["auth"] == "basic" and c["req"]["bs"]["user"] == "uBlank" and c["v"]["basic"] == "ok"
                 and c["exp"] == "accept")
    ctx.log("coverage (predicted), white space: %d credentials differing by white space at the ends only, %d accepted credentials "
            "with white space at their ends" % (ws_rej, ws_acc))
    if ctx.phase("enum") and (ws_rej < 30 or ws_acc < 6):
        return "white space in Basic credentials: %d must-reject / %d must-accept cases executed" % (ws_rej, ws_acc)
    if nm < 100 or (ctx.phase("clock") and flips < 5) or (ctx.phase("etcd") and (revoked < 5 or readmit < 3 or empty < 1)):
        return "%d post-signing mutations, %d accepted-then-expired tokens, %d accepted-then-revoked credentials (%d by an empty table), " \
               "%d admitted after a snapshot" % (nm, flips, revoked, empty, readmit)
    return None


# ------------------------------------------------------------------------------------------
def run(ctx):
    ctx.cov["rule"] = ("vectors = all (configuration, credential-record) states of the contract enumerated by TLC (-dump), each concretised "
                       ">= 3 times with seeded data on the real Validator through wire format + httpprot.NewRequest + FetchPayload; "
                       "clock / credential-snapshot / hot-update (Inherit) behaviours generated by TLC replayed the same way; "
                       "traces = behaviours replayed (one per configuration instance) and validated by TLC against the contract; "
                       "non-trivial = distinct abstract (cfg, request) classes with at least one enabled method, evaluated on the real code")
    ctx.assumptions += ["MAC strength, golang-jwt and go-htpasswd are trusted; TLA+ sees 'signed with key k over parts S, then part p mutated'",
                        "JWT clock through jwt.TimeFunc; the signature TTL uses time.Now() in the code: signing times are chosen >= 20 minutes "
                        "away from the 10 minute TTL boundary, presign expiry >= 1 minute away",
                        "OAuth2 (remote introspection) is outside the property",
                        "FILE mode: 'the bounded time' after which only the current content of the user file counts is decided by the harness: a probe "
                        "user written as the last line by the last edit is admitted by the BasicAuthValidator, or 10 s have passed (20 s in the "
                        "fresh-world re-check); edits keep the inode (truncate / append / chunked writes), as htpasswd(1) does; in one of six behaviour "
                        "instances half of the edits replace the file (temporary file renamed over it)",
                        "a hot update is one atomic step for requests (the pipeline swaps the generation); the harness builds the new generation "
                        "with kind.CreateInstance + Inherit(running one) and then closes the old one, as pipeline.reload does",
                        "outcomes the property leaves open (token exactly at exp, cookie and bearer token disagreeing, multi-valued ruled "
                        "header with mixed values, presigned query next to a foreign Authorization header) are 'free' in the contract"]
    full = not ctx.quick
    vectors, clock_behs, etcd_behs, reconf_behs, file_behs = [], [], [], [], []

    # the TLC work (independent runs) in four lanes side by side
    def lane_enum_clock():
        if ctx.phase("enum"):
            recs = ctx.tlc_dump("Validator_Gen", enum_cfg(full), label="enumeration of cfg x request vectors + contract theorems",
                                timeout=1500)
            seen = set()
            for r in recs:
                if r.get("a") != "present":
                    continue
                k = jdump(r)
                if k not in seen:
                    seen.add(k)
                    vectors.append(r)
            if len(vectors) < 1000:
                ctx.inconclusive("enumeration produced only %d vectors" % len(vectors))
            ctx.log("enumerated %d vectors (%d must-accept, %d must-reject, %d free)" % (
                len(vectors), sum(v["exp"] == "accept" for v in vectors), sum(v["exp"] == "reject" for v in vectors),
                sum(v["exp"] == "free" for v in vectors)))
        if ctx.phase("clock"):
            r = ctx.tlc_mc("Validator_Gen", clock_cfg("MSpec", 2 if ctx.quick else 3), label="clock: exp/nbf temporal theorems", timeout=1200)
            ctx.log("clock part model checked: %d distinct states" % r.distinct)
            clock_behs.extend(ctx.tlc_simulate("Validator_Gen", clock_cfg("CSpec", 6, props=False), num=400 if ctx.quick else 1000, depth=11))

    def lane_etcd():
        if ctx.phase("etcd"):
            r = ctx.tlc_mc("Validator_Gen", etcd_cfg("MSpec", 2 if ctx.quick else 3, 2), label="etcd: credential snapshots, temporal theorems", timeout=1200)
            ctx.log("etcd part model checked: %d distinct states" % r.distinct)
            etcd_behs.extend(ctx.tlc_simulate("Validator_Gen", etcd_cfg("CSpec", 5, 4, props=False), num=250 if ctx.quick else 800, depth=10))

    def lane_reconf():
        if ctx.phase("reconf"):
            r = ctx.tlc_mc("Validator_Gen", reconf_cfg("RSpec", 2 if ctx.quick else 3, 1, maxsync=0 if ctx.quick else 1),
                           label="reconf: hot updates (Inherit), temporal theorems", timeout=1500)
            ctx.log("hot-update part model checked: %d distinct states" % r.distinct)
            reconf_behs.extend(ctx.tlc_simulate("Validator_Gen", reconf_cfg("CSpec", 6, 3, maxsync=1, props=False),
                                                num=300 if ctx.quick else 900, depth=11))

    def lane_file():
        if ctx.phase("file"):
            r = ctx.tlc_mc("Validator_Gen", file_cfg("FSpec", 2, 2 if ctx.quick else 3), label="file: edits of the user file in a row, temporal theorems",
                           timeout=1200)
            ctx.log("user-file part model checked: %d distinct states" % r.distinct)
            file_behs.extend(ctx.tlc_simulate("Validator_Gen", file_cfg("CSpec", 6, 7, props=False), num=120 if ctx.quick else 500, depth=18))

    with ThreadPoolExecutor(4) as pool:
        lanes = [pool.submit(f) for f in (lane_enum_clock, lane_reconf, lane_etcd, lane_file)]
    for f in lanes:
        f.result()      # re-raises (inconclusive) in the main thread
    if not ctx.phase("go"):
        return

    # behaviours for the harness: enumerated vectors packed per configuration, clock behaviours, random compositions
    behs, preds = [], 0
    bycfg = {}
    for v in vectors:
        bycfg.setdefault(jdump(v["cfg"]), []).append(v)
    for k in sorted(bycfg):
        vs = bycfg[k]
        behs.append([{"a": "init", "cfg": vs[0]["cfg"], "now": vs[0]["now"]}] +
                    [{"a": "present", "req": v["req"], "exp": v["exp"], "v": v["v"], "impl": v["impl"]} for v in vs])
    behs += clock_behs + etcd_behs + reconf_behs + file_behs
    rng = random.Random(ctx.seed * 7919 + 6)
    nrand = (150, 12) if ctx.quick else (800, 14)
    behs += random_behaviours(rng, *nrand)
    inp = ctx.path("c06_behs.ndjson")
    with open(inp, "w") as fh:
        for b in behs:
            fh.write(jdump(b) + "\n")
    outp, tracep = ctx.path("c06_cases.ndjson"), ctx.path("c06_trace.ndjson")
    reps = 3 if ctx.quick else 4
    rc, out = ctx.go_test(PKG, "^TestVerifC06Replay$", env={"VERIF_IN": inp, "VERIF_OUT": outp, "VERIF_TRACE": tracep, "VERIF_REPS": reps},
                          timeout=1500)
    recs = ctx.read_ndjson(outp)
    summ = [x for x in recs if x.get("k") == "summary"]
    if rc != 0 or not summ:
        ctx.inconclusive("C06 harness failed:\n" + out[-3000:])
    # `basicAuth` without `mode` is refused by the spec validation (jsonschema enum): no filter instance exists, the
    # property is vacuous there (lead F11 of DESIGN 6 is not reproducible). Were it ever accepted, the vectors apply.
    nomode = [x for x in recs if x.get("k") == "builderr" and x["cfg"]["basic"] == "nomode"]
    if nomode:
        ctx.notes.append("basicAuth without mode: rejected by spec validation (%d configurations), no instance to check" % len(nomode))
    berr = [x for x in recs if x.get("k") == "builderr" and x["cfg"]["basic"] != "nomode"]
    if berr:
        ctx.inconclusive("C06 harness could not build a Validator for %s: %s" % (jdump(berr[0]["cfg"]), berr[0]["err"]))
    cases = [x for x in recs if x.get("k") == "case"]
    settles = [x for x in recs if x.get("k") == "settle"]
    if settles:
        waited = sorted(x["us"] for x in settles if x["conv"])
        stuck = [x for x in settles if not x["conv"]]
        flaky = [x for x in settles if x["recheck"] == "converged"]
        ctx.log("user file: %d settles after edits (up to %d edits in a row); the file as last written was in effect after median %.1f ms / max %.1f ms; "
                "%d did not converge within the bounded time (re-check in a fresh world included), %d converged only in the re-check" % (
                    len(settles), max(x["burst"] for x in settles), (waited[len(waited) // 2] if waited else 0) / 1000.0,
                    (waited[-1] if waited else 0) / 1000.0, len(stuck), len(flaky)))
        ctx.cov["user_file_settles"] = {"n": len(settles), "after_replace": sum(1 for x in settles if x.get("afterReplace")),
                                        "stuck_after_replace": sum(1 for x in stuck if x.get("afterReplace")), "max_ms": (waited[-1] if waited else 0) / 1000.0, "stuck": len(stuck), "recheck_converged": len(flaky)}
        if flaky:
            ctx.notes.append("user file: %d settle(s) converged only in the fresh-world re-check (machine stalled?)" % len(flaky))
    skipped = [x for x in recs if x.get("k") == "skipped"]
    if skipped:
        ctx.log("user file: %d behaviour instances cut short after %s" % (len(skipped), skipped[0]["why"]))
    ctx.log("harness ran %d cases (%d behaviours x %d instances)" % (len(cases), len(behs), reps))
    ctx.evals(len(cases))
    byline = {c["line"]: c for c in cases}
    ctx.log("observed: %d of %d cases accepted" % (sum(1 for c in cases if c["res"]["acc"]), len(cases)))
    for c in cases:
        ctx.nontrivial({"c": c["cfg"], "r": c["req"], "n": c["now"], "u": c["users"], "m": c["mat"], "g": min(c["gen"], 1)})
    picks = [next((c for c in cases if c["res"]["acc"] and c["req"]["sg"]["p"]), None), next((c for c in cases if c["mutations"]), None),
             next((c for c in cases if c["req"]["auth"] == "basic" and c["req"]["bs"]["pw"] == "rightColonX"), None),
             next((c for c in cases if c["req"]["auth"] == "basic" and c["req"]["bs"]["pw"] == "padded" and c["req"]["bs"]["b64"]), None)]
    for c in picks:
        if c:
            ctx.sample({"kind": "case", "cfg": c["cfg"], "req": c["req"], "predicted": c.get("exp"), "observed": c["res"],
                        "wire": c["wire"][:500], "bodyLen": c["bodyLen"], "mutations": c["mutations"]})

    def report(c, exp, v, via):
        for sig, what in signatures(c, exp, v):
            ctx.violation(sig, what + " [%s]" % via, {k: c.get(k) for k in ("cfg", "mat", "gen", "history", "edits", "settled", "lastBurst", "how", "replaces", "afterReplace", "now", "users", "req", "res", "tag", "wire", "bodyLen",
                                                                       "bodySha", "chunked", "mutations", "rep", "panic", "result")} | {"predicted": exp, "v": v})

    # MBT: the prediction carried by the vector vs. the observation
    if ctx.phase("mbt"):
        for c in cases:
            exp = c.get("exp")
            if exp is None:
                continue
            preds += 1
            res = c["res"]
            ok = ((exp == "accept" and res["acc"] and res["status"] == 0 and res["intact"]) or
                  (exp == "reject" and not res["acc"] and res["status"] in (400, 401)) or
                  (exp == "free" and ((res["acc"] and res["status"] == 0 and res["intact"]) or (not res["acc"] and res["status"] in (400, 401)))))
            if not ok:
                report(c, exp, c["v"], "replay of TLC vector")
        ctx.log("MBT: %d predicted cases compared" % preds)
        _impl_layer(ctx, vectors, cases)

    # TV: TLC validates the whole log against the contract
    if ctx.phase("tv"):
        badp = ctx.path("c06_bad.json")
        tr = ctx.tlc_trace("Validator_Trace", TRACE_CFG, tracep, timeout=1500, extra_env={"VERIF_BAD": badp})
        if tr.inv:
            seg = [byline[i] for i in range(max(1, tr.hwm - 1), tr.hwm + 2) if i in byline]
            ctx.violation({"kind": "trace-invariant", "inv": tr.inv},
                          "a contract invariant (%s) fails on the recorded execution near event #%d" % (tr.inv, tr.hwm + 1), seg)
            return
        if not tr.accepted or not os.path.exists(badp):
            ctx.inconclusive("trace validation did not consume the log (%d of %d events):\n%s" % (tr.hwm, tr.total, tr.out[-2000:]))
        bad = json.load(open(badp))
        ctx.traces(len(behs) * reps)
        ctx.log("TV: %d events validated by TLC, %d not allowed by the contract" % (tr.total, len(bad)))
        for b in bad:
            c = byline.get(b["l"])
            if c is None:
                ctx.inconclusive("trace validation flagged line %s which is not a case" % b["l"])
            report(c, b["exp"], b["v"], "trace validation")

    vac = _vacuity(ctx, cases)
    if vac and not ctx.violations:
        ctx.inconclusive("vacuous run: " + vac)

"""C07 - body limits: 413 unforwarded, exact limit passes, -1 streams; oversized / short backend responses withheld (DESIGN 5/C07).

phases (VERIF_PHASES): mc   route lookup (route cache on/off) + limit selection + response compression + FetchPayload step machine, over
                            sequences of identical requests, refine the contract, for both readings of the 4MB default
                       lead a code model whose default lies outside the interval, one whose cached route forgets the limit, and one
                            that exempts a media type (text/event-stream) from the limit must violate the contract (non-vacuity)
                       mbt  every scenario enumerated by TLC run on the real code over sockets (sequences of identical requests on one
                            mux/proxy instance when the route cache is on); TLC evaluates the contract on every recorded exchange
"""
from props import _proxymsg as pm

PKG = "pkg/object/httpserver"
INVS = ("INVARIANTS ReqLimit RespLimit Oversized413Unforwarded ExactLimitPasses MinusOneStreams BigResponseWithheld "
        "ShortIsAnError Composed\n")


def run(ctx):
    ctx.cov["rule"] = ("scenario = (direction, path/pool-level limit, server/proxy-level limit, announcement cl|chunked|close, size class "
                       "around the effective limit, lying length, route cache on/off (requests), proxy compression on/off (responses), hot update of the "
                       "HTTPServer that changes the path-level or the server-level limit between the first and the second request (requests), request taken in "
                       "as a stream or buffered (responses), media type "
                       "the body is labelled with: none|octet-stream|text|json|event-stream|grpc|multipart) "
                       "enumerated by TLC from specs/ProxyMsgLimit_Gen.tla; a scenario with the route cache on is a sequence of identical "
                       "requests on one mux instance; evaluation = one real exchange over sockets whose recording TLC evaluated against the "
                       "contract; non-trivial = scenarios in which a limit decides (oversized, exactly at the limit, stream, lying length)")
    ctx.assumptions += [
        "'4MB' default read as the interval [4 000 000, 4 194 304]: bodies up to the lower value must pass, above the upper value must be refused",
        "a request with a lying Content-Length (client stops early) is outside the property text: outcome recorded, not judged",
        "explicit limits are scaled 3 -> 3000 bytes, 5 -> 5000 bytes",
        "media types: scenarios decided by an explicit limit run with all 7 Content-Type classes; megabyte-sized scenarios (default limit) with "
        "one class each in the quick tier (rotating with the scenario index and the seed), with all in the thorough tier",
        "with proxy compression the limit is applied by the code to the compressed body; the text does not say which size counts: a response "
        "below the limit that may exceed it once compressed (n + n/100 + 100 bytes) is not judged; response bodies are incompressible",
        "a hot update of the HTTPServer (mux.reload on the running mux) is in force for every request made after it: each request is judged by "
        "the settings configured when it is made; updates change one of the two settings, bodies stay sized around the first settings",
        "whether the route takes requests in as streams (clientMaxBodySize -1) has no bearing on the limit of the response",
        "a streamed response that breaks off must be visibly broken: incomplete framing, or a gzip-labelled body that is not a complete gzip stream",
    ]
    if ctx.phase("mc"):
        for d in (40, 41):
            r = ctx.tlc_mc("ProxyMsgLimit", "SPECIFICATION Spec\nCONSTANTS\n  CodeDefault = %d\n  HitLimit = \"kept\"\n  Exempt = {}\n  Defect = \"none\"\n" % d + INVS,
                           label="FetchPayload + limit selection refine the contract, default=%d" % d, timeout=600, workers=4)
        ctx.log("model checked: %d distinct states" % r.distinct)
    if ctx.phase("lead"):
        r = ctx.tlc_mc("ProxyMsgLimit", "SPECIFICATION Spec\nCONSTANTS\n  CodeDefault = 100\n  HitLimit = \"kept\"\n  Exempt = {}\n  Defect = \"none\"\nINVARIANTS ReqLimit RespLimit\n",
                       expect_ok=False, count=False, label="lead: default outside the interval must violate the contract", timeout=600, workers=4)
        if r.violated not in ("ReqLimit", "RespLimit"):
            ctx.inconclusive("a code model with a wrong default does not violate the contract (vacuous?):\n" + r.out[-1500:])
        r = ctx.tlc_mc("ProxyMsgLimit", "SPECIFICATION Spec\nCONSTANTS\n  CodeDefault = 40\n  HitLimit = \"lost\"\n  Exempt = {}\n  Defect = \"none\"\nINVARIANTS ReqLimit\n",
                       expect_ok=False, count=False, label="lead: a cached route that forgets the limit must violate the contract", timeout=600, workers=4)
        if r.violated != "ReqLimit":
            ctx.inconclusive("a code model whose cached route forgets the limit does not violate the contract (vacuous?):\n" + r.out[-1500:])
        r = ctx.tlc_mc("ProxyMsgLimit", "SPECIFICATION Spec\nCONSTANTS\n  CodeDefault = 40\n  HitLimit = \"kept\"\n  Exempt = {\"sse\"}\n  Defect = \"none\"\n"
                       "INVARIANTS ReqLimit RespLimit\n", expect_ok=False, count=False,
                       label="lead: a media type exempted from the limit must violate the contract", timeout=600, workers=4)
        if r.violated not in ("ReqLimit", "RespLimit"):
            ctx.inconclusive("a code model that exempts a media type from the limit does not violate the contract (vacuous?):\n" + r.out[-1500:])
        if not ctx.quick:
            for defect, inv, what in (("stale-reload", "ReqLimit", "a hot update of the server-level limit that keeps the old mux instance"),
                                      ("coupled", "RespLimit", "a response limit that is dropped when the request was taken in as a stream")):
                r = ctx.tlc_mc("ProxyMsgLimit", "SPECIFICATION Spec\nCONSTANTS\n  CodeDefault = 40\n  HitLimit = \"kept\"\n  Exempt = {}\n  Defect = \"%s\"\n"
                               "INVARIANTS ReqLimit RespLimit\n" % defect, expect_ok=False, count=False,
                               label="lead: %s must violate the contract" % what, timeout=600, workers=4)
                if r.violated != inv:
                    ctx.inconclusive("a code model with %s does not violate the contract (vacuous?):\n%s" % (what, r.out[-1500:]))
    if ctx.phase("mbt"):
        _mbt(ctx)


def _select(ctx, vecs):
    """The generator enumerates every scenario with every media type class.  Scenarios whose bodies are small (an explicit
    limit decides: at most 4 x 5000 bytes) are cheap: where the limit decides the outcome (size class at or above the limit,
    lying length, stream) they are run with EVERY media type, the others with one (rotating with the seed).  Scenarios with
    bodies of megabytes (default limit, streams beyond the default) are run with one media type each in the quick tier
    (rotating, so that every type meets every such scenario over the seeds and all types are met in every run) and with
    all of them in the thorough tier.  Scenarios with a hot update of the limits and response scenarios whose request is taken in
    as a stream come with one media type from the generator."""
    base = {}
    for v in vecs:
        k = pm.jdump({x: v[x] for x in v if x not in ("ctype",)})
        base.setdefault(k, []).append(v)
    out = []
    for i, k in enumerate(sorted(base)):
        vs = sorted(base[k], key=lambda v: v["ctype"])
        v0 = vs[0]
        big = v0["level"] == "default" or v0["rel"] == "beyond-default"
        decisive = v0["stream"] or v0["short"] or v0["rel"] in ("lo", "hi+1", "x4")
        if v0["upd"] and ctx.quick and (i + ctx.seed) % 2:
            continue            # hot-update scenarios: every other one in the quick tier (rotating with the seed), all in the thorough tier
        if (not big and decisive) or (big and not ctx.quick):
            out += vs
        else:
            out.append(vs[(i + ctx.seed) % len(vs)])
    return out


def _mbt(ctx):
    vecs = ctx.tlc_dump("ProxyMsgLimit_Gen", "SPECIFICATION Spec\n", label="limit scenarios", timeout=600, workers=4)
    nall = len(vecs)
    vecs = _select(ctx, vecs)
    ctypes = sorted({v["ctype"] for v in vecs})
    oversized = {}
    for v in vecs:
        if v["dir"] == "resp" and v["rel"] in ("hi+1", "x4") and not v["stream"]:
            oversized[v["ctype"]] = oversized.get(v["ctype"], 0) + 1
    if len(ctypes) < 5 or len(oversized) < len(ctypes) or min(oversized.values()) < 5:
        ctx.inconclusive("media type dimension not exercised: types %s, oversized responses per type %s" % (ctypes, oversized))
    ctx.log("%d of %d scenario vectors selected; oversized responses per media type: %s" % (len(vecs), nall, pm.jdump(oversized)))
    vecs.sort(key=pm.jdump)
    reps = 1 if ctx.quick else 2
    cases = []
    for k in range(reps):
        for v in vecs:
            c = dict(v)
            c["id"] = len(cases) + 1
            cases.append(c)
    ctx.log("%d scenarios, %d cases" % (len(vecs), len(cases)))
    events, _ = pm.run_harness(ctx, PKG, "TestVerifC07Run", cases, "c07", timeout=1500)
    verdicts = pm.evaluate(ctx, "ProxyMsgLimit_Trace", events, "c07_trace")
    by_id = {c["id"]: c for c in cases}
    ev_by_id = {e["id"]: e for e in events}
    ctx.log("%d exchanges recorded" % len(events))
    seen = {}
    for e in events:
        seen[e["case"]] = seen.get(e["case"], 0) + 1
    if not any(by_id[c]["cache"] and n > 1 for c, n in seen.items()):
        ctx.inconclusive("no sequence of repeated requests with the route cache on was carried out")
    nupd = sum(1 for e in events if e.get("updated"))
    nrs = sum(1 for e in events if e["dir"] == "resp" and e.get("rstream") and by_id[e["case"]]["rel"] in ("hi+1", "x4") and not by_id[e["case"]]["stream"])
    if nupd < 20 or nrs < 10:
        ctx.inconclusive("only %d requests after a hot update of the limits and %d oversized responses to requests taken in as streams were carried out" % (nupd, nrs))
    ctx.log("%d requests after a hot update of the limits, %d oversized responses to requests taken in as streams" % (nupd, nrs))
    if not any(by_id[c]["comp"] and by_id[c]["short"] for c in seen):
        ctx.inconclusive("no compressed response that breaks off was carried out")
    ctx.evals(len(events))
    ctx.traces(len(events))
    for e in events:
        c = by_id[e["case"]]
        if c["stream"] or c["short"] or c["rel"] in ("lo", "hi+1", "x4"):
            ctx.nontrivial({k: c[k] for k in ("dir", "inner", "outer", "enc", "rel", "short", "cache", "comp", "ctype", "inner2", "outer2", "rstream")})
    for e in events[:3]:
        ctx.sample({"kind": "exchange", "dir": e["dir"], "limits": [e["inner"], e["outer"]], "body": e["w"], "observed": e["o"]})
    drift = 0
    for eid, (viol, dr) in sorted(verdicts.items()):
        e = ev_by_id[eid]
        c = by_id[e["case"]]
        if not viol:
            drift += 1
            if drift <= 8:
                ctx.notes.append("model drift (contract satisfied): fields %s scenario %s observed %s" % (dr, pm.jdump(e["scn"]), pm.jdump(e["o"])))
            continue
        sig = {"dir": c["dir"], "level": c["level"], "stream": c["stream"], "enc": c["enc"], "rel": c["rel"], "short": c["short"],
               "cache": c["cache"], "comp": c["comp"], "repeat": e["k"] > 1,
               # after a hot update of the HTTPServer that changed the path-level / the server-level limit
               "updated": ("inner" if c["inner2"] != c["inner"] else "outer") if e.get("updated") else "no",
               "reqStream": c["rstream"]}
        sig["ctype"] = c["ctype"]
        o = e["o"]
        if c["dir"] == "req":
            what = ("" if not e.get("updated") else "after a hot update of the HTTPServer that changed clientMaxBodySize from path=%s server=%s: " % (
                c["inner"], c["outer"])) + ("request %d of a sequence of identical requests (route cache %s): body (Content-Type class %s) announced as %s (%s bytes declared, %s sent) with "
                    "clientMaxBodySize path=%s server=%s: client got %s, backend contacted=%s, received intact=%s" % (
                        e["k"], "on" if c["cache"] else "off", c["ctype"], c["enc"], e["w"]["declared"], e["w"]["actual"], e["inner"], e["outer"], o["status"],
                        o["forwarded"], o["intact"]))
        else:
            what = ("" if not c["rstream"] else "request taken in as a stream (clientMaxBodySize -1): ") + ("backend response (Content-Type class %s) announced as %s (%s bytes declared, %s sent) with serverMaxBodySize pool=%s proxy=%s, proxy compression %s: "
                    "client got status %s, %s body bytes (Content-Encoding %r), complete=%s, intact=%s" % (
                        c["ctype"], c["enc"], e["w"]["declared"], e["w"]["actual"], e["inner"], e["outer"], "on" if c["comp"] else "off", o["status"],
                        o["got"], o.get("label"), o["complete"], o["intact"]))
        ctx.violation(sig, what, {"case": c, "exchange": e})
    if drift:
        ctx.notes.append("%d exchanges satisfied the contract but differed from the implementation-shaped layer's prediction" % drift)
        ctx.log("model drift on %d exchanges (not a verdict)" % drift)

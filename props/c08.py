"""C08 - circuit breaker contract (DESIGN 5/C08)."""
from lib.vlib import jdump

PKG = "pkg/util/circuitbreaker"

PROPS = ("INVARIANTS TypeOK HalfOpenAdmitsAtMostPermitted\n"
         "PROPERTIES ClosedAdmitsAll OpenRejectsUntilWait StaleResultsIgnored OpensOnlyAtOrAboveThreshold "
         "MustOpenAtThreshold ClosesOnlyFromHalfOpen EpochBumps MaxWaitReopens\n")


def mc_cfg(policies, maxnow, maxcalls):
    return ("SPECIFICATION GSpec\nCONSTANTS\n  Policies <- %s\n  MaxNow = %d\n  MaxCalls = %d\nVIEW view\n" % (policies, maxnow, maxcalls)) + PROPS


def sim_cfg():
    return "SPECIFICATION GSpec\nCONSTANTS\n  Policies <- GridPolicies\n  MaxNow = 40\n  MaxCalls = 30\n"


TRACE_CFG = ("SPECIFICATION TSpec\nCONSTANTS\n  Policies = {}\n  MaxNow = 100000000\n  MaxCalls = 100000000\n"
             "CONSTRAINT HWM\nPOSTCONDITION Accepted\n") + PROPS


def run(ctx):
    ctx.cov["rule"] = ("behaviours = TLC -simulate runs of the contract over the policy grid, replayed in lock-step on the real "
                       "CircuitBreaker under a virtual clock; traces = seeded random histories of the real breaker validated by TLC "
                       "against the contract; non-trivial = distinct behaviours/traces that contain at least one state transition")
    ctx.assumptions += ["virtual clock installed through the package variable nowFunc",
                        "a call that failed and was slow is a failure (counts for the failure rate); whether it also counts for the "
                        "slow-call rate is left open: where the two readings differ the contract allows both outcomes",
                        "time window interpreted at the one-second granularity the code buckets by"]
    # 1. exhaustive model checking of the contract (the property's clauses are theorems of it)
    if ctx.quick:
        r = ctx.tlc_mc("CircuitBreaker_Gen", mc_cfg("QuickPolicies", 8, 5), label="contract, 4 policies, 5 calls x 8 ticks")
    else:
        r = ctx.tlc_mc("CircuitBreaker_Gen", mc_cfg("QuickPolicies", 10, 7), label="contract, 4 policies, 7 calls x 10 ticks",
                       coverage=False, timeout=1800)
    ctx.log("contract model checked: %d distinct states" % r.distinct)

    # 2. MBT: TLC-generated behaviours replayed on the real code
    if ctx.phase('mbt'):
        _mbt(ctx)
    if ctx.phase('tv'):
        _tv(ctx)
    if ctx.phase('ctv'):
        _ctv(ctx)
    if ctx.phase('pool'):
        # pool-level clause: a short-circuited call is 503 / shortCircuited, no server contacted, one record per admitted request
        from props import c08_proxy
        c08_proxy.run_proxy(ctx)


def _mbt(ctx):
    nb = 600 if ctx.quick else 6000
    behs = ctx.tlc_simulate("CircuitBreaker_Gen", sim_cfg(), num=nb, depth=40)
    inp = ctx.path("c08_behs.ndjson")
    with open(inp, "w") as fh:
        for b in behs:
            fh.write(jdump(b) + "\n")
    outp = ctx.path("c08_replay.ndjson")
    rc, out = ctx.go_test(PKG, "^TestVerifC08Replay$", env={"VERIF_IN": inp, "VERIF_OUT": outp})
    recs = ctx.read_ndjson(outp)
    summ = [x for x in recs if x.get("k") == "summary"]
    if rc != 0 or not summ:
        ctx.inconclusive("C08 replay harness failed:\n" + out[-3000:])
    ctx.evals(len(behs))
    ctx.traces(len(behs))
    for b in behs:
        if len({s.get("st") for s in b if "st" in s}) > 1:
            ctx.nontrivial({"b": b})
    ctx.sample({"kind": "tlc-behaviour", "steps": behs[0][:8]})
    # vacuity guard: every disjunct of Acquire/Record must have been replayed on the real code
    seen = set()
    for b in behs:
        prev = "closed"
        for s in b[1:]:
            if s["a"] == "acq":
                seen.add("acq:%s->%s:%s" % (prev, s["st"], s["ok"]))
            elif s["a"] == "rec":
                seen.add("rec:stale" if s["stale"] else "rec:%s->%s" % (prev, s["st"]))
                if s.get("dec"):
                    seen.add("rec:failed-and-slow call decides (%s->open)" % prev)
                if s.get("free"):
                    seen.add("rec:free")
            if "st" in s:
                prev = s["st"]
    need = {"acq:closed->closed:True", "acq:open->open:False", "acq:open->halfopen:True", "acq:halfopen->halfopen:True",
            "acq:halfopen->halfopen:False", "acq:halfopen->open:False", "rec:stale", "rec:closed->open", "rec:closed->closed",
            "rec:halfopen->open", "rec:halfopen->closed", "rec:halfopen->halfopen",
            # completions that are failed AND slow, on a step where counting them as failures is what opens the breaker
            "rec:failed-and-slow call decides (closed->open)", "rec:failed-and-slow call decides (halfopen->open)"}
    ctx.cov["action_classes_replayed"] = sorted(seen)
    if need - seen:
        ctx.inconclusive("C08 behaviours never exercised: %s" % sorted(need - seen))
    for m in [x for x in recs if x.get("k") == "mismatch"]:
        pol = m["behaviour"][0]["pol"]
        ctx.violation({"kind": "replay", "what": m["what"].split(",")[0], "wt": pol["wt"]},
                      "real CircuitBreaker diverges from the contract at step %d: %s" % (m["step"], m["what"]), m)


def _tv(ctx):
    # 3. TV: random histories of the real code validated by TLC
    n, steps = (60, 60) if ctx.quick else (600, 120)
    tp = ctx.path("c08_trace.ndjson")
    rc, out = ctx.go_test(PKG, "^TestVerifC08Trace$", env={"VERIF_OUT": tp, "VERIF_N": n, "VERIF_STEPS": steps})
    ev = ctx.read_ndjson(tp)
    if rc != 0 or not ev:
        ctx.inconclusive("C08 trace harness failed:\n" + out[-3000:])
    tr = ctx.tlc_trace("CircuitBreaker_Trace", TRACE_CFG, tp)
    ctx.evals(n)
    if tr.accepted:
        ctx.traces(n)
        cur = []
        for e in ev:
            if e["ev"] == "reset":
                if cur and len({x.get("st") for x in cur if "st" in x}) > 1:
                    ctx.nontrivial({"t": cur})
                cur = []
            cur.append(e)
        ctx.sample({"kind": "recorded-trace", "events": ev[:8]})
    else:
        seg = _segment(ev, tr.hwm)
        ctx.violation({"kind": "trace", "inv": tr.inv or "rejected", "ev": seg[-1].get("ev") if seg else None},
                      "recorded history of the real CircuitBreaker is not a behaviour of the contract "
                      "(first unexplained event #%d%s)" % (tr.hwm + 1, ", invariant %s" % tr.inv if tr.inv else ""), seg)


def _segment(ev, hwm):
    """events from the last reset up to and including the first unconsumed one"""
    end = min(hwm + 1, len(ev))
    start = 0
    for i in range(end - 1, -1, -1):
        if ev[i].get("ev") == "reset":
            start = i
            break
    return ev[start:end]


def _ctv(ctx):
    # 4. concurrent TV: linearisation search by TLC
    n, rounds = (25, 6) if ctx.quick else (200, 10)
    tp = ctx.path("c08_ctrace.ndjson")
    rc, out = ctx.go_test(PKG, "^TestVerifC08Conc$", env={"VERIF_OUT": tp, "VERIF_N": n, "VERIF_ROUNDS": rounds}, race=not ctx.quick)
    ev = ctx.read_ndjson(tp)
    if "DATA RACE" in out:
        ctx.violation({"kind": "race"}, "data race reported by the Go race detector in concurrent acquire/record", out[-4000:])
        return
    if rc != 0 or not ev:
        ctx.inconclusive("C08 concurrent harness failed:\n" + out[-3000:])
    tr = ctx.tlc_trace("CircuitBreaker_CTrace", TRACE_CFG, tp)
    ctx.evals(n)
    if tr.accepted:
        ctx.traces(n)
        ctx.nontrivial("concurrent-traces-%d" % n)
        ctx.sample({"kind": "concurrent-trace", "events": ev[:10]})
    else:
        seg = _segment(ev, tr.hwm)
        ctx.violation({"kind": "ctrace", "inv": tr.inv or "rejected"},
                      "concurrent history of the real CircuitBreaker has no linearisation allowed by the contract "
                      "(first unexplained event #%d%s)" % (tr.hwm + 1, ", invariant %s" % tr.inv if tr.inv else ""), seg)

"""C08, pool-level clause (DESIGN 5/C08 `ProxyShortCircuit`): the Proxy reports a short-circuited call as
503 / shortCircuited without contacting any server (and hands the breaker exactly one result per admitted
request).  Oracle: specs/CircuitBreakerPool.tla (the C08 breaker contract + the request protocol of
circuitBreakerWrapper.Wrap).  `run_proxy(ctx)` is called from props/c08.py."""
import re

from lib.vlib import jdump

PKG = "pkg/filters/proxy"

PROPS = ("INVARIANTS TypeOK HalfOpenAdmitsAtMostPermitted NoLeak\n"
         "PROPERTIES ShortCircuitedUntouched RejectedIffRefused OneRecordPerRequest\n")

TRACE_CFG = ("SPECIFICATION TSpec\nCONSTANTS\n  Policies = {}\n  MaxNow = 100000000\n  MaxCalls = 100000000\n  MaxAttempts = 1000\n"
             "CONSTRAINT HWM\nPOSTCONDITION TraceAccepted\nINVARIANTS TypeOK HalfOpenAdmitsAtMostPermitted\n")


def mc_cfg(maxnow, maxcalls):
    return ("SPECIFICATION PSpec\nCONSTANTS\n  Policies <- PoolPolicies\n  MaxNow = %d\n  MaxCalls = %d\n  MaxAttempts = 2\nVIEW pview\n"
            % (maxnow, maxcalls)) + PROPS


def _split(ev):
    runs, cur, st, starts = [], [], 0, []
    for i, e in enumerate(ev):
        if e.get("ev") == "reset":
            if cur:
                runs.append(cur)
                starts.append(st)
            cur, st = [], i
        cur.append(e)
    if cur:
        runs.append(cur)
        starts.append(st)
    return runs, starts


def _project(runs):
    """A trace recorded on two pools that name the same policy (main + candidate pool of one Proxy, or the pools of two
    Proxy filters of one pipeline) is judged pool by pool: the breaker contract is a statement about every breaker and
    its own call history, so the history of each pool - its own requests, and the time that passed for all of them -
    must be a behaviour of the pool-level contract on its own."""
    out = []
    for ri, r in enumerate(runs):
        pools = sorted({e["pool"] for e in r if e.get("ev") == "req" and "pool" in e})
        if r[0].get("variant", "single") == "single" or len(pools) < 2:
            out.append(r)
            continue
        for x in pools:
            head = dict(r[0])
            head["pool"], head["rec"] = x, ri
            out.append([head] + [e for e in r[1:] if e.get("ev") != "req" or e.get("pool") == x])
    return out


def run_proxy(ctx):
    ctx.assumptions += ["pool level: the breaker's recorded results are read from its own window total (reflection), its clock is real "
                        "time; waits are one-sided (the harness sleeps longer than waitDurationInOpenState; a trace in which requests "
                        "after an opening took longer than the margin is discarded)"]
    if ctx.phase("pmc"):
        r = ctx.tlc_mc("CircuitBreakerPool_MC", mc_cfg(8, 6) if ctx.quick else mc_cfg(10, 8),
                       label="pool-level request protocol over the breaker contract", timeout=900, workers=4 if ctx.quick else None)
        ctx.log("pool-level contract: %d distinct states" % r.distinct)
    if ctx.phase("pmc2"):
        # two pools naming one policy: each has its own breaker (and the model can tell a shared one apart)
        cfg2 = ("SPECIFICATION Spec\nCONSTANTS\n  Policies <- TwoPoolPolicies\n  MaxNow = %d\n  MaxCalls = %d\n  MaxAttempts = 1\n"
                "  Shared = %s\nVIEW allview\nINVARIANTS TypeOK OwnWindow\nPROPERTIES OwnHistory Independent\n")
        r = ctx.tlc_mc("CircuitBreakerPools_MC", cfg2 % (((2, 3) if ctx.quick else (4, 4)) + ("FALSE",)),
                       label="two pools naming one policy: one breaker each", timeout=900, workers=4 if ctx.quick else None)
        ctx.log("two pools, one policy: %d distinct states" % r.distinct)
        r = ctx.tlc_mc("CircuitBreakerPools_MC", cfg2 % (3, 3, "TRUE"), label="negative control: one breaker shared by the pools of a policy",
                       expect_ok=False, count=False, workers=2, timeout=600)
        if r.violated not in ("OwnHistory", "OwnWindow"):
            ctx.inconclusive("negative control (breaker shared by the pools naming one policy) was not rejected by TLC: %s" % r.error)
    if not ctx.phase("ptv"):
        return
    n, steps = (32, 30) if ctx.quick else (240, 50)
    tp0 = ctx.path("c08_pool_obs.ndjson")
    rc, out = ctx.go_test(PKG, "^TestVerifC08Pool$", env={"VERIF_OUT": tp0, "VERIF_N": n, "VERIF_STEPS": steps}, timeout=900)
    ev = ctx.read_ndjson(tp0)
    if rc != 0 or not ev:
        ctx.inconclusive("C08 pool harness failed:\n" + out[-3000:])
    runs, _ = _split(ev)
    nrec = len(runs)
    runs = _project(runs)
    if any(e.get("ev") == "rejected" for r in runs for e in r):
        ctx.inconclusive("C08 pool harness could not build a pool: %s" % jdump([e for r in runs for e in r if e.get("ev") == "rejected"][0]))
    good = [r for r in runs if not r[0].get("tainted")]
    if len(good) < len(runs) * 3 // 4:
        ctx.inconclusive("C08 pool harness: timing could not be kept in %d of %d traces" % (len(runs) - len(good), len(runs)))
    flat, starts = [], []
    for r in good:
        starts.append(len(flat))
        flat.extend(r)
    tp = ctx.write_ndjson("c08_pool_trace.ndjson", flat)
    tr = ctx.tlc_trace("CircuitBreakerPool_Trace", TRACE_CFG, tp, timeout=900)
    ctx.evals(nrec)
    if not tr.accepted:
        if tr.inv:
            i = max(j for j, s in enumerate(starts) if s <= tr.hwm)
            ctx.violation({"kind": "pool", "inv": tr.inv}, "pool-level history of the real Proxy violates %s" % tr.inv, good[i])
            return
        ctx.inconclusive("pool-level trace validation stopped at event %d of %d:\n%s" % (tr.hwm + 1, tr.total, tr.out[-2000:]))
    bad = set()
    for ln in sorted({int(x) for x in re.findall(r"VERIF_REJECT\W+(\d+)", tr.out)}):
        i = max(j for j, s in enumerate(starts) if s <= ln - 1)
        idx = ln - 1 - starts[i]
        e = good[i][idx]
        bad.add(i)
        prev = good[i][idx - 1] if idx > 1 else {}
        if e.get("res") == "shortCircuited":
            why = "short-circuit-contacted-server" if e.get("k") else "short-circuit-recorded-or-unexpected"
        elif prev.get("s") == "open":
            why = "admitted-while-open"
        else:
            why = "records-or-state"
        variant = good[i][0].get("variant", "single")
        sig = {"kind": "pool", "why": why, "stream": e.get("stream"), "retry": good[i][0].get("retry")}
        shared = ""
        if variant != "single":
            sig["pools"] = variant
            shared = (" - on its own history: pool %r of two pools naming the same circuitBreakerPolicy (%s)"
                      % (good[i][0].get("pool"), "main and candidate pool of one Proxy" if variant == "cand" else "two Proxy filters"))
        ctx.violation(sig,
                      "pool-level request %s after breaker state %r is not what the breaker contract allows (policy %s, retry policy %s)%s"
                      % (jdump({k: v for k, v in e.items() if k != "seq"}), prev.get("s", "closed"), jdump(good[i][0]["pol"]),
                         good[i][0].get("retry"), shared), good[i][:idx + 1])
    okruns = [r for j, r in enumerate(good) if j not in bad]
    ctx.traces(len(okruns))
    st = {"sc_stream": 0, "sc_buffered": 0, "sc_retry": 0, "admitted_retried": 0, "halfopen": 0, "waits_elapsed": 0,
          "two_pools_one_policy": 0, "sibling_opened_while_this_stayed_closed": 0}
    # two pools naming one policy: the histories in which one pool's breaker opened while the other's, all of whose own
    # calls had passed, kept admitting (what per-breaker windows mean)
    byrec = {}
    for r in okruns:
        if "pool" in r[0]:
            byrec.setdefault(r[0]["rec"], []).append(r)
    for rs in byrec.values():
        if len(rs) == 2:
            st["two_pools_one_policy"] += 1
            for x, y in ((rs[0], rs[1]), (rs[1], rs[0])):
                if any(e.get("s") == "open" for e in x) and all(e.get("s") == "closed" for e in y if e.get("ev") == "req") \
                        and sum(1 for e in y if e.get("ev") == "req") >= 3:
                    st["sibling_opened_while_this_stayed_closed"] += 1
    for r in okruns:
        for e in r[1:]:
            if e.get("res") == "shortCircuited":
                st["sc_stream" if e.get("stream") else "sc_buffered"] += 1
                if r[0].get("retry"):
                    st["sc_retry"] += 1
            elif e.get("ev") == "req" and e.get("k", 0) > 1:
                st["admitted_retried"] += 1
            if e.get("ev") == "tick":
                st["waits_elapsed"] += 1
            if e.get("s") == "halfopen":
                st["halfopen"] += 1
        if any(e.get("res") == "shortCircuited" for e in r):
            ctx.nontrivial({"pool": r[0]["pol"], "ev": [(e.get("res"), e.get("k"), e.get("stream")) for e in r[1:]]})
    ctx.cov["c08_pool_stats"] = st
    ctx.log("pool level: %d traces validated, %d rejected, %d discarded; %s" % (len(okruns), len(bad), len(runs) - len(good), jdump(st)))
    if not bad and (st["sc_stream"] == 0 or st["sc_buffered"] == 0 or st["sc_retry"] == 0 or st["admitted_retried"] == 0
                    or st["sibling_opened_while_this_stayed_closed"] == 0):
        ctx.inconclusive("vacuous pool-level run: %s" % jdump(st))
    if okruns:
        ctx.sample({"kind": "pool-level trace", "events": okruns[0][:8]})


def run(ctx):
    """stand-alone entry (./check C08_PROXY is not registered; used while developing)"""
    run_proxy(ctx)

"""C09 - rate limiter: per-period release bound, wait bound, immediate when spare, rejected only when the
horizon is full; filter level (429 / unmatched URL / reload keeps state); MQTT request+byte limiters.
(DESIGN 5/C09).  Specs: RateLimiter*.tla."""
import re
from concurrent.futures import ThreadPoolExecutor

from lib.vlib import jdump, Inconclusive, _OUT_RE
import json

PKG_U = "pkg/util/ratelimiter"
PKG_F = "pkg/filters/ratelimiter"
PKG_M = "pkg/object/mqttproxy"

CLAUSES = ("INVARIANTS TypeOK PerPeriodBound %s\n"
           "PROPERTIES WaitBound ImmediateIfSpare RejectOnlyIfFull FrozenCapacity\n")
MQ_CLAUSES = ("INVARIANTS %s %s\n"
              "PROPERTIES MqttAdmitIfSpare MqttRejectOnlyIfFull\n")
FL_CLAUSES = ("INVARIANTS TypeOK NeverOverCap\n"
              "PROPERTIES UnmatchedNeverLimited RejectOnlyIfExhausted ReloadKeepsState\n")


def rl_cfg(spec, pols, gaps, counts, maxnow, maxarr, setstate=False, refine=True, view=True, clauses=True):
    return ("SPECIFICATION %s\nCONSTANTS\n  Policies <- %s\n  Gaps <- %s\n  Counts <- %s\n  MaxNow = %d\n  MaxArr = %d\n"
            "  WithSetState = %s\n" % (spec, pols, gaps, counts, maxnow, maxarr, "TRUE" if setstate else "FALSE")
            + ("VIEW view\n" if view else "")
            + ((CLAUSES % ("Conforms RefInv" if refine else "")) if clauses else ""))


def mq_cfg(spec, maxnow, maxarr, hist=False):
    g = ("GridW", "GapsW", "CountsW") if hist else ("GridQ", "GapsS", "CountsQ")
    return ("SPECIFICATION %s\nCONSTANTS\n  Policies <- %s\n  Gaps <- %s\n  Counts <- %s\n  MaxNow = %d\n  MaxArr = %d\n  KeepHist = %s\n"
            % ((spec,) + g + (maxnow, maxarr, "TRUE" if hist else "FALSE")) + "VIEW view\n"
            + (MQ_CLAUSES % ("WindowBound" if hist else "", "Conforms RefInv")))


def fl_cfg(maxreq, maxrel, view=True, clauses=True):
    return ("SPECIFICATION GSpec\nCONSTANTS\n  Specs <- SpecU\n  Requests <- ReqU\n  Bursts <- BurstU\n  MaxReq = %d\n  MaxReload = %d\n" % (maxreq, maxrel)
            + ("VIEW view\n" if view else "") + (FL_CLAUSES if clauses else ""))


TRACE_TAIL = "CONSTRAINT HWM\nPOSTCONDITION Accepted\n"
RL_TRACE_CFG = ("SPECIFICATION TSpec\nCONSTANTS\n  Policies = {}\n  Gaps = {}\n  Counts = {}\n  MaxNow = 0\n  MaxArr = 0\n"
                "  WithSetState = FALSE\n" + TRACE_TAIL +
                "INVARIANTS PerPeriodBound\nPROPERTIES WaitBound ImmediateIfSpare RejectOnlyIfFull\n")
# MultiRateLimiter with a timeout > 0: the reply-level clause only (see "Scope" in RateLimiter.tla)
RLW_TRACE_CFG = ("SPECIFICATION TSpec\nCONSTANTS\n  Policies = {}\n  Gaps = {}\n  Counts = {}\n  MaxNow = 0\n  MaxArr = 0\n"
                 "  WithSetState = FALSE\n" + TRACE_TAIL + "PROPERTIES WaitBound\n")
MQ_TRACE_CFG = ("SPECIFICATION TSpec\nCONSTANTS\n  Policies = {}\n  Gaps = {}\n  Counts = {}\n  MaxNow = 0\n  MaxArr = 0\n"
                "  KeepHist = FALSE\n" + TRACE_TAIL + "PROPERTIES MqttAdmitIfSpare MqttRejectOnlyIfFull\n")
REL_TRACE_CFG = "SPECIFICATION TSpec\n" + TRACE_TAIL + "INVARIANTS PerPeriodBound\n"


def run(ctx):
    ctx.cov["rule"] = ("behaviours = TLC -simulate runs of the implementation-shaped limiter / MQTT limiter / filter specifications, replayed "
                       "in lock-step on the real code (virtual clock for the limiters); whatever the real code answered is then validated by TLC "
                       "against the contract; traces = seeded random arrival processes (sequential, concurrent, MQTT, filter release times) "
                       "recorded from the real code and validated by TLC; non-trivial = distinct behaviours/traces with at least one "
                       "imposed wait, rejection or reload")
    ctx.assumptions += [
        "util limiters: virtual clock installed through the package variable ratelimiter.nowFunc; durations in whole microseconds",
        "refresh cycles are aligned to the limiter's creation (as the code does); 'timeout horizon' = the cycles whose start lies "
        "certainly within the timeout: current .. current + timeout div period",
        "filter replay: already-cancelled request contexts (Handle returns where it would wait) and either a refresh period of 1h or, for "
        "policies that leave the period to its default of 10ms, a run measured to last < 8ms (repeated otherwise) - the limiter's clock is "
        "not replaceable from that package; so every limiter stays at the beginning of its first cycle, where the contract admits exactly "
        "the first L*(T div P+1) requests (theorem FrozenCapacity, model-checked)",
        "filter: a rule that is new or whose policy changed gets a fresh limiter (the text only speaks about unchanged rules); "
        "specs with two identical rules are outside the universe (C13); the old generation is not used after Inherit (C11)",
        "MQTT request/byte limiters (timeout 0): 'bytes exceed bytesRate by less than one packet' is read over windows of whole periods "
        "(any k periods: admitted tokens < k*rate + last packet), i.e. the excess of an oversized packet is a debt paid off at one rate per "
        "period, and a packet must be admitted iff no debt has reached its rate; mqttproxy harness moves the limiter's private startTime to "
        "let time pass and brackets each call with real-clock readings (cycle known up to an interval, TLC searches)",
        "MultiRateLimiter: all clauses for timeout 0 (its only use in easegress); with a timeout > 0 only 'no admitted request is made "
        "to wait longer than timeoutDuration' (a statement about the reply alone) - the per-period clauses are not claimed there "
        "(the unchanged code charges each dimension to its own first free cycle: lead, outside the quantifier)",
    ]
    phases = [("mc", _mc), ("mbt", _mbt), ("tv", _tv), ("ctv", _ctv), ("filter", _filter), ("mqtt", _mqtt)]
    if not ctx.quick:
        phases += [("lead", _lead), ("apalache", _apalache)]
    todo = [(n, f) for n, f in phases if ctx.phase(n)]
    errs = []
    ctx._prepare_build()      # not thread-safe: build the overlay before the phases start
    # the phases are independent (own TLC runs, own go test runs): run a few side by side
    with ThreadPoolExecutor(max_workers=3) as ex:
        futs = [(n, ex.submit(f, ctx)) for n, f in todo]
        for n, fu in futs:
            try:
                fu.result()
            except Inconclusive as e:
                errs.append("[%s] %s" % (n, e))
    if errs:
        ctx.inconclusive("\n".join(errs))


# ------------------------------------------------------------------------------------------ model checking
def _mc(ctx):
    q = ctx.quick
    runs = [
        ("RateLimiter_Gen", rl_cfg("GCSpec", "GridA", "GapsS", "One", 30, 5 if q else 7, refine=False),
         "contract alone (any allowed reply), 15 policies"),
        ("RateLimiter_Gen", rl_cfg("GSpec", "GridA" if q else "GridAB", "GapsS" if q else "GapsL", "One", 63 if q else 100, 9 if q else 12),
         "acquirePermission arithmetic refines the contract, single token"),
        ("RateLimiter_Gen", rl_cfg("GSpec", "GridA" if q else "GridAB", "GapsS", "N123", 30 if q else 50, 5 if q else 7),
         "N-token form"),
        ("RateLimiter_Gen", rl_cfg("GSpec", "GridM", "GapsS", "M2", 30 if q else 40, 6 if q else 8),
         "MultiRateLimiter, timeout 0"),
        ("RateLimiter_Gen", rl_cfg("GSpec", "GridA", "GapsS", "One", 20 if q else 30, 4 if q else 6, setstate=True),
         "with SetState(disabled/normal)"),
        ("RateLimiter_Gen", rl_cfg("GSpec", "GridMW", "GapsS", "MW", 24 if q else 40, 5 if q else 8, view=False, clauses=False)
         + "VIEW viewW\nINVARIANTS TypeOK\nPROPERTIES WaitBound\n", "MultiRateLimiter, timeout > 0: wait <= timeout"),
        ("RateLimiterMqtt_Gen", mq_cfg("GSpec", 30, 6 if q else 8), "MQTT form: token arithmetic = carried debt"),
        ("RateLimiterMqtt_Gen", mq_cfg("GSpec", 14 if q else 18, 6 if q else 7, hist=True), "MQTT form: carried debt => WindowBound (history in the state)"),
        ("RateLimiterFilter_Gen", fl_cfg(5 if q else 7, 2 if q else 3), "filter: first match, 429, reload carry-over"),
    ]

    def one(r):
        return ctx.tlc_mc(r[0], r[1], label=r[2], workers=4 if q else 8, timeout=300 if q else 1500, coverage=not q)
    with ThreadPoolExecutor(max_workers=3 if q else 2) as ex:
        res = list(ex.map(one, runs))
    for r, x in zip(runs, res):
        ctx.log("model checked %-22s %-62s %8d distinct states %5.1fs" % (r[0], r[2], x.distinct, x.wall))
        if not q:
            if x.coverage_zero:
                ctx.inconclusive("model-checking run '%s' never took action(s) %s: invariants vacuous" % (r[2], x.coverage_zero))


# ------------------------------------------------------------------------------------------ helpers
def _segment(ev, hwm):
    end = min(hwm + 1, len(ev))
    start = 0
    for i in range(end - 1, -1, -1):
        if ev[i].get("ev") == "reset":
            start = i
            break
    return ev[start:end]


def _to_mqtt(ev):
    """util-level records -> events of RateLimiterMqtt_Trace (virtual clock: tlo = thi)"""
    out = []
    for e in ev:
        if e["ev"] == "reset":
            out.append({"ev": "reset", "pol": {"L": e["pol"]["L"], "P": e["pol"]["P"]}})
        elif e["ev"] == "arr":
            out.append({"ev": "acq", "tlo": e["t"], "thi": e["t"], "n": e["n"], "ok": e["ok"]})
    return out


def _split(ev):
    cur, out = [], []
    for e in ev:
        if e.get("ev") == "reset" and cur:
            out.append(cur)
            cur = []
        cur.append(e)
    if cur:
        out.append(cur)
    return out


def _interesting(tr):
    return any((e.get("ev") in ("arr", "acq", "inv") and (not e.get("ok") or e.get("w", 0) > 0)) or e.get("ev") in ("dis", "en") for e in tr)


def _validate(ctx, module, cfg, events, name, kind, what, sig_extra=None, count_traces=True):
    """TLC trace validation of recorded events; turns a rejection into a violation."""
    if not events:
        ctx.inconclusive("%s: no events recorded" % name)
    tp = ctx.write_ndjson(name + ".ndjson", events)
    tr = ctx.tlc_trace(module, cfg, tp, timeout=900 if ctx.quick else 2400)
    traces = _split(events)
    ctx.log("%-14s %7d events in %4d traces validated by %s: %s (%d states, %.1fs)" % (
        kind, len(events), len(traces), module, "accepted" if tr.accepted else "REJECTED", tr.states, tr.wall))
    if tr.accepted:
        if count_traces:
            ctx.traces(len(traces))
            ctx.evals(sum(1 for e in events if e.get("ev") != "reset"))
        ni = 0
        for t in traces:
            if _interesting(t):
                ni += 1
                ctx.nontrivial({"k": kind, "t": t})
        if ni == 0 and kind != "filter-release":
            ctx.inconclusive("%s: no recorded trace contains a wait or a rejection (vacuous)" % name)
        ctx.sample({"kind": kind, "events": events[:6]})
        return True
    hwm = tr.hwm
    if tr.inv and re.search(r"Action property \S+ is violated", tr.out) and "VERIF_HWM" in tr.out and hwm > 0:
        hwm -= 1    # TLC reports the step that violates an action property after taking it: the culprit is the last consumed event
    seg = _segment(events, hwm)
    sig = {"kind": kind, "clause": tr.inv or "not-allowed"}
    if seg:
        pol = seg[0].get("pol", {})
        sig["dims"] = len(pol.get("L", [])) if isinstance(pol.get("L"), list) else 1
        sig["timeout0"] = pol.get("T", 0) == 0
        last = seg[-1]
        if last.get("ev") in ("arr", "acq", "inv"):
            sig["reply"] = "admitted" if last.get("ok") else "rejected"
    if sig_extra:
        sig.update(sig_extra)
    ctx.violation(sig, "%s (first unexplained event #%d of %d%s)" % (what, hwm + 1, len(events),
                  ", clause %s" % tr.inv if tr.inv else ", reply not allowed by the contract"), seg[-60:])
    return False


# ------------------------------------------------------------------------------------------ MBT
def _mbt(ctx):
    q = ctx.quick
    nA, nM, nW, depth = (220, 110, 110, 30) if q else (3000, 1500, 1500, 40)
    simA = ("SPECIFICATION GSpecS\nCONSTANTS\n  Policies <- GridAB\n  Gaps <- GapsL\n  Counts <- One\n  MaxNow = 1000000\n"
            "  MaxArr = 1000000\n  WithSetState = FALSE\n")
    simM = ("SPECIFICATION GSpec\nCONSTANTS\n  Policies <- GridQ\n  Gaps <- GapsD\n  Counts <- CountsD\n  MaxNow = 1000000\n  MaxArr = 1000000\n"
            "  KeepHist = FALSE\n")
    # MultiRateLimiter with a timeout > 0 (2 and 3 dimensions), bursts (gap 0) included
    simW = ("SPECIFICATION GSpec\nCONSTANTS\n  Policies <- GridMW\n  Gaps <- GapsS\n  Counts <- MW\n  MaxNow = 1000000\n"
            "  MaxArr = 1000000\n  WithSetState = FALSE\n")
    with ThreadPoolExecutor(max_workers=3) as ex:
        fa = ex.submit(ctx.tlc_simulate, "RateLimiter_Gen", simA, nA, depth)
        fm = ex.submit(ctx.tlc_simulate, "RateLimiterMqtt_Gen", simM, nM, depth)
        fw = ex.submit(ctx.tlc_simulate, "RateLimiter_Gen", simW, nW, depth)
        behsA, behsM, behsW = fa.result(), fm.result(), fw.result()
    behs = behsA + behsM + behsW
    has = lambda f: any(f(st) for b in behsA for st in b[1:])
    if not (has(lambda st: st.get("a") == "arr" and not st["ok"]) and has(lambda st: st.get("a") == "arr" and st["ok"] and st["w"] > 0)
            and has(lambda st: st.get("a") == "en")):
        ctx.inconclusive("generated behaviours contain no rejection / no wait / no SetState (vacuous)")
    if _multi_pressure(behsW, lambda b: b[0]["pol"], lambda st: st.get("a") == "arr") < (10 if q else 100):
        ctx.inconclusive("generated MultiRateLimiter behaviours: too few with waits followed by a rejection under a horizon of >= 2 periods (vacuous)")
    inp = ctx.path("c09_behs.ndjson")
    with open(inp, "w") as fh:
        for b in behs:
            fh.write(jdump(b) + "\n")
    outp, obsp = ctx.path("c09_replay.ndjson"), ctx.path("c09_replay_obs.ndjson")
    rc, out = ctx.go_test(PKG_U, "^TestVerifC09Replay$", env={"VERIF_IN": inp, "VERIF_OUT": outp, "VERIF_OUT2": obsp})
    recs = ctx.read_ndjson(outp)
    obs = ctx.read_ndjson(obsp)
    summ = [x for x in recs if x.get("k") == "summary"]
    if rc != 0 or not summ or not obs:
        ctx.inconclusive("C09 replay harness failed:\n" + out[-3000:])
    mism = [x for x in recs if x.get("k") == "mismatch"]
    # what the real code answered, validated against the contracts
    nAM = len(behsA) + len(behsM)
    strip = lambda e: {k: v for k, v in e.items() if k != "b"}
    evA = [strip(e) for e in obs if e["b"] < len(behsA)]
    evM = _to_mqtt([e for e in obs if len(behsA) <= e["b"] < nAM])
    evW = [strip(e) for e in obs if e["b"] >= nAM]
    okA = _validate(ctx, "RateLimiter_Trace", RL_TRACE_CFG, evA, "c09_mbt_rl", "mbt",
                    "replaying a TLC-generated arrival sequence, the real RateLimiter gave a reply the contract forbids")
    okM = _validate(ctx, "RateLimiterMqtt_Trace", MQ_TRACE_CFG, evM, "c09_mbt_mqtt", "mbt-mqtt",
                    "replaying a TLC-generated packet sequence, the real limiter (timeout 0, request/byte form) gave a reply the MQTT contract forbids")
    okW = _validate(ctx, "RateLimiter_Trace", RLW_TRACE_CFG, evW, "c09_mbt_multi", "mbt-multi",
                    "replaying a TLC-generated arrival sequence, the real MultiRateLimiter (timeout > 0) admitted a request with a wait "
                    "longer than timeoutDuration")
    ctx.sample({"kind": "tlc-behaviour", "steps": behsA[0][:6]})
    if mism and okA and okM and okW:
        # the real code differs from the implementation-shaped model but stays within the contract:
        # not a violation of C09 (the model has to be brought up to date)
        ctx.notes.append("implementation-shaped layer out of date: %d of %d replayed behaviours differ from the token arithmetic of the "
                         "model while satisfying the contract, e.g. %s" % (len(mism), len(behs), mism[0]["what"]))
        ctx.log("NOTE: %d behaviours deviate from the implementation-shaped model but satisfy the contract" % len(mism))
    ctx.log("MBT: %d behaviours (%d limiter, %d MQTT form, %d multi with timeout), %d steps, %d deviations from the model" % (
        len(behs), len(behsA), len(behsM), len(behsW), summ[0]["steps"], len(mism)))


def _multi_pressure(seqs, pol_of, is_arr):
    """number of arrival sequences at a multi-dimensional limiter whose horizon spans >= 2 periods (T >= P) in which some
    request was admitted with a wait and a later one was rejected: every dimension's horizon matters there"""
    n = 0
    for sq in seqs:
        pol = pol_of(sq)
        if not (isinstance(pol.get("L"), list) and len(pol["L"]) >= 2 and pol.get("T", 0) >= pol["P"]):
            continue
        waited = False
        for st in sq[1:]:
            if not is_arr(st):
                continue
            if st["ok"] and st["w"] > 0:
                waited = True
            elif not st["ok"] and waited:
                n += 1
                break
    return n


# ------------------------------------------------------------------------------------------ TV (sequential)
def _tv(ctx):
    n, steps = (40, 150) if ctx.quick else (250, 2000)

    def rec(mq):
        tp = ctx.path("c09_trace_%d.ndjson" % mq)
        rc, out = ctx.go_test(PKG_U, "^TestVerifC09Trace$", env={"VERIF_OUT": tp, "VERIF_N": n, "VERIF_STEPS": steps, "VERIF_MQTT": mq})
        ev = ctx.read_ndjson(tp)
        if rc != 0 or not ev:
            ctx.inconclusive("C09 trace harness failed:\n" + out[-3000:])
        return [{k: v for k, v in e.items() if k != "seq"} for e in ev]
    ev = rec(0)
    _validate(ctx, "RateLimiter_Trace", RL_TRACE_CFG, ev, "c09_tv_rl", "trace",
              "recorded history of the real RateLimiter (random time.Duration policy, random arrival process) violates the contract")
    evm = _to_mqtt(rec(1))
    _validate(ctx, "RateLimiterMqtt_Trace", MQ_TRACE_CFG, evm, "c09_tv_mqtt", "trace-mqtt",
              "recorded history of the real request/byte limiter (timeout 0) violates the MQTT contract")
    evw = rec(2)
    if _validate(ctx, "RateLimiter_Trace", RLW_TRACE_CFG, evw, "c09_tv_multi", "trace-multi",
                 "recorded history of the real MultiRateLimiter (2-3 dimensions, timeout > 0): an admitted request was made to wait "
                 "longer than timeoutDuration"):
        k = _multi_pressure(_split(evw), lambda tr: tr[0]["pol"], lambda e: e.get("ev") == "arr")
        if k < (5 if ctx.quick else 30):
            ctx.inconclusive("c09_tv_multi: only %d recorded MultiRateLimiter traces with a horizon of >= 2 periods show waits followed by a "
                             "rejection (vacuous)" % k)


# ------------------------------------------------------------------------------------------ TV (concurrent)
def _ctv(ctx):
    n, rounds = (20, 5) if ctx.quick else (150, 8)
    tp = ctx.path("c09_ctrace.ndjson")
    rc, out = ctx.go_test(PKG_U, "^TestVerifC09Conc$", env={"VERIF_OUT": tp, "VERIF_N": n, "VERIF_ROUNDS": rounds}, race=not ctx.quick)
    ev = ctx.read_ndjson(tp)
    if "DATA RACE" in out:
        ctx.violation({"kind": "race"}, "data race reported by the Go race detector in concurrent AcquirePermission", out[-4000:])
        return
    if rc != 0 or not ev:
        ctx.inconclusive("C09 concurrent harness failed:\n" + out[-3000:])
    _validate(ctx, "RateLimiter_CTrace", RL_TRACE_CFG, ev, "c09_ctv", "ctrace",
              "concurrent history of the real RateLimiter has no linearisation allowed by the contract")


# ------------------------------------------------------------------------------------------ filter
def _filter(ctx):
    q = ctx.quick
    nb, depth = (200, 16) if q else (2500, 22)
    behs = ctx.tlc_simulate("RateLimiterFilter_Gen", fl_cfg(1000000, 1000000, view=False, clauses=False), nb, depth)
    inp = ctx.path("c09_fbehs.ndjson")
    with open(inp, "w") as fh:
        for b in behs:
            fh.write(jdump(b) + "\n")
    outp = ctx.path("c09_freplay.ndjson")
    rc, out = ctx.go_test(PKG_F, "^TestVerifC09FilterReplay$", env={"VERIF_IN": inp, "VERIF_OUT": outp})
    recs = ctx.read_ndjson(outp)
    summ = [x for x in recs if x.get("k") == "summary"]
    errs = [x for x in recs if x.get("k") == "error"]
    if rc != 0 or not summ or errs:
        ctx.inconclusive("C09 filter replay harness failed: %s\n%s" % (errs[:2], out[-3000:]))
    if summ[0]["elapsed_ms"] > 20 * 60 * 1000:
        ctx.inconclusive("C09 filter replay took %d ms: the frozen-clock assumption (everything within the first half hour) is void" % summ[0]["elapsed_ms"])
    ctx.evals(summ[0]["steps"])
    ctx.traces(len(behs) - summ[0]["slow"])
    if summ[0]["slow"] * 2 > max(1, summ[0]["fast"]):
        ctx.inconclusive("C09 filter replay: %d of the %d behaviours with a default (10ms) refresh period could not be run within 8ms "
                         "(machine too slow): the frozen-clock assumption could not be established" % (summ[0]["slow"], summ[0]["fast"]))
    reqs = [st for b in behs for st in b[1:] if st.get("a") == "req"]
    if not any(st["hit"] == 0 for st in reqs) or not any(st["adm"] < st["k"] for st in reqs):
        ctx.inconclusive("filter behaviours contain no request to an unmatched URL / no rejection (vacuous)")
    carried, carried_re = 0, 0
    via_seen = set(st.get("via") for st in reqs)
    for b in behs:
        # a rejection right after a reload: the permits were used up on an earlier generation
        rej = [b[i + 1] for i in range(1, len(b) - 1)
               if b[i].get("a") == "reload" and b[i + 1].get("a") == "req" and b[i + 1]["hit"] > 0 and b[i + 1]["adm"] == 0]
        if rej:
            carried += 1
            ctx.nontrivial({"k": "filter", "b": b})
            # ... of a rule that accepted the path through its regular expression only
            if any(st.get("via") == "regex" for st in rej):
                carried_re += 1
    if carried < 5:
        ctx.inconclusive("filter behaviours: only %d show a limiter exhausted on one generation and still limiting on the next (vacuous)" % carried)
    if carried_re < 3:
        ctx.inconclusive("filter behaviours: only %d show a limiter exhausted on one generation and still limiting, through a rule matched by "
                         "its regular expression, on the next (vacuous)" % carried_re)
    if not {"exact", "prefix", "regex", "empty", "several", "none"} <= via_seen:
        ctx.inconclusive("filter behaviours: not every kind of URL pattern decided a request (seen: %s)" % sorted(via_seen))
    ctx.sample({"kind": "filter-behaviour", "steps": [{k: v for k, v in s.items() if k != "spec"} for s in behs[0][1:7]]})
    for m in [x for x in recs if x.get("k") == "mismatch"]:
        beh = m["behaviour"]
        reloaded = any(s.get("a") == "reload" for s in beh[1:])
        st = beh[-1]
        defaults = any(p.get("L") == 0 or p.get("tmo") == -1 or p.get("per") == "d"
                       for s in beh if "spec" in s for p in s["spec"]["pols"])
        cls = ("unmatched-url-limited" if st.get("hit") == 0 else "reject-shape" if "neither admitted" in m["what"] else
               "too-many-admitted" if "of" in m["what"] and int(m["what"].split()[0]) > st.get("adm", 0) else "too-few-admitted")
        ctx.violation({"kind": "filter", "class": cls, "after_reload": reloaded, "defaulted_policy": defaults, "via": st.get("via", "")},
                      "real RateLimiter filter diverges from the specification at step %d: %s" % (m["step"], m["what"]), m)
    ctx.log("filter: %d behaviours (%d need the 10ms-period limiters to stay young: %d too slow), %d steps, %d mismatches, %d with state carried over a reload "
            "(%d through a regex-matched rule); patterns deciding: %s" % (
        len(behs), summ[0]["fast"], summ[0]["slow"], summ[0]["steps"], summ[0]["mismatches"], carried, carried_re,
        {v: sum(1 for st in reqs if st.get("via") == v) for v in sorted(via_seen)}))
    # real time, one-sided: releases per refresh cycle
    tp = ctx.path("c09_frel.ndjson")
    rc, out = ctx.go_test(PKG_F, "^TestVerifC09FilterRelease$", env={"VERIF_OUT": tp, "VERIF_N": 3 if q else 10})
    ev = [{k: v for k, v in e.items() if k != "seq"} for e in ctx.read_ndjson(tp)]
    if rc != 0 or not ev or any(e.get("ev") == "error" for e in ev):
        ctx.inconclusive("C09 filter release harness failed:\n" + out[-3000:])
    if sum(1 for e in ev if e["ev"] == "rel") < 4:
        ctx.inconclusive("C09 filter release harness: too few admissions (vacuous)")
    for e in ev:
        if e["ev"] == "rej" and (e.get("res") != "rateLimited" or e.get("code") != 429):
            ctx.violation({"kind": "filter", "class": "reject-shape"}, "rejection is not (rateLimited, 429): %s" % e, ev)
    _validate(ctx, "RateLimiterRel_Trace", REL_TRACE_CFG, ev, "c09_frel", "filter-release",
              "RateLimiter.Handle let more than limitForPeriod requests through within one refresh cycle (release intervals measured "
              "around Handle cannot be assigned to cycles with at most L each)")


# ------------------------------------------------------------------------------------------ mqttproxy
def _mqtt(ctx):
    n, steps = (40, 80) if ctx.quick else (300, 200)
    tp = ctx.path("c09_mqtt.ndjson")
    rc, out = ctx.go_test(PKG_M, "^TestVerifC09MqttTrace$", env={"VERIF_OUT": tp, "VERIF_N": n, "VERIF_STEPS": steps})
    ev = [{k: v for k, v in e.items() if k != "seq"} for e in ctx.read_ndjson(tp)]
    if rc != 0 or not ev or any(e.get("ev") == "error" for e in ev):
        ctx.inconclusive("C09 mqttproxy harness failed: %s\n%s" % ([e for e in ev if e.get("ev") == "error"][:1], out[-3000:]))
    _validate(ctx, "RateLimiterMqtt_Trace", MQ_TRACE_CFG, ev, "c09_mqtt", "mqtt-limiter",
              "mqttproxy.Limiter.acquirePermission history violates the MQTT request/byte contract")
    if not ctx.quick:
        tp = ctx.path("c09_mqtt_real.ndjson")
        rc, out = ctx.go_test(PKG_M, "^TestVerifC09MqttReal$", env={"VERIF_OUT": tp, "VERIF_SECS": 4})
        ev = [{k: v for k, v in e.items() if k != "seq"} for e in ctx.read_ndjson(tp)]
        if rc != 0 or not ev:
            ctx.inconclusive("C09 mqttproxy real-time harness failed:\n" + out[-3000:])
        _validate(ctx, "RateLimiterMqtt_Trace", MQ_TRACE_CFG, ev, "c09_mqtt_real", "mqtt-limiter-realtime",
                  "mqttproxy.Limiter.acquirePermission history (real clock) violates the MQTT request/byte contract")


# ------------------------------------------------------------------------------------------ lead (not verdict-bearing)
def _lead(ctx):
    """MultiRateLimiter with a timeout > 0 is not used by easegress (outside C09's quantifier). TLC shows
    that its token arithmetic does not refine the contract there; the counterexample is replayed on the
    real code and the outcome recorded as a note only."""
    cfg = ("SPECIFICATION GSpec\nCONSTANTS\n  Policies <- GridMT\n  Gaps <- GapsS\n  Counts <- M10\n  MaxNow = 20\n  MaxArr = 6\n"
           "  WithSetState = FALSE\nVIEW view\nINVARIANTS PerPeriodBound\n")
    r = ctx.tlc_mc("RateLimiter_Gen", cfg, workers=1, timeout=300, expect_ok=False, count=False,
                   label="lead: MultiRateLimiter with timeout > 0 (expected to violate PerPeriodBound)")
    if r.violated != "PerPeriodBound":
        ctx.notes.append("lead multi-limiter-with-timeout: TLC found no counterexample (%s)" % (r.error or "ok"))
        return
    beh = []
    for ln in r.out.splitlines():
        m = _OUT_RE.match(ln)
        if m and m.group(1) == "out":
            beh.append(json.loads(json.loads(m.group(2))))
    inp = ctx.path("c09_lead.ndjson")
    open(inp, "w").write(jdump(beh) + "\n")
    outp = ctx.path("c09_lead_out.ndjson")
    rc, out = ctx.go_test(PKG_U, "^TestVerifC09Lead$", env={"VERIF_IN": inp, "VERIF_OUT": outp})
    recs = ctx.read_ndjson(outp)
    if rc != 0 or not recs:
        ctx.notes.append("lead multi-limiter-with-timeout: replay failed")
        return
    same = all(x.get("same", True) for x in recs)
    ctx.notes.append("lead (outside C09: MultiRateLimiter is only used with timeout 0): with a timeout > 0 a request is charged, per "
                     "dimension, to that dimension's first free cycle but released at the latest of them, so more than "
                     "limitForPeriod requests can be released in one period; TLC counterexample %s the real code: %s"
                     % ("reproduced on" if same else "NOT reproduced on", jdump([{k: x[k] for k in ("t", "n", "ok", "w") if k in x} for x in recs if x.get("ev") == "arr"])))
    ctx.log("lead multi-limiter-with-timeout: counterexample %s on the real code" % ("reproduced" if same else "not reproduced"))


# ------------------------------------------------------------------------------------------ Apalache (never verdict-bearing)
def _apalache(ctx):
    from props import _c09apalache
    _c09apalache.run(ctx)

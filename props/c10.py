"""C10 - retry and time-limit policies bound attempts and waiting (DESIGN 5/C10).

Oracle: specs/Resilience.tla (contract: which attempts may be made for one client request and what the
client and the circuit breaker must see).  specs/ResilienceImpl.tla is ServerPool.handle with its
wrappers as the code writes them; TLC checks that it refines the contract.  Binding: TLC enumerates
the scenarios (policy x script of per-attempt outcomes x cancellation point x stream/buffered x
breaker x time-out; Resilience_Gen), each is run on the real Proxy with the real policies injected
and a scripted transport, and the recorded attempts / final outcome are validated by TLC against the
contract (Resilience_Trace).
"""
import random
import re

from lib.vlib import jdump

PKG = "pkg/filters/proxy"

INVS = "INVARIANTS TypeOK AttemptsBounded StopsAtFirstSuccess StreamSentOnce FinalIsLast TimeoutReported OneRecord ShortCircuit\n"
PROPS = INVS + "PROPERTIES NoAttemptAfterCancel BackoffRespected\n"


def contract_cfg(scn):
    return "SPECIFICATION %sSpec\nCONSTANTS\n  Scenarios = {}\n  Waits <- GenWaits\nVIEW view\n" % scn + PROPS


def impl_cfg(scn, reset=True, outside=True, timer=True):
    return ("SPECIFICATION I%sSpec\nCONSTANTS\n  Scenarios = {}\n  Waits <- GenWaits\n  ResetPerAttempt = %s\n  BreakerOutside = %s\n"
            "  TimerAlways = %s\nVIEW iview\n" % (scn, str(reset).upper(), str(outside).upper(), str(timer).upper())) + PROPS + "PROPERTIES Refines\n"


def vec_cfg(scn):
    return ("SPECIFICATION V%sSpec\nCONSTANTS\n  Scenarios = {}\n  Waits <- GenWaits\n  ResetPerAttempt = TRUE\n  BreakerOutside = TRUE\n  TimerAlways = TRUE\n" % scn)


TRACE_CFG = "SPECIFICATION TSpec\nCONSTANTS\n  Scenarios = {}\n  Waits = {}\nCONSTRAINT HWM\nPOSTCONDITION TraceAccepted\n" + PROPS


def run(ctx):
    ctx.cov["rule"] = ("evaluations = scenarios (TLC-enumerated initial states of Resilience_Gen: retry policy x per-attempt outcome script x "
                       "cancellation point x stream/buffered x breaker none/closed/open x pool time-out x deadline of the client's own context "
                       "none/later/earlier than the pool time-out) run on the real Proxy; traces = "
                       "scenarios whose recorded attempts, cancellation and final outcome were validated by TLC against the contract; "
                       "non-trivial = distinct scenarios in which the real pool made a second attempt, was cancelled, timed out, was "
                       "short-circuited or carried a stream")
    ctx.assumptions += ["the transport is the package variable fnSendRequest, scripted by the harness",
                        "an attempt's outcome is what the Proxy documents: serverError/503, timeout/408, clientError/499, failureCode/<code>",
                        "real time only one-sided: the recorded gap between two calls is never shorter than the wait made; scenarios whose "
                        "timing could not be kept on a busy machine are discarded (counted), never judged",
                        "the first attempt of a request is not a 'further' attempt: it is made even if the client is already gone",
                        "the expiry of a deadline that the client's own request context carries ends the client's request like a "
                        "cancellation; whether that attempt is reported as timeout/408 or clientError/499 is left open"]
    from concurrent.futures import ThreadPoolExecutor
    with ThreadPoolExecutor(max_workers=1) as ex:
        mc = ex.submit(_mc, ctx) if ctx.phase("mc") else None
        try:
            if ctx.phase("mbt"):
                _vectors(ctx)
        finally:
            if mc is not None:
                mc.result()


def _mc(ctx):
    from concurrent.futures import ThreadPoolExecutor
    scn = "Quick" if ctx.quick else "All"
    w = 4 if ctx.quick else 8
    with ThreadPoolExecutor(max_workers=4) as ex:
        jobs = {
            "contract": ex.submit(ctx.tlc_mc, "Resilience_MC", contract_cfg(scn), label="contract, %s scenarios" % scn, timeout=1500, workers=w),
            "impl": ex.submit(ctx.tlc_mc, "ResilienceImpl_MC", impl_cfg(scn), label="ServerPool.handle refines the contract, %s scenarios" % scn,
                              timeout=1500, workers=w),
            "neg-reset": ex.submit(ctx.tlc_mc, "ResilienceImpl_MC", impl_cfg("Small", reset=False),
                                   label="negative control: per-attempt state not reset", expect_ok=False, count=False, workers=2),
            "neg-order": ex.submit(ctx.tlc_mc, "ResilienceImpl_MC", impl_cfg("Small", outside=False),
                                   label="negative control: breaker inside the retry loop", expect_ok=False, count=False, workers=2),
            "neg-timer": ex.submit(ctx.tlc_mc, "ResilienceImpl_MC", impl_cfg("Small", timer=False),
                                   label="negative control: pool time-out not armed when the client's context has a deadline",
                                   expect_ok=False, count=False, workers=2),
        }
        res = {k: f.result() for k, f in jobs.items()}
    ctx.log("contract: %d distinct states (%.0fs); implementation layer: %d (%.0fs)"
            % (res["contract"].distinct, res["contract"].wall, res["impl"].distinct, res["impl"].wall))
    for k in ("neg-reset", "neg-order", "neg-timer"):
        if not res[k].violated:
            ctx.inconclusive("negative control %s was not rejected by TLC: %s" % (k, res[k].error))


# ------------------------------------------------------------------------------------------
def _split(ev):
    runs, cur = [], []
    for e in ev:
        if e.get("ev") == "reset":
            if cur:
                runs.append(cur)
            cur = []
        cur.append(e)
    if cur:
        runs.append(cur)
    return runs


def _describe(run, idx):
    """what went wrong, for the signature (the verdict is TLC's)"""
    sc = run[0]["sc"]
    e = run[idx]
    prev = [x for x in run[1:idx]]
    rets = [x for x in prev if x["ev"] == "ret"]
    wrapped = sc["retry"] and not sc["stream"]
    if e["ev"] == "att":
        if sc["cb"] == "open":
            why = "call-while-short-circuited"
        elif e["i"] > 1 and sc["stream"]:
            why = "stream-resent"
        elif e["i"] > 1 and not sc["retry"]:
            why = "retry-without-policy"
        elif e["i"] > sc["max"] and wrapped:
            why = "more-than-maxAttempts"
        elif rets and rets[-1]["k"] in ("ok", "okc"):
            why = "attempt-after-success"
        elif any(x["ev"] == "cancel" for x in prev) or any(x["k"] == "cancel" for x in rets):
            why = "attempt-after-cancel"
        else:
            why = "back-off-too-short"
    elif e["ev"] == "ret":
        why = "call-" + str(e.get("k"))
    elif e["ev"] == "fin":
        why = "final"
        last = rets[-1]["k"] if rets else "-"
        if isinstance(e.get("res"), str) and e["res"].startswith("panic"):
            why = "panic"
        elif e.get("res") == "hung":
            why = "hung"
        else:
            exp_recs = 1 if sc["cb"] == "closed" else 0
            if e.get("recs") != exp_recs:
                why = "breaker-records"
            why += ":" + last
    else:
        why = e["ev"]
    return {"kind": "vector", "why": why, "retry": sc["retry"], "stream": sc["stream"], "cb": sc["cb"], "tmo": sc["tmo"],
            "cdl": sc.get("cdl", "none")}


def _run_and_validate(ctx, vecs, tag, slow=1):
    inp = ctx.write_ndjson("c10_vec_%s.ndjson" % tag, [{"sc": v} for v in vecs])
    outp = ctx.path("c10_obs_%s.ndjson" % tag)
    rc, out = ctx.go_test(PKG, "^TestVerifC10Vectors$", env={"VERIF_IN": inp, "VERIF_OUT": outp, "VERIF_SLOW": slow, "VERIF_PAR": 12},
                          timeout=1500)
    ev = ctx.read_ndjson(outp)
    if rc != 0 or not ev:
        ctx.inconclusive("C10 harness failed:\n" + out[-3000:])
    runs = _split(ev)
    if len(runs) != len(vecs):
        ctx.inconclusive("C10 harness ran %d of %d scenarios" % (len(runs), len(vecs)))
    rej = [r for r in runs if any(e["ev"] == "rejected" for e in r)]
    if rej:
        ctx.inconclusive("C10 harness could not set up a scenario: %s" % jdump(rej[0]))
    tainted = [r for r in runs if r[-1].get("tainted")]
    good = [r for r in runs if not r[-1].get("tainted")]
    flat, starts = [], []
    for r in good:
        starts.append(len(flat))
        flat.extend(r)
    tp = ctx.write_ndjson("c10_trace_%s.ndjson" % tag, flat)
    tr = ctx.tlc_trace("Resilience_Trace", TRACE_CFG, tp, timeout=1500)
    if not tr.accepted:
        if tr.inv:
            i = max(j for j, s in enumerate(starts) if s <= tr.hwm)
            return good, tainted, [(good[i], len(good[i]) - 1, {"kind": "vector", "why": "invariant " + tr.inv})]
        ctx.inconclusive("trace validation of C10 scenarios stopped at event %d of %d:\n%s" % (tr.hwm + 1, tr.total, tr.out[-2000:]))
    bad = []
    for ln in sorted({int(x) for x in re.findall(r"VERIF_REJECT\W+(\d+)", tr.out)}):
        i = max(j for j, s in enumerate(starts) if s <= ln - 1)
        idx = ln - 1 - starts[i]
        bad.append((good[i], idx, _describe(good[i], idx)))
    return good, tainted, bad


def _vectors(ctx):
    scn = "Quick" if ctx.quick else "All"
    recs = ctx.tlc_dump("Resilience_Gen", vec_cfg(scn), timeout=1500, count=False, label="scenario vectors")
    allv = sorted((r["sc"] for r in recs if r.get("a") == "init"), key=jdump)
    if len(allv) < 500:
        ctx.inconclusive("only %d scenario vectors exported" % len(allv))
    rng = random.Random(ctx.seed)
    k = 500 if ctx.quick else 100000        # thorough: every scenario
    if len(allv) <= k:
        vecs = allv
    else:
        # a sample, with every stratum (breaker open, deadline of the client's own, stream) represented
        strata = {}
        for v in allv:
            strata.setdefault((v["cb"] == "open", v.get("cdl", "none"), v["stream"],
                               "hang" in v["script"], "cdl" in v["script"]), []).append(v)
        vecs, chosen = [], set()
        for key in sorted(strata, key=str):
            for v in rng.sample(strata[key], min(8, len(strata[key]))):
                vecs.append(v)
                chosen.add(jdump(v))
        for v in allv:                        # long retry chains: all of them, always
            if v["max"] > 3 and jdump(v) not in chosen:
                vecs.append(v)
                chosen.add(jdump(v))
        rest = [v for v in allv if jdump(v) not in chosen]
        vecs += rng.sample(rest, max(0, k - len(vecs)))
    ctx.log("%d scenarios exported by TLC, %d run" % (len(allv), len(vecs)))
    ctx.cov["scenarios_total"] = len(allv)
    ctx.cov["scenarios_all_run"] = len(vecs) == len(allv)
    good, tainted, bad = _run_and_validate(ctx, vecs, "a")
    ctx.evals(len(vecs))
    if len(tainted) > len(vecs) // 4:
        ctx.inconclusive("timing could not be kept in %d of %d scenarios (machine too busy)" % (len(tainted), len(vecs)))
    if tainted:
        ctx.notes.append("%d scenarios discarded because their timing could not be kept" % len(tainted))
    badkeys = {jdump(r[0]["sc"]) for r, _i, _s in bad}
    ok = [r for r in good if jdump(r[0]["sc"]) not in badkeys]
    ctx.traces(len(ok))
    stats = {"retried": 0, "cancelled": 0, "timeout": 0, "shortcircuit": 0, "stream": 0, "maxed": 0, "stopped": 0,
             "timeout_under_later_deadline": 0, "client_deadline_expired": 0}
    for r in ok:
        sc, fin = r[0]["sc"], r[-1]
        atts = [e for e in r if e["ev"] == "att"]
        flags = []
        if len(atts) >= 2:
            flags.append("retried")
        if len(atts) == sc["max"] and sc["max"] > 1:
            flags.append("maxed")
        if 1 <= len(atts) < sc["max"] and sc["retry"] and not sc["stream"] and fin.get("res") == "":
            flags.append("stopped")
        if any(e["ev"] == "cancel" for e in r) or any(e.get("k") == "cancel" for e in r):
            flags.append("cancelled")
        if fin.get("res") == "timeout":
            flags.append("timeout")
        if sc.get("cdl") == "later" and any(e["ev"] == "ret" and e.get("k") == "hang" for e in r):
            flags.append("timeout_under_later_deadline")
        if any(e["ev"] == "ret" and e.get("k") == "cdl" for e in r):
            flags.append("client_deadline_expired")
        if fin.get("res") == "shortCircuited":
            flags.append("shortcircuit")
        if sc["stream"]:
            flags.append("stream")
        for f in flags:
            stats[f] += 1
        if flags:
            ctx.nontrivial({"sc": sc})
    ctx.log("validated %d scenarios: %s; %d tainted, %d rejected" % (len(ok), jdump(stats), len(tainted), len(bad)))
    ctx.cov["c10_stats"] = stats
    need = ["retried", "cancelled", "timeout", "shortcircuit", "stream", "maxed", "timeout_under_later_deadline", "client_deadline_expired"]
    if not bad and any(stats[x] == 0 for x in need):
        ctx.inconclusive("vacuous run: %s" % jdump(stats))
    if ok:
        ctx.sample({"kind": "scenario run on the real pool", "events": ok[0]})
        multi = [r for r in ok if len([e for e in r if e["ev"] == "att"]) >= 3]
        if multi:
            ctx.sample({"kind": "scenario run on the real pool", "events": multi[0]})
    if not bad:
        return
    # re-check before reporting (DESIGN 2.3): the rejected scenarios are run again, three times slower
    again = [r[0]["sc"] for r, _i, _s in bad]
    for v in again:
        v.pop("base", None)
    seen = set()
    uniq = []
    for v in again:
        if jdump(v) not in seen:
            seen.add(jdump(v))
            uniq.append(v)
    uniq = uniq[:40]
    # three runs of each: a failure that depends on a random draw of the back-off must get its chance
    _g2, _t2, bad2 = _run_and_validate(ctx, uniq * 3, "b", slow=3)
    confirmed = {}
    for r, idx, sig in bad2:
        confirmed[jdump(sig)] = (r, idx, sig)
    first = {jdump(sig) for _r, _i, sig in bad}
    for key, (r, idx, sig) in confirmed.items():
        e = r[idx]
        ctx.violation(sig, "scenario %s: the real pool's %s event %s is not allowed by the contract (%s)"
                      % (jdump({k: v for k, v in r[0]["sc"].items() if k != "base"}), e["ev"], jdump(e), sig["why"]), r[:idx + 1])
    lost = first - set(confirmed)
    if lost and not confirmed:
        ctx.inconclusive("%d rejected scenario classes did not reproduce when run again slower: %s" % (len(lost), sorted(lost)[:3]))

"""C11 - hot update: one consistent generation per request, none fails on update (DESIGN 5/C11).

Spec: specs/HotUpdate.tla (+ _Gen, _MC, _Trace) and specs/HotUpdateGF.tla (+ _Gen, _MC: the GlobalFilter, whose optional before/after
pipelines an HTTPServer runs around every pipeline).  Phases (VERIF_PHASES=probe,mc,mbt,kinds,tv):
  probe  the implementation-shaped parameters of the model are *observed* on the real code: how the
         Inherit of RateLimiter / Proxy treats the previous generation's state cell (move/share/fresh)
         and what Close does to Handle
  mc     TLC checks the contract (Consistent, NoFailure, Available, Visibility, Isolation, Settled,
         Configured, Limited, IsolationStep, NoOp) exhaustively for the contract's modes; shows that the
         invariants are not vacuous (seven deliberately wrong knobs must violate them); checks the observed modes -
         a violation there is a lead (a schedule), decided by replaying schedules on the real code
  mbt    TLC-generated schedules replayed step by step on the real mux + TrafficController +
         Pipelines + filters (httpserver harness), on the TrafficController (trafficcontroller
         harness), on bare RateLimiter / Proxy instances
  kinds  the same schedules on a real one-filter Pipeline of every filter kind that can be built offline
Configuration dimensions (strengthening round): a pipeline generation is [fv, pv] - version of its filters and of its
resilience section - and an update changes either or both (PipKinds); request classes make the configuration of the
generation a request holds observable on the real code: class "x" (POST: a URL rule every generation limits to 1 permit
per hour - the limiter is the state cell generations share; must still limit after Close(prev)), class "f" (the backend
answers 503: the Proxy makes maxAttempts = pv + 1 attempts, the retry policy of the held generation's resilience section).
Class "d" (PUT: a URL whose rule falls under the RateLimiter's *default policy*): updates of kind "dflt" switch the default policy
between a tight one (1 permit per hour) and a loose one (never limits), both defined identically in the old and the new spec - by
defaultPolicyRef, by the rule's policyRef or by the content of the policy (one realisation per schedule); a loose generation must
not limit, a tight one must not let more pass than its limit (bare RateLimiter and one-filter pipeline harnesses).
Judged only on generations that are not closed; baselines on a first generation guard the reading.
Options of the Proxy (mbt-opts): the Proxy's spec has separately versioned options (Options: server url, mTLS root CA, mTLS client
certificate, pool timeout, failure codes, maxIdleConns); an update of kind o changes exactly that one field of the spec ("allopts": all,
"resil": none).  Class "o" requests are replayed on real one-Proxy pipelines that talk mTLS to an HTTPS backend with generated CAs: the
backend echoes the path and the client certificate, presents a certificate of the configured / of another CA, holds the answer, answers
the status it is asked for - the call must be made under the options of the generation the request holds (Configured; knob StaleOpts:
Inherit carries over what an option configures when no other option changed).
GlobalFilter (mbt-gf): schedules of HotUpdateGF (each update keeps / changes / drops / adds the before and the after section;
requests stop at marker filters in the before, main and after pipelines) replayed on real GlobalFilter objects (Inherit); a
request must pass exactly the pipelines the spec of the generation it holds defines.
  tv     stress: concurrent requests vs. an updater on the real objects, validated by TLC
         (HotUpdate_Trace); -race in the thorough tier
"""
import concurrent.futures
import json
import os
import re
import threading

from lib.vlib import Inconclusive, jdump, sha

P_HTTP = "pkg/object/httpserver"
P_TC = "pkg/object/trafficcontroller"
P_PIPE = "pkg/object/pipeline"
P_RL = "pkg/filters/ratelimiter"
P_PX = "pkg/filters/proxy"
P_GF = "pkg/object/globalfilter"

CONTRACT_MODES = {"InhRl": "share", "ClsRl": "none", "InhPx": "fresh", "ClsPx": "stop"}
INVS = "INVARIANTS TypeOK Consistent NoFailure Available Visibility Isolation Settled Configured Limited\nPROPERTIES IsolationStep NoOp\n"
KIND_NAMES = {"rl": "RateLimiter", "px": "Proxy"}
LOCK = threading.Lock()


def cfg(modes, kinds="KindsFull", reqs=2, ops=2, srv=2, pip=2, other=2, same=1, maxreq=1, targets='{"srv","q"}',
        atomic="fine", lps=False, props=True, view=True, srvkinds='{"rules","opts","both"}', ips='{"n","b"}', mc=False,
        pipkinds='{"both"}', classes='{"n"}', reuse=False, blocking='{"px"}', stale=False, options='{}', staleopts='{}'):
    """cfg text for HotUpdate_MC (mc=True: exhaustive checking, no `out` variable) or HotUpdate_Gen (behaviour generation)"""
    rs = ",".join('"r%d"' % i for i in range(1, reqs + 1))
    t = ("SPECIFICATION %s\nCONSTANTS\n  Reqs = {%s}\n  Routed <- RoutedDef\n  Others = {\"q\"}\n  Kinds <- %s\n" % (
        "MCSpec" if mc else "GSpec", rs, kinds))
    for k in ("InhRl", "ClsRl", "InhPx", "ClsPx"):
        t += '  %s = "%s"\n' % (k, modes[k])
    t += ("  MaxOps = %d\n  MaxSrv = %d\n  MaxPip = %d\n  MaxOther = %d\n  MaxSame = %d\n  MaxReq = %d\n  LoadPerStep = %s\n"
          "  Targets = %s\n  Blocking = %s\n  SrvKinds = %s\n  IPs = %s\n  PipKinds = %s\n  Classes = %s\n  Reuse = %s\n  Stale = %s\n"
          "  Options = %s\n  StaleOpts = %s\n" % (
              ops, srv, pip, other, same, maxreq, "TRUE" if lps else "FALSE", targets, blocking, srvkinds, ips, pipkinds, classes,
              "TRUE" if reuse else "FALSE", "TRUE" if stale else "FALSE", options, staleopts))
    if not mc:
        t += '  Atomic = "%s"\n' % atomic
    if view:
        t += "VIEW view\n"
    if props:
        t += INVS
    return t


# the configuration slice of the model: requests go straight to pipeline pa
CONF_SLICE = dict(ops=2, srv=0, pip=2, other=0, same=0, maxreq=1, targets='{"pa"}', ips='{"n"}', srvkinds='{"both"}',
                  pipkinds='{"filters","resil","both"}', classes='{"n","x","f"}')

# the default-policy slice: requests of class "d" (a URL whose rule falls under the filter's default policy) go straight to
# pipeline pa (one Limiting filter) while updates change the filter spec with or without switching the default policy
DFLT_SLICE = dict(kinds="KindsRl", ops=2, srv=0, pip=2, other=0, same=0, maxreq=1, targets='{"pa"}', ips='{"n"}', srvkinds='{"both"}',
                  pipkinds='{"filters","dflt"}', classes='{"n","d"}')

# the options slice: requests of class "o" go straight to pipeline pa (one Optioned filter: the Proxy) while updates change one option of
# the filter's spec (or all of them, or the part of the spec nothing observes, or the resilience section only)
OPTIONS = '{"url","ca","cert","timeout","fcodes","idle"}'     # "idle" (maxIdleConns): an option nothing shows - the others must stay in force
OPT_KINDS = '{"resil","allopts","url","ca","cert","timeout","fcodes","idle"}'
OPT_SLICE = dict(kinds="KindsPx", ops=2, srv=0, pip=2, other=0, same=0, maxreq=1, targets='{"pa"}', ips='{"n"}', srvkinds='{"both"}',
                 pipkinds=OPT_KINDS, classes='{"o"}', options=OPTIONS)
# (the model treats all options alike: the quick tier checks two of them, one that shows and one that does not)
OPT_SLICE_Q = dict(OPT_SLICE, pipkinds='{"resil","allopts","ca","idle"}', options='{"ca","idle"}')

TRACE_CFG = ("SPECIFICATION TSpec\nCONSTANTS\n  Reqs = {\"w0\",\"w1\",\"w2\",\"w3\",\"w4\",\"w5\",\"w6\",\"w7\"}\n  Routed <- RoutedDef\n"
             "  Others = {\"q\"}\n  Kinds <- KindsFull\n  InhRl = \"share\"\n  ClsRl = \"none\"\n  InhPx = \"fresh\"\n  ClsPx = \"stop\"\n"
             "  MaxOps = 100000000\n  MaxSrv = 100000000\n  MaxPip = 100000000\n  MaxOther = 100000000\n  MaxSame = 100000000\n"
             "  MaxReq = 100000000\n  LoadPerStep = FALSE\n  Targets = {\"srv\",\"q\"}\n  Blocking = {\"px\"}\n"
             "  SrvKinds = {\"rules\",\"opts\",\"both\"}\n  IPs = {\"n\",\"b\"}\n"
             "  PipKinds = {\"both\"}\n  Classes = {\"n\"}\n  Reuse = FALSE\n  Stale = FALSE\n  Options = {}\n  StaleOpts = {}\n"
             "CONSTRAINT HWM\nPOSTCONDITION Accepted\n"
             "INVARIANTS Consistent NoFailure Available Visibility Isolation Settled TV_NoFailure TV_Consistent TV_NoOp TV_Visibility\n")


def run(ctx):
    ctx.cov["rule"] = ("behaviours = TLC -simulate schedules of HotUpdate (request steps LoadInst/Route/GetHandler/RunFilter/Done interleaved with "
                       "updater steps Build/Store, Begin/Inherit/Close/Store, ApplySame, Create/Delete) replayed step by step on the real objects "
                       "(per harness: httpserver+trafficcontroller+pipeline+filters, trafficcontroller, one-filter pipelines of every kind, bare "
                       "RateLimiter/Proxy); pipeline updates change the filters, the resilience section or both, and requests of class x "
                       "(beyond the limit every generation configures) / f (failing backend call, retried as the held generation's retry "
                       "policy says) / d (a URL under the RateLimiter's default policy, which updates switch) / o (a Proxy call to an mTLS backend that shows server url, "
                       "root CA, client certificate, timeout and failure codes in force, while updates change exactly one of these options) show which configuration handled them; "
                       "GlobalFilter generations (HotUpdateGF: before/after sections kept, changed, dropped, added) replayed on real GlobalFilter objects; traces = stress runs of the real mux/TrafficController validated by TLC; non-trivial = distinct schedules "
                       "in which a request step happens between the first and the last step of an update, or a request holds a superseded generation")
    ctx.assumptions += [
        "the harness stops requests only where it can without hooks: between m.inst.Load() and serveHTTP, in its MuxMapper wrapper, in marker "
        "filters before/after each real filter; updates are stopped at the end of the last filter's Init/Inherit (Inherit calls of one update, "
        "Close(prev);Store and LoadAndDelete;Close are blocks)",
        "HTTP/3 listener replaced by a stub (quic-go does not build with the installed Go); runtime.startServer/closeServer are not exercised",
        "Go scheduler interleavings inside a step are explored by stress (+ -race in thorough), not exhaustively",
        "filter kinds that need an external service which cannot be faked on localhost are not swept (listed in the evidence notes)",
    ]
    modes = dict(CONTRACT_MODES)
    if ctx.phase("probe"):
        modes = _probe(ctx)
    ctx.notes.append({"observed_modes": modes})
    jobs = []
    # the longest jobs first (four run side by side): the sweep over all filter kinds, the httpserver replay, model checking
    if ctx.phase("kinds"):
        jobs.append(lambda: _mbt_kinds(ctx, modes))
    if _sub(ctx, "mbt", "http"):
        jobs.append(lambda: _mbt_http(ctx, modes))
    if ctx.phase("mc"):
        jobs.append(lambda: _mc(ctx, modes))      # model checking runs next to the harness jobs: it only needs the observed modes
        jobs.append(lambda: _mc_gf(ctx))
    if ctx.phase("tv"):
        for v in TV_VARIANTS:
            jobs.append(lambda v=v: _tv_one(ctx, *v))
    if _sub(ctx, "mbt", "opts"):
        jobs.append(lambda: _mbt_opts(ctx, modes))
    for sub, job in (("gf", lambda: _mbt_gf(ctx)), ("tc", lambda: _mbt_tc(ctx)), ("rl", lambda: _mbt_filter(ctx, modes, "rl")),
                     ("px", lambda: _mbt_filter(ctx, modes, "px"))):
        if _sub(ctx, "mbt", sub):
            jobs.append(job)
    _parallel(ctx, jobs)


def _sub(ctx, phase, sub):
    """VERIF_PHASES=mbt runs every harness of the phase, VERIF_PHASES=mbt-http only one (debugging aid)"""
    sel = os.environ.get("VERIF_PHASES")
    return ctx.phase(phase) or (sel is not None and "%s-%s" % (phase, sub) in sel.split(","))


def _together(*fns):
    """runs independent TLC generator calls side by side; returns their results in order (exceptions propagate)"""
    with concurrent.futures.ThreadPoolExecutor(max_workers=len(fns)) as ex:
        return [f.result() for f in [ex.submit(fn) for fn in fns]]


def _parallel(ctx, jobs):
    """the harness packages are independent go test runs: build/run them side by side; verdicts are
    collected in the main thread order"""
    if not jobs:
        return
    ctx._prepare_build()
    with concurrent.futures.ThreadPoolExecutor(max_workers=4) as ex:
        futs = [ex.submit(j) for j in jobs]
        err = None
        for f in futs:
            try:
                f.result()
            except Inconclusive as e:   # a phase that could not decide does not hide what the other phases found
                with LOCK:
                    ctx.defer_inconclusive(str(e))
            except Exception as e:
                err = err or e
        if err:
            raise err


# ------------------------------------------------------------------------------------------ probe
def _probe(ctx):
    modes = dict(CONTRACT_MODES)
    for pkg, test, ki, kc in ((P_RL, "^TestVerifC11RlProbe$", "InhRl", "ClsRl"), (P_PX, "^TestVerifC11PxProbe$", "InhPx", "ClsPx")):
        outp = ctx.path("c11_probe_%s.ndjson" % ki)
        rc, out = ctx.go_test(pkg, test, env={"VERIF_OUT": outp})
        recs = [x for x in ctx.read_ndjson(outp) if x.get("k") == "probe"]
        if rc != 0 or not recs:
            ctx.inconclusive("C11 probe harness failed in %s:\n%s" % (pkg, out[-3000:]))
        p = recs[0]
        if p["inherit"] not in ("move", "share", "fresh") or p["close"] not in ("none", "stop", "kill"):
            ctx.inconclusive("C11 probe of %s: Inherit/Close of the real filter fit none of the modelled shapes: %s" % (p["kind"], p))
        modes[ki], modes[kc] = p["inherit"], p["close"]
        ctx.log("probe %s: Inherit=%s Close=%s" % (p["kind"], p["inherit"], p["close"]))
    return modes


# ------------------------------------------------------------------------------------------ mc
def _mc(ctx, modes):
    M = "HotUpdate_MC"
    if ctx.quick:
        # two slices of the product (the thorough tier checks the product itself): everything about the server
        # (rules / options / both, both client addresses) without pipeline operations, and every pipeline
        # operation with one kind of server update and one client address
        r = ctx.tlc_mc(M, cfg(CONTRACT_MODES, ops=2, maxreq=1, pip=0, other=0, same=0, mc=True),
                       label="contract, server slice: 2 requests x 2 reloads (rules/opts/both) x 2 client addresses")
        r2 = ctx.tlc_mc(M, cfg(CONTRACT_MODES, ops=2, maxreq=1, srvkinds='{"both"}', ips='{"n"}', mc=True),
                        label="contract, pipeline slice: 2 requests x 2 updater ops (reload, update, no-op, create, delete)")
    else:
        r = ctx.tlc_mc(M, cfg(CONTRACT_MODES, ops=2, maxreq=1, mc=True), label="contract, 2 requests x 2 updater ops, all kinds of operations", timeout=1500)
        r2 = ctx.tlc_mc(M, cfg(CONTRACT_MODES, ops=3, maxreq=1, srvkinds='{"opts","both"}', mc=True), label="contract, 2 requests x 3 updater ops", timeout=2400)
    # configuration slice: pipeline generations that differ in the filters, in the resilience section or in both, and the
    # request classes that make the configuration of the generation a request holds observable (limit, policies)
    r3 = ctx.tlc_mc(M, cfg(CONTRACT_MODES, mc=True, **(dict(CONF_SLICE, classes='{"x","f"}') if ctx.quick else dict(CONF_SLICE, maxreq=2))),
                    label="contract, configuration slice: 2 requests (classes n/x/f) x pipeline updates of filters / resilience / both",
                    timeout=600 if ctx.quick else 1500)
    r4 = ctx.tlc_mc(M, cfg(CONTRACT_MODES, mc=True, **(DFLT_SLICE if ctx.quick else dict(DFLT_SLICE, ops=3, pip=3, maxreq=2))),
                    label="contract, default-policy slice: 2 requests (classes n/d) x pipeline updates that switch / keep the default policy of the limiter",
                    timeout=600 if ctx.quick else 1500)
    r5 = ctx.tlc_mc(M, cfg(CONTRACT_MODES, mc=True, **(OPT_SLICE_Q if ctx.quick else dict(OPT_SLICE, maxreq=2))),
                    label="contract, options slice: 2 requests (class o) x pipeline updates that change one option of the Proxy / all / none of them",
                    timeout=600 if ctx.quick else 1500)
    ctx.log("contract model checked: %d + %d + %d + %d + %d distinct states, depth %d / %d / %d / %d / %d" % (
        r.distinct, r2.distinct, r3.distinct, r4.distinct, r5.distinct, r.depth, r2.depth, r3.depth, r4.depth, r5.depth))
    # the invariants are not vacuous: deliberately wrong implementation knobs must break them
    for label, c, want in (("knob: every step re-reads m.inst", cfg(CONTRACT_MODES, ops=1, maxreq=1, lps=True, mc=True), "Consistent"),
                           ("knob: Inherit moves the cell away (RateLimiter.reload at the pin)",
                            cfg(dict(CONTRACT_MODES, InhRl="move"), ops=1, maxreq=1, mc=True), "NoFailure"),
                           ("knob: Close kills the state an in-flight call needs", cfg(dict(CONTRACT_MODES, ClsPx="kill"), ops=1, maxreq=1, mc=True), "NoFailure"),
                           ("knob: reload takes over the instance of a filter whose own spec is unchanged, with the policies it works under",
                            cfg(CONTRACT_MODES, mc=True, reuse=True, **CONF_SLICE), "Configured"),
                           ("knob: Close of the previous generation disables the limiter the new one shares",
                            cfg(dict(CONTRACT_MODES, ClsRl="disable"), mc=True, **CONF_SLICE), "Limited"),
                           ("knob: Inherit keeps the limiter of a URL rule although the default policy the rule falls under was switched",
                            cfg(CONTRACT_MODES, mc=True, stale=True, **DFLT_SLICE), "Configured"),
                           ("knob: Inherit takes over what one option of the filter configures (the comparison 'nothing relevant changed' forgets that option)",
                            cfg(CONTRACT_MODES, mc=True, staleopts='{"ca"}', **OPT_SLICE_Q), "Configured")):
        k = ctx.tlc_mc(M, c, expect_ok=False, count=False, label=label, timeout=300)
        if k.ok or k.violated != want:
            ctx.inconclusive("HotUpdate: %s should violate %s but TLC says ok=%s violated=%s" % (label, want, k.ok, k.violated))
    # the implementation-shaped layer with the modes observed on the real code
    if modes != CONTRACT_MODES:
        k = ctx.tlc_mc(M, cfg(modes, ops=2, maxreq=1, srvkinds='{"both"}', ips='{"n"}', mc=True), expect_ok=False, count=False,
                       label="observed modes %s" % jdump(modes), timeout=600)
        if k.ok:
            ctx.log("observed modes %s satisfy the contract in the model" % jdump(modes))
        elif k.violated:
            ctx.log("LEAD: with the observed modes %s the model violates %s; schedules are replayed on the real code" % (jdump(modes), k.violated))
            ctx.notes.append({"lead": "model with observed modes violates %s" % k.violated, "modes": modes})
        else:
            ctx.inconclusive("TLC failed on the observed modes:\n" + k.out[-2000:])


# ------------------------------------------------------------------------------------------ mbt
def _behaviours(ctx, c, num, depth, name, module="HotUpdate_Gen"):
    behs = ctx.tlc_simulate(module, c, num=num, depth=depth)
    seen, out = set(), []
    for b in behs:
        h = sha(b)
        if h not in seen:
            seen.add(h)
            out.append(b)
    p = ctx.path("c11_behs_%s.ndjson" % name)
    with open(p, "w") as fh:
        for b in out:
            fh.write(jdump(b) + "\n")
    return out, p


def _interesting(b):
    """a request step between the first and the last step of an update, or a request holding a superseded generation"""
    inupd = False
    for s in b:
        a = s.get("a")
        if a in ("srvBuild", "pipBegin", "createInit", "deleteRemove"):
            inupd = True
        elif a in ("srvStore", "pipStore", "createStore", "deleteClose"):
            inupd = False
        elif inupd and a in ("load", "route", "get", "run"):
            return True
        if a == "run" and s.get("ver", 0) < s.get("nsv", {}).get(_pipe_of(b, s), 0):
            return True
    return False


def _pipe_of(b, step):
    """pipeline a request is in at `step` (from its latest get)"""
    r = step.get("r")
    p = None
    for s in b:
        if s.get("a") == "get" and s.get("r") == r:
            p = s.get("p")
        if s is step:
            break
    return p


def _sched_class(beh):
    """class of the schedule that led to the failing last step of `beh`"""
    last = beh[-1]
    p = _pipe_of(beh, last)
    ver = last.get("ver", 0)
    r = last.get("r")
    got = max(i for i, s in enumerate(beh) if s.get("a") == "get" and s.get("r") == r) if any(s.get("a") == "get" and s.get("r") == r for s in beh) else 0
    if any(s.get("a") == "deleteRemove" and s.get("p") == p for s in beh[got:]):
        return "after-delete"
    for s in beh:
        if s.get("a") == "pipBegin" and s.get("p") == p and s.get("ver", 0) > ver:
            # a newer generation of the pipeline the request holds has started inheriting
            return "old-after-inherit" if any(x.get("a") == "pipInherit" and x.get("p") == p for x in beh[beh.index(s):]) else "update-begun"
    return "current-generation"


def _judge(ctx, where, behs, recs, out, filt=None):
    with LOCK:
        return _judge1(ctx, where, behs, recs, out, filt)


def _judge1(ctx, where, behs, recs, out, filt=None):
    summ = [x for x in recs if x.get("k") == "summary"]
    if not summ:
        ctx.inconclusive("C11 %s replay harness wrote no summary:\n%s" % (where, out[-3000:]))
    ctx.evals(len(behs))
    ctx.traces(len(behs))
    for b in behs:
        if _interesting(b):
            ctx.nontrivial({"w": where, "b": [(s.get("a"), s.get("r"), s.get("p")) for s in b]})
    for f in [x for x in recs if x.get("k") == "fail"]:
        beh = f["behaviour"]
        k = filt or f["at"].get("k", "?")
        sig = {"kind": "replay", "clause": "NoFailure", "filter": KIND_NAMES.get(k, k), "site": f["site"], "sched": _sched_class(beh)}
        if sig["sched"] == "after-delete":
            # the request was inside the very pipeline that was deleted: C11 speaks about updates and about *other* objects
            ctx.notes.append({"not_a_verdict": "request inside a deleted pipeline failed", "sig": sig})
            continue
        ctx.violation(sig, "[%s] a request failed because of an update: filter %s, %s (%s) - schedule: %s" % (
            where, sig["filter"], ("panic in " + f["site"]) if not f["site"].startswith("status") else "no panic", f["panic"][:120], _short(beh)),
            {"harness": where, "behaviour": beh, "panic": f["panic"]})
    for m in [x for x in recs if x.get("k") == "mismatch"]:
        what = m["what"]
        if what.startswith("panic:") and any(x.get("k") == "fail" and x.get("b") == m.get("b") for x in recs):
            continue   # already reported through its fail record
        if what.split(":")[0] in ("panic", "status") and _sched_class(m["behaviour"]) == "after-delete":
            continue
        if what.startswith("harness:") or "stuck" in what:
            ctx.inconclusive("C11 %s replay: %s\n%s" % (where, what, _short(m["behaviour"])))
        clause = {"panic": "NoFailure", "status": "NoFailure", "mixed": "Consistent", "noop": "NoOp", "isolation": "Isolation",
                  "visibility": "Visibility", "stored": "Visibility", "available": "Available", "configured": "Configured"}.get(what.split(":")[0], "Consistent/Visibility")
        sig = {"kind": "replay", "clause": clause, "step": m["a"], "what": re.sub(r"\d+", "N", what)[:80]}
        ctx.violation(sig, "[%s] real system diverges from HotUpdate at step %d (%s): %s - schedule: %s" % (
            where, m["step"], m["a"], what, _short(m["behaviour"])), m)
    return summ[0]


def _short(beh):
    return " ".join("%s%s" % (s.get("a"), "(" + ",".join(str(s[k]) for k in ("r", "p", "g", "ver") if k in s) + ")") for s in beh[-14:])


def _conf_cover(behs):
    """how often a schedule shows the configuration of a generation that an update produced: a class "x" request limited by a
    generation that is not the first and not closed; a class "f" request retried under the policies of a generation whose
    resilience section and filters were not updated in lockstep; a class "d" request handled by a Limiting filter of a generation
    whose default policy an update has switched (passing under the loose policy after the tight one's permit was used / limited)"""
    lim = pol = dfl = 0
    for b in behs:
        passed = False    # a class "d" request has passed a Limiting filter in this schedule
        for s in b:
            if s.get("a") in ("run", "exit") and s.get("ver", 0) > 1 and not s.get("closed"):
                lim += s.get("res") == "limited" and s.get("cl") == "x"
                pol += s.get("res") == "bfail" and s.get("fv") != s.get("pv")
                dfl += s.get("cl") == "d" and s.get("k") == "rl" and s.get("dv", 1) > 1 and (s.get("res") == "limited" or (passed and not s.get("tight")))
            if s.get("a") in ("run", "exit") and s.get("cl") == "d" and s.get("k") == "rl" and s.get("res") == "pass":
                passed = True
    return lim, pol, dfl


def _need_cover(ctx, where, behs, minimum, need=("lim", "pol")):
    lim, pol, dfl = _conf_cover(behs)
    ctx.log("%s: %d requests beyond the limit on an updated generation, %d failing backend calls under a resilience section updated on its own / not updated, "
            "%d requests under a switched default policy" % (where, lim, pol, dfl))
    if ("lim" in need and lim < minimum) or ("pol" in need and pol < minimum) or ("dfl" in need and dfl < minimum):
        ctx.inconclusive("C11 %s: the schedules hardly show the configuration of updated generations (%d limited, %d retried, %d under a switched default policy; "
                         "need %d)" % (where, lim, pol, dfl, minimum))


def _mbt_http(ctx, modes):
    n = 300 if ctx.quick else 3000
    dims = dict(atomic="gates", props=False, view=False, pipkinds='{"filters","resil","both"}')
    # + configuration slice: requests of the classes that show the configuration of the generation they hold, all routed to
    # pipeline pa, while pa / pb are updated (filters, resilience section or both) and the server's options are reloaded
    (behs, p), (behs2, p2) = _together(
        lambda: _behaviours(ctx, cfg(modes, ops=3, maxreq=2, classes='{"n","x","f"}', **dims), n, 45, "http"),
        lambda: _behaviours(ctx, cfg(modes, ops=4, maxreq=3, srv=1, other=0, same=1, classes='{"x","f"}', targets='{"srv"}', ips='{"n"}',
                                     srvkinds='{"opts"}', **dims), n // 2, 50, "http_conf"))
    _need_cover(ctx, "httpserver", behs + behs2, 10)
    behs = behs + behs2
    with open(p, "a") as fh:
        fh.write(open(p2).read())
    outp = ctx.path("c11_replay_http.ndjson")
    rc, out = ctx.go_test(P_HTTP, "^TestVerifC11Replay$", env={"VERIF_IN": p, "VERIF_OUT": outp}, timeout=1200)
    recs = ctx.read_ndjson(outp)
    if rc != 0:
        ctx.inconclusive("C11 httpserver replay harness failed:\n" + out[-3000:])
    s = _judge(ctx, "httpserver", behs, recs, out)
    ctx.sample({"kind": "tlc-schedule (mux+trafficcontroller+pipeline+filters)", "steps": [{k: v for k, v in x.items() if k != "nsv"} for x in behs[0][:10]]})
    ctx.log("httpserver: %d schedules, %d steps replayed, %d class x/f requests judged against the configuration of the held generation, "
            "%d schedules left at a closed generation, %d not replayable (an update the harness could not stop)" % (
                s["behaviours"], s["steps"], s["judged"], s["unjudged"], s["ungated"]))
    if s["ungated"]:
        ctx.notes.append({"httpserver_schedules_not_replayable": s["ungated"],
                          "why": "ApplyPipeline returned without calling Inherit on the last (unchanged) filter, and the schedule has a request step inside the update"})
    if s["judged"] < len(behs) // 10:
        ctx.inconclusive("C11 httpserver replay: only %d class x/f requests judged in %d schedules" % (s["judged"], len(behs)))


def _mbt_tc(ctx):
    n = 200 if ctx.quick else 2000
    c = cfg(CONTRACT_MODES, kinds="KindsOne", ops=4, srv=0, maxreq=3, targets='{"pa","q"}', same=2, atomic="gates", props=False, view=False)
    behs, p = _behaviours(ctx, c, n, 45, "tc")
    outp = ctx.path("c11_replay_tc.ndjson")
    rc, out = ctx.go_test(P_TC, "^TestVerifC11TcReplay$", env={"VERIF_IN": p, "VERIF_OUT": outp}, timeout=1200)
    recs = ctx.read_ndjson(outp)
    if rc != 0:
        ctx.inconclusive("C11 trafficcontroller replay harness failed:\n" + out[-3000:])
    s = _judge(ctx, "trafficcontroller", behs, recs, out, filt="Mock")
    ctx.log("trafficcontroller: %d schedules, %d steps replayed" % (s["behaviours"], s["steps"]))


def _mbt_filter(ctx, modes, k):
    n = 150 if ctx.quick else 1500
    kinds, pkg, test = {"rl": ("KindsRl", P_RL, "^TestVerifC11RlReplay$"), "px": ("KindsPx", P_PX, "^TestVerifC11PxReplay$")}[k]
    # RateLimiter: updates that leave the filter's own spec alone (resilience section only) or change it, and requests of
    # class "x" for a URL that every generation limits (the limiter is the state cell the generations share)
    # + updates that switch the default policy, and class "d" for the URL that falls under it
    extra = dict(pipkinds='{"filters","resil","both","dflt"}', classes='{"n","x","d"}') if k == "rl" else {}
    c = cfg(modes, kinds=kinds, ops=4, srv=0, maxreq=3, targets='{"pa","q"}', same=0, atomic="coarse", props=False, view=False, **extra)
    behs, p = _behaviours(ctx, c, n, 45, k)
    if k == "rl":
        # + the default-policy slice: every request is for a limited URL, every update changes the filter's spec
        behs2, p2 = _behaviours(ctx, cfg(modes, kinds=kinds, ops=4, srv=0, other=0, maxreq=4, targets='{"pa"}', same=0, atomic="coarse", props=False,
                                         view=False, pipkinds='{"filters","dflt"}', classes='{"x","d"}'), n // 2, 45, "rl_dflt")
        behs = behs + behs2
        with open(p, "a") as fh:
            fh.write(open(p2).read())
        _need_cover(ctx, "RateLimiter", behs, 10, need=("lim", "dfl"))
    outp = ctx.path("c11_replay_%s.ndjson" % k)
    rc, out = ctx.go_test(pkg, test, env={"VERIF_IN": p, "VERIF_OUT": outp}, timeout=1200)
    recs = ctx.read_ndjson(outp)
    if rc != 0:
        ctx.inconclusive("C11 %s replay harness failed:\n%s" % (pkg, out[-3000:]))
    s = _judge(ctx, KIND_NAMES[k], behs, recs, out, filt=k)
    ctx.log("%s: %d schedules, %d steps replayed" % (KIND_NAMES[k], s["behaviours"], s["steps"]))


def _mbt_kinds(ctx, modes):
    n = 60 if ctx.quick else 400
    # every update changes the filter's own spec, the pipeline's resilience section or both
    common = dict(ops=3, srv=0, maxreq=2, targets='{"pa","q"}', same=0, atomic="coarse", props=False, view=False, pipkinds='{"filters","resil","both"}')
    # + the two kinds through which the configuration of the held generation shows: behaviours with request classes
    # (x: beyond the limit every generation configures; f: the backend call fails and is retried as the resilience section says)
    (behs, p), rl, px = _together(
        lambda: _behaviours(ctx, cfg(CONTRACT_MODES, kinds="KindsOne", **common), n, 40, "kinds"),
        lambda: _behaviours(ctx, cfg(modes, kinds="KindsRl", classes='{"x","d"}', **dict(common, ops=4, maxreq=3, targets='{"pa"}', other=0, pipkinds='{"filters","resil","dflt"}')),
                            2 * n, 45, "kinds_rl"),
        lambda: _behaviours(ctx, cfg(modes, kinds="KindsPx", classes='{"n","f"}', blocking="{}", **dict(common, ops=4, maxreq=3)), 2 * n, 45, "kinds_px"))
    cset = {"rl": rl, "px": px}
    _need_cover(ctx, "pipeline/RateLimiter", cset["rl"][0], 5, need=("lim", "dfl"))
    _need_cover(ctx, "pipeline/Proxy/resilience", cset["px"][0], 5, need=("pol",))
    outp = ctx.path("c11_replay_kinds.ndjson")
    rc, out = ctx.go_test(P_PIPE, "^TestVerifC11Kinds$", timeout=1500,
                          env={"VERIF_IN": p, "VERIF_IN_RL": cset["rl"][1], "VERIF_IN_PX": cset["px"][1], "VERIF_OUT": outp})
    recs = ctx.read_ndjson(outp)
    if rc != 0:
        ctx.inconclusive("C11 pipeline (all kinds) replay harness failed:\n" + out[-3000:])
    kinds = [x for x in recs if x.get("k") == "kind"]
    if len(kinds) < 10:
        ctx.inconclusive("C11 pipeline sweep covered only %d filter kinds:\n%s" % (len(kinds), out[-2000:]))
    ctx.notes.append({"kinds_swept": sorted(x["kind"] for x in kinds if x.get("built")),
                      "kinds_not_built_offline": {x["kind"]: x.get("why", "") for x in kinds if not x.get("built")}})
    total = 0
    for kd in [x for x in kinds if x.get("built")]:
        krecs = [x for x in recs if x.get("kind") == kd["kind"] and x.get("k") in ("fail", "mismatch")]
        krecs.append({"k": "summary", "behaviours": kd["behaviours"], "steps": kd["steps"]})
        kb = cset[kd["beh"]][0] if kd.get("classes") else behs
        _judge(ctx, "pipeline/" + kd["kind"], kb, krecs, out, filt=kd["kind"])
        total += kd["steps"]
        if kd.get("classes"):
            # vacuity: the class requests must have been judged after an update, on a generation that is not the first
            ctx.log("pipeline/%s: %d schedules with request classes, %d class requests judged, %d schedules left at a closed generation" % (
                kd["kind"], len(kb), kd["judged"], kd["unjudged"]))
            if kd["judged"] < len(kb) // 4:
                ctx.inconclusive("C11 pipeline/%s: only %d class requests judged in %d schedules" % (kd["kind"], kd["judged"], len(kb)))
    if sorted(x["kind"] for x in kinds if x.get("classes")) != ["Proxy/resilience", "RateLimiter"]:
        ctx.inconclusive("C11 pipeline sweep: the kinds that show the configuration of a generation (RateLimiter, Proxy/resilience) were not both replayed")
    ctx.log("pipeline: %d kinds x %d schedules, %d steps replayed; not built offline: %s" % (
        len([x for x in kinds if x.get("built")]), len(behs), total, sorted(x["kind"] for x in kinds if not x.get("built"))))


# ------------------------------------------------------------------------------------------ options of the Proxy
OPT_NAMES = ("url", "ca", "cert", "timeout", "fcodes", "idle")


def _opt_cover(behs):
    """per option: class "o" requests handled by a generation that is not closed and whose update chain has changed that option,
    counted separately for generations produced by an update that changed *only* that option"""
    anyc, only = dict.fromkeys(OPT_NAMES, 0), dict.fromkeys(OPT_NAMES, 0)
    for b in behs:
        kind_of = {}     # (pipeline, version) -> kind of the update that produced the generation
        for s in b:
            if s.get("a") == "pipBegin":
                kind_of[(s["p"], s["ver"])] = s.get("kind")
            if s.get("a") == "run" and s.get("cl") == "o" and s.get("res") == "pass" and not s.get("closed") and s.get("ver", 0) > 1:
                for o in OPT_NAMES:
                    anyc[o] += s.get("opt", {}).get(o, 1) > 1
                k = kind_of.get((_pipe_of(b, s), s["ver"]))
                if k in only:
                    only[k] += 1
    return anyc, only


def _mbt_opts(ctx, modes):
    """schedules of the options slice replayed on real one-Proxy pipelines that talk mTLS to an HTTPS backend: each class "o"
    request shows the options (server url, root CA, client certificate, timeout, failure codes) its backend call was made under"""
    n = 100 if ctx.quick else 800
    c = cfg(modes, kinds="KindsPx", ops=5, srv=0, pip=5, other=0, same=0, maxreq=3, targets='{"pa"}', atomic="coarse", props=False, view=False,
            blocking="{}", pipkinds=OPT_KINDS, classes='{"o"}', options=OPTIONS)
    behs, p = _behaviours(ctx, c, n, 40, "opts")
    anyc, only = _opt_cover(behs)
    ctx.log("Proxy options: %d schedules; class o requests on a live generation after an update of the option alone: %s" % (len(behs), jdump(only)))
    if min(only.values()) < (4 if ctx.quick else 30):
        ctx.inconclusive("C11 Proxy options: the schedules hardly show generations produced by an update of a single option: %s" % jdump(only))
    outp = ctx.path("c11_replay_opts.ndjson")
    rc, out = ctx.go_test(P_PIPE, "^TestVerifC11PxOptions$", env={"VERIF_IN": p, "VERIF_OUT": outp}, timeout=1500)
    recs = ctx.read_ndjson(outp)
    if rc != 0:
        ctx.inconclusive("C11 pipeline (Proxy options) replay harness failed:\n" + out[-3000:])
    summ = [x for x in recs if x.get("k") == "summary"]
    if summ and not summ[0].get("built"):
        ctx.inconclusive("C11 pipeline (Proxy options): %s" % summ[0].get("why"))
    s = _judge(ctx, "pipeline/Proxy/options", behs, recs, out, filt="Proxy")
    ctx.sample({"kind": "tlc-schedule (one-Proxy pipeline, updates of single options, mTLS backend)",
                "steps": [{k: v for k, v in x.items() if k != "nsv"} for x in behs[0][:10]]})
    ctx.log("pipeline/Proxy/options: %d schedules, %d steps replayed, %d class o requests judged against the options of the held generation "
            "(per option changed by an update: %s; challenges: %s), %d not judged (closed generation / timeout of 100ms struck)" % (
                s["behaviours"], s["steps"], s["judged"], jdump(s.get("perOption")), jdump(s.get("challenges")), s["unjudged"]))
    if not [x for x in recs if x.get("k") in ("mismatch", "fail")]:
        if s["judged"] < len(behs) or min((s.get("perOption") or {}).get(o, 0) for o in OPT_NAMES) < (4 if ctx.quick else 30):
            ctx.inconclusive("C11 pipeline/Proxy/options: only %d class o requests judged in %d schedules (%s)" % (s["judged"], len(behs), jdump(s.get("perOption"))))


# ------------------------------------------------------------------------------------------ GlobalFilter
GF_INVS = "VIEW view\nINVARIANTS TypeOK Installed Consistent Visibility Servable\n"


def gf_cfg(mc, upd=2, maxreq=1, reqs=2, keep=False, props=True, sidekinds='{"keep","change","drop"}'):
    """cfg text for HotUpdateGF_MC (mc=True) / HotUpdateGF_Gen"""
    rs = ",".join('"r%d"' % i for i in range(1, reqs + 1))
    t = "SPECIFICATION %s\nCONSTANTS\n  Reqs = {%s}\n  MaxUpd = %d\n  MaxReq = %d\n  SideKinds = %s\n  KeepRemoved = %s\n" % (
        "MCSpec" if mc else "GSpec", rs, upd, maxreq, sidekinds, "TRUE" if keep else "FALSE")
    return t + (GF_INVS if props else "")


def _mc_gf(ctx):
    M = "HotUpdateGF_MC"
    if ctx.quick:
        # two slices (the thorough tier checks their product): one request process, issuing two requests, against two updates;
        # two concurrent requests against one update
        r = ctx.tlc_mc(M, gf_cfg(True, 2, 2, reqs=1), label="GlobalFilter contract: 1 x 2 requests x 2 updates (each side kept / changed / dropped / added)", timeout=600)
        r2 = ctx.tlc_mc(M, gf_cfg(True, 1, 1), label="GlobalFilter contract: 2 requests x 1 update", timeout=600)
    else:
        r = ctx.tlc_mc(M, gf_cfg(True, 2, 2), label="GlobalFilter contract: 2 x 2 requests x 2 updates (each side kept / changed / dropped / added)", timeout=900)
        r2 = ctx.tlc_mc(M, gf_cfg(True, 3, 1), label="GlobalFilter contract: 2 requests x 3 updates", timeout=1500)
    ctx.log("GlobalFilter contract model checked: %d + %d distinct states, depth %d / %d" % (r.distinct, r2.distinct, r.depth, r2.depth))
    k = ctx.tlc_mc(M, gf_cfg(True, 2, 1, reqs=1, keep=True), expect_ok=False, count=False, timeout=300,
                   label="knob: the new GlobalFilter generation takes the previous generation's pipelines over and replaces only those its spec defines")
    if k.ok or k.violated != "Installed":
        ctx.inconclusive("HotUpdateGF: knob KeepRemoved should violate Installed but TLC says ok=%s violated=%s" % (k.ok, k.violated))


def _gf_cover(behs):
    """requests that complete on a generation which an update produced by dropping a section the previous generation had"""
    n = 0
    for b in behs:
        dropped = set()
        for s in b:
            if s.get("a") == "gfBegin" and "drop" in (s.get("kb"), s.get("ka")):
                dropped.add(s["g"])
            if s.get("a") == "done" and s.get("g") in dropped:
                n += 1
    return n


def _gf_interesting(b):
    """a request step between the first and the last step of an update, or a request that runs on a superseded generation"""
    inupd, cur = False, 1
    for s in b:
        a = s.get("a")
        if a == "gfBegin":
            inupd = True
        elif a == "gfStore":
            inupd, cur = False, s.get("g")
        elif inupd and a in ("load", "enter", "run", "main"):
            return True
        elif a == "done" and s.get("g", cur) < cur:
            return True
    return False


def _mbt_gf(ctx):
    n = 150 if ctx.quick else 1500
    behs, p = _behaviours(ctx, gf_cfg(False, upd=4, maxreq=3, props=False), n, 60, "gf", module="HotUpdateGF_Gen")
    drops = _gf_cover(behs)
    ctx.log("GlobalFilter: %d schedules, %d requests complete on a generation whose update dropped a before/after section" % (len(behs), drops))
    if drops < 20:
        ctx.inconclusive("C11 GlobalFilter: the schedules hardly exercise updates that drop a section (%d requests on such generations)" % drops)
    outp = ctx.path("c11_replay_gf.ndjson")
    rc, out = ctx.go_test(P_GF, "^TestVerifC11GfReplay$", env={"VERIF_IN": p, "VERIF_OUT": outp}, timeout=1200)
    recs = ctx.read_ndjson(outp)
    if rc != 0:
        ctx.inconclusive("C11 GlobalFilter replay harness failed:\n" + out[-3000:])
    with LOCK:
        summ = [x for x in recs if x.get("k") == "summary"]
        if not summ:
            ctx.inconclusive("C11 GlobalFilter replay harness wrote no summary:\n%s" % out[-3000:])
        ctx.evals(len(behs))
        ctx.traces(len(behs))
        for b in behs:
            if _gf_interesting(b):
                ctx.nontrivial({"w": "globalfilter", "b": [(s.get("a"), s.get("r"), s.get("g"), s.get("side")) for s in b]})
        for m in [x for x in recs if x.get("k") == "mismatch"]:
            what = m["what"]
            if what.startswith("harness:") or "stuck" in what:
                ctx.inconclusive("C11 GlobalFilter replay: %s\n%s" % (what, _short_gf(m["behaviour"])))
            clause = {"panic": "NoFailure", "status": "NoFailure", "mixed": "Consistent", "visibility": "Visibility"}.get(what.split(":")[0], "Consistent/Visibility")
            # the update that produced the generation the request holds
            r = m.get("at", {}).get("r")
            held = [s.get("g") for s in m["behaviour"] if s.get("a") == "load" and s.get("r") == r]
            upd = [s for s in m["behaviour"] if s.get("a") == "gfBegin" and held and s.get("g") == held[-1]]
            sig = {"kind": "replay", "object": "GlobalFilter", "clause": clause, "step": m["a"],
                   "update": "%s/%s" % (upd[-1].get("kb"), upd[-1].get("ka")) if upd else "-"}
            ctx.violation(sig, "[globalfilter] real system diverges from HotUpdateGF at step %d (%s): %s - schedule: %s" % (
                m["step"], m["a"], what, _short_gf(m["behaviour"])), m)
        s = summ[0]
        ctx.sample({"kind": "tlc-schedule (GlobalFilter generations)", "steps": behs[0][:10]})
        ctx.log("GlobalFilter: %d schedules, %d steps replayed, %d requests compared with the spec of the generation they held (%d on a generation without a "
                "before or after pipeline)" % (s["behaviours"], s["steps"], s["judged"], s["dropped"]))
        if s["judged"] < len(behs) and not [x for x in recs if x.get("k") == "mismatch"]:
            ctx.inconclusive("C11 GlobalFilter replay: only %d requests judged in %d schedules" % (s["judged"], len(behs)))


def _short_gf(beh):
    return " ".join("%s%s" % (s.get("a"), "(" + ",".join(str(s[k]) for k in ("r", "g", "kb", "ka", "side", "ver") if k in s) + ")") for s in beh[-16:])


# ------------------------------------------------------------------------------------------ tv
def _annotate(src, dst, skip=()):
    """copies the tuple of every r.ret into its r.inv (field w); requests whose r.ret has a seq in
    `skip` are marked as excluded from the verdict"""
    ev = [json.loads(ln) for ln in open(src) if ln.strip()]
    pend = {}
    for i, e in enumerate(ev):
        if e["ev"] in ("r.inv", "r.ret"):
            e["skip"] = False
        if e["ev"] == "reset":
            pend = {}
        elif e["ev"] == "r.inv":
            pend[e["p"]] = i
        elif e["ev"] == "r.ret" and e["p"] in pend:
            j = pend.pop(e["p"])
            ev[j]["w"] = {k: e[k] for k in ("st", "panic", "pipe", "g", "xf", "v1", "v2", "v3")}
            if e["seq"] in skip:
                e["skip"] = ev[j]["skip"] = True
    with open(dst, "w") as fh:
        for e in ev:
            if e["ev"] == "r.inv" and "w" not in e:   # (cannot happen: every worker returns before the run ends)
                e["w"] = {"st": 0, "panic": False, "pipe": "-", "g": 0, "xf": False, "v1": 0, "v2": 0, "v3": 0}
            fh.write(jdump(e) + "\n")
    return ev


UPD_RE = re.compile(r"github\.com/megaease/easegress/pkg/\S*\.(reload|Inherit|InheritWithRecovery|InitWithRecovery|CloseWithRecovery|"
                    r"ApplyPipeline\w*|UpdatePipeline\w*|CreatePipeline\w*|DeletePipeline)\(")
REQ_RE = re.compile(r"github\.com/megaease/easegress/pkg/\S*\.(serveHTTP|ServeHTTP|Handle|handle|doHandle|GetHandler|search)\(")
EG_RE = re.compile(r"github\.com/megaease/easegress/pkg/(\S+)\(")


def _races(out):
    """race reports between the update path and the request path: for each report the top easegress
    frame of both accesses; races inside one request (third-party libraries) are returned separately"""
    hot, other = [], []
    for blk in out.split("WARNING: DATA RACE")[1:]:
        blk = blk.split("==================")[0]
        parts = re.split(r"\n\s*\n", blk)
        acc = [p for p in parts if re.match(r"\s*(Read|Write|Previous read|Previous write|Atomic|Previous atomic)", p)][:2]
        roles, tops = [], []
        for a in acc:
            own = "\n".join(ln for ln in a.splitlines() if "c11" not in ln and "verifx" not in ln)
            roles.append("upd" if UPD_RE.search(own) else "req" if REQ_RE.search(own) else "?")
            m = [x for x in EG_RE.findall(own)]
            tops.append(m[0] if m else "?")
        (hot if sorted(roles) == ["req", "upd"] else other).append(tuple(sorted(tops)))
    return hot, other


TV_VARIANTS = (("all-differ", 0, 0), ("rl-rule-unchanged", 1, 0), ("real-server", 0, 1))


def _tv_one(ctx, variant, rl_same, real):
    """variants: the bare mux with pipelines that differ in everything / whose RateLimiter rule never changes
    (the limiter is inherited); the real HTTPServer object (runtime event loop, listener, requests over TCP)"""
    if True:
        if ctx.quick:
            runs, workers, per, upd = {"all-differ": (5, 4, 100000, 14), "rl-rule-unchanged": (3, 4, 100000, 10), "real-server": (2, 4, 100000, 12)}[variant]
        else:
            runs, workers, per, upd = {"all-differ": (30, 6, 100000, 20), "rl-rule-unchanged": (10, 6, 100000, 14), "real-server": (10, 6, 100000, 16)}[variant]
        tp = ctx.path("c11_stress_%s.ndjson" % variant)
        rc, out = ctx.go_test(P_HTTP, "^TestVerifC11Stress$", race=not ctx.quick, timeout=1500,
                              env={"VERIF_OUT": tp, "VERIF_N": runs, "VERIF_WORKERS": workers, "VERIF_PER": per, "VERIF_UPDATES": upd,
                                   "VERIF_RLSAME": rl_same, "VERIF_RUNTIME": real})
        races, unrelated = _races(out)
        if unrelated:
            ctx.notes.append({"races_not_between_update_and_request": sorted(set("%s / %s" % u for u in unrelated))[:10]})
        for fr in set(races):
            _viol(ctx, {"kind": "race", "site": list(fr)[0], "site2": list(fr)[-1]},
                          "data race between a request and a hot update reported by the Go race detector: %s / %s" % (fr[0], fr[-1]),
                          out[out.find("WARNING: DATA RACE"):][:6000])
        ev = ctx.read_ndjson(tp)
        if (rc != 0 and not races and not unrelated) or not ev:
            ctx.inconclusive("C11 stress harness failed:\n" + out[-3000:])
        herr = [e for e in ev if e.get("ev") == "harness-error"]
        if herr:
            ctx.inconclusive("C11 stress (%s): %s" % (variant, herr[0].get("what")))
        ann = tp + ".ann"
        ev = _annotate(tp, ann)
        nreq = sum(1 for e in ev if e["ev"] == "r.ret")
        overl = _overlaps(ev)
        if nreq < runs * 10 or overl == 0:
            ctx.inconclusive("C11 stress (%s) exercised nothing: %d requests, %d overlapping an update" % (variant, nreq, overl))
        ctx.evals(runs)
        skipped = set()
        while True:
            tr = ctx.tlc_trace("HotUpdate_Trace", TRACE_CFG, ann, timeout=1500)
            ctx.log("stress %s: %d runs, %d requests (%d overlap an update), %d events, TLC %s (%d states, %.0fs)" % (
                variant, runs, nreq, overl, len(ev), "accepted" if tr.accepted else "REJECTED", tr.states, tr.wall))
            if tr.accepted:
                ctx.traces(runs)
                ctx.nontrivial("stress-%s-%d-overlaps" % (variant, overl))
                ctx.sample({"kind": "recorded stress trace (%s)" % variant, "events": [{k: v for k, v in e.items() if k != "w"} for e in ev[:8]]})
                if skipped:
                    ctx.notes.append({"stress_requests_excluded_as_known_findings": len(skipped), "variant": variant})
                break
            seg = _segment(ev, tr.hwm)
            if tr.inv and tr.inv.startswith("TV_"):
                clause = tr.inv[3:]
            elif tr.inv:
                clause = tr.inv
            else:
                clause = "Consistent/Visibility"      # no placement of the updater's steps explains the tuple of this request
            seg = _culprit(seg, clause)
            lastev = seg[-1] if seg else {}
            sig = {"kind": "trace", "clause": clause, "ev": lastev.get("ev"), "variant": variant}
            if lastev.get("panic"):
                sig.update({"site": lastev.get("site"), "sched": "concurrent-update"})
            new = _viol(ctx, sig, "recorded stress history of the real mux/TrafficController is not a behaviour of HotUpdate: event seq=%s %s%s" % (
                lastev.get("seq"), jdump({k: v for k, v in lastev.items() if k != "w"}), ", invariant %s" % tr.inv if tr.inv else
                " has no linearisation (a tuple no installed generation explains)"), seg[-60:])
            if new or lastev.get("ev") != "r.ret" or lastev.get("seq") in skipped or len(skipped) >= (3 if ctx.quick else 12):
                break
            # a recorded finding: exclude this request - and the others that failed in the very same way - from the
            # verdict and validate the rest of the history
            skipped.add(lastev["seq"])
            if lastev.get("panic"):
                skipped |= {e["seq"] for e in ev if e["ev"] == "r.ret" and e.get("panic") and e.get("site") == lastev.get("site")}
            ev = _annotate(tp, ann, skipped)


def _viol(ctx, *a):
    with LOCK:
        return ctx.violation(*a)


def _culprit(seg, clause):
    """TLC reports the violating state one or two lines after the event that set `viol`: cut the
    segment at the last event that can have broken `clause`"""
    bad = {"NoFailure": lambda e: e["ev"] == "r.ret" and (e.get("panic") or e.get("st") not in (200, 503)),
           "Consistent": lambda e: e["ev"] == "r.ret" and e.get("st") == 200,
           "NoOp": lambda e: e["ev"] == "u.ret" and e.get("op") == "same" and not e.get("kept"),
           "Visibility": lambda e: e["ev"] == "u.ret" and e.get("op") == "pip" and e.get("kept")}.get(clause)
    if bad:
        for i in range(len(seg) - 1, max(len(seg) - 4, -1), -1):
            if bad(seg[i]):
                return seg[:i + 1]
    return seg


def _overlaps(ev):
    """requests during which an update was in progress (at least one u.* event between inv and ret)"""
    n, open_at, ucount = 0, {}, 0
    for e in ev:
        if e["ev"] in ("u.inv", "u.ret"):
            ucount += 1
        elif e["ev"] == "r.inv":
            open_at[e["p"]] = ucount
        elif e["ev"] == "r.ret":
            if open_at.get(e["p"], ucount) != ucount:
                n += 1
    return n


def _segment(ev, hwm):
    end = min(hwm + 1, len(ev))
    start = 0
    for i in range(end - 1, -1, -1):
        if ev[i].get("ev") == "reset":
            start = i
            break
    return ev[start:end]

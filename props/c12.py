"""C12 - the route cache is transparent (DESIGN 5/C12)."""
from props import _router as R
from lib.vlib import jdump

CLASSES = ("key-collision", "cached-negative", "header-shadowed", "skipped-rule-filter")

# behaviour generation: (share of the behaviours, requests, entry templates, rule shells, server filters, plans, changes of
# the mapper's table per behaviour).  The general universe, and focused ones (a header-conditioned entry ahead of a plain
# one; a filtered rule ahead of the owning rule; sibling filters; method-restricted entries ahead of unrestricted ones for
# the same URL with requests that differ in the method only; entries with rewrite targets and requests for the rewritten
# URLs; one entry reached from two hosts by different ways, one of them through a filtered rule; rules for different hosts
# with different rule filters, results stored for one, then the other, then the first asked for again; entries conditioned
# on two different headers and requests for one URL whose header values collide once folded into one string; few URLs and
# a backend deleted / created / replaced behind the mapper between two requests for one URL), so that every history
# shape the cache is sensitive to occurs often
UNIVERSES = (
    (0.12, "C12SimReqs", "C12SimTemplates", "C12SimShells", "C12SimServerFilters", "PlansC12", 0),
    (0.10, "C12ReqsA", "C12HdrFocus", "C12FocusShells", "C12NoServerFilter", "PlansHdrFocus", 0),
    (0.10, "C12ReqsA", "C12RuleFocus", "C12FocusShells", "C12NoServerFilter", "PlansRuleFocus", 0),
    (0.09, "C05FocusReqs", "C12FilterFocus", "C05FocusShells", "C12SimServerFilters", "PlansFilterFocus", 0),
    (0.12, "C12MethReqs", "C12MethFocus", "C12FocusShells", "C12NoServerFilter", "PlansMethFocus", 0),
    (0.10, "C12RwReqs", "C12RwFocus", "C12FocusShells", "C12NoServerFilter", "PlansRwFocus", 0),
    (0.06, "C12ShareReqs", "C12ShareFocus", "C12ShareShells", "C12NoServerFilter", "PlansShareFocus", 0),
    (0.12, "C12TenantReqs", "C12TenantFocus", "C12TenantShells", "C12NoServerFilter", "PlansTenantFocus", 0),
    (0.09, "C12HdrKeyReqs", "C12HdrKeyFocus", "C12HdrKeyShells", "C12NoServerFilter", "PlansHdrKeyFocus", 0),
    (0.10, "C12MapReqs", "C12MapFocus", "C12MapShells", "C12NoServerFilter", "PlansMapFocus", 3))


def run(ctx):
    ctx.cov["rule"] = ("states = TLC check of Transparent (cached search = cache-less reference after any history and any evictions) on the "
                       "implementation-shaped router for the repaired cache design; behaviours = TLC -simulate runs (configurations with "
                       "header-conditioned entries on one or two headers, method lists, IP filters at three levels, rules for different "
                       "hosts with different filters; requests incl. colliding host/method pairs and header values that collide once "
                       "folded into one string; purges; a backend deleted, created or replaced behind the mapper between two requests) "
                       "replayed on a real mux with the cache on (sizes 1,2,3,64) and its cache-less twin, outcome compared with "
                       "the contract after every request; traces = seeded random configurations with sequences of 20-200 requests over a "
                       "small key space and changes of the mapper's table in between, both muxes recorded and validated by TLC; non-trivial = distinct (class of cached outcome, "
                       "request relation to an earlier one) cases in which the cached mux could have answered from its cache")
    ctx.assumptions += ["regular expressions restricted to the family of specs/Strings.tla", "requests driven in-process through mux.ServeHTTP, one at a time",
                        "the ARC replacement policy is abstracted to 'any entry may disappear at any time'",
                        "client address unambiguous (RemoteAddr, or a single public X-Forwarded-For / X-Real-IP value)",
                        "'chosen backend' read at the time of the request: the backend instance registered under the matched name in the "
                        "table behind the MuxMapper when the request is served (the table changes without a reload of the server); the "
                        "cache-less server looks it up per request, so must the cached one"]
    R.run_phases(ctx, (("mc", _mc), ("mbt", _mbt), ("tv", _tv)))


def _mc(ctx):
    runs = [("C12InitQuick", "C12ReqsA")] if ctx.quick else [("C12InitFull", "C12ReqsA"), ("C12InitQuick", "C12Reqs")]
    # entries with rewrite targets and requests for the rewritten URLs: three requests (store, revisit, revisit again)
    runs.append(("C12InitRw", "C12RwReqsMC", 3))
    for uni, reqs, depth in [(x + (2,))[:3] for x in runs]:
        r = ctx.tlc_mc("HttpRouter_MC", R.mc_cfg(uni, reqs, depth, True, "Transparent", variant=R.REPAIRED),
                       label="Transparent, repaired cache design, %s x %s, %d requests + evictions" % (uni, reqs, depth), timeout=2400)
        ctx.log("Transparent holds for the repaired design (%s x %s): %d transitions" % (uni, reqs, r.generated))
    # the cache as the pinned tree has it: TLC is expected to refute Transparent (a lead, confirmed or not by the replay below)
    r = ctx.tlc_mc("HttpRouter_MC", R.mc_cfg("C12InitQuick", "C12ReqsA", 2, True, "Transparent", variant=R.PINNED),
                   label="Transparent, cache design of the pinned tree", timeout=900, expect_ok=False, count=False)
    ctx.notes.append({"pinned_cache_design_refuted_by_tlc": r.violated is not None})


def _backend_of(cfg, own):
    if not cfg or not own or own.get("code") != 0:
        return None
    try:
        return cfg["rules"][own["pos"][0] - 1]["paths"][own["pos"][1] - 1]["backend"]
    except Exception:
        return None


def classify(q, cul, own, cown, exp, got, cfg=None, mapsteps=None):
    """defect class of a divergence of the cached mux, from the request, the earlier request found responsible, and the
    contract's owners of the two; mapsteps: the changes of the table behind the mapper that preceded the request"""
    if mapsteps and _backend_of(cfg, own) in [st.get("be") for st in mapsteps]:
        # the entry the request is routed to points to a backend that was deleted, created or replaced since the server
        # started: the cached mux did not follow the mapper
        return "stale-backend"
    if not cul:
        return "unexplained"
    p = cul[0]
    tp, tq = [R.chars(p[k]) for k in ("host", "m", "path")], [R.chars(q[k]) for k in ("host", "m", "path")]
    if tp != tq:
        # another request's cache entry was used: the pinned tree's defect is that the three parts are concatenated
        # without separators; any other way of sharing an entry is a different defect
        return "key-collision" if "".join(tp) == "".join(tq) else "foreign-cache-entry"
    if got.get("code") in (404, 405):
        return "cached-negative"
    if p.get("hdr") != q.get("hdr") and _folded(p) & _folded(q):
        # same URL, other header values - which read the same once folded into one string
        return "folded-header-values"
    if own is not None and cown is not None and own != cown:
        return "header-shadowed"
    if exp.get("code") == 403 and got.get("code") == 0:
        return "skipped-rule-filter"
    return "other"


def _report(ctx, how, cfg, q, exp, oc, ou, cul, own, cown, replay, mapsteps=None):
    if not R_same(ou, exp):
        return "model"
    cls = classify(q, cul, own, cown, exp, oc, cfg, mapsteps)
    sig = {"class": cls, "exp": R.kind(exp), "got": R.kind(oc)}
    what = "request %s: mux with route cache answers %s, cache-less mux and contract: %s" % (R.show_req(q), R.show(oc), R.show(exp))
    if cul:
        what += "; after earlier request %s" % R.show_req(cul[0])
    if cls == "stale-backend":
        what += "; the table behind the mapper had changed before the request (no reload of the server): %s" % ", ".join(
            "%s %s" % (st.get("a"), st.get("inst") or st.get("be")) for st in mapsteps)
    ctx.violation(sig, what, replay)
    return cls


def R_same(a, b):
    return a.get("code") == b.get("code") and a.get("be") == b.get("be") and R.chars(a.get("path")) == R.chars(b.get("path"))


def _revisits(steps):
    """number of requests of a history (None = cache emptied) whose host, method and path are those an earlier request
    was dispatched with after rewriting (the earlier request asked for another path)"""
    seen, n = set(), 0
    for st in steps:
        if st is None:
            seen = set()
            continue
        q, o = st
        if (R.chars(q["host"]), R.chars(q["m"]), R.chars(q["path"])) in seen:
            n += 1
        if o.get("code") == 0 and R.chars(o.get("path")) != R.chars(q["path"]):
            seen.add((R.chars(q["host"]), R.chars(q["m"]), R.chars(o["path"])))
    return n


def _folded(q):
    """the header values of a request folded into one string, in the ways HttpRouter_Gen!HdrCollide looks at"""
    a, b = R.chars(q["hdr"].get("X-A")), R.chars(q["hdr"].get("X-B"))
    return {(sep, o, x + sep + y) for sep in ("", ",", ";") for o, (x, y) in enumerate(((a, b), (b, a)))}


def _history_shapes(behs):
    """how many generated requests stand in the histories the cache could get wrong in ways of its own:
    after_mapper_change   the URL was served before, and the backend its entry points to has been deleted, created or
                          replaced behind the mapper since;
    interleaved_clients   the URL was served before to another client, another URL was served in between, and a filter
                          of the configuration tells the two clients apart;
    folded_headers        the URL was served before to a request with other header values that read the same once folded
                          into one string, and the contract routes the two differently"""
    out = {"after_mapper_change": 0, "interleaved_clients": 0, "folded_headers": 0}
    for b in behs:
        cfg = b[0]["cfg"]
        seen = {}        # triple -> list of (index, request, exp)
        changed = {}     # backend name -> index of the last change
        for i, s in enumerate(b[1:]):
            a = s.get("a")
            if a == "purge":
                seen = {}
            elif a in ("unmap", "map", "remap"):
                changed[s["be"]] = i
            elif a == "req":
                q = s["q"]
                t = jdump([q[k] for k in ("host", "m", "path")])
                be = _backend_of(cfg, s.get("own"))
                earlier = seen.get(t, [])
                if be in changed and any(j < changed[be] for j, _, _ in earlier):
                    out["after_mapper_change"] += 1
                if any(p["ip"] != q["ip"] and (e.get("code") == 403) != (s["exp"].get("code") == 403) and
                       any(j < k < i for tt, l in seen.items() if tt != t for k, _, _ in l) for j, p, e in earlier):
                    out["interleaved_clients"] += 1
                if any(p["hdr"] != q["hdr"] and not R_same(e, s["exp"]) and _folded(p) & _folded(q) for _, p, e in earlier):
                    out["folded_headers"] += 1
                seen.setdefault(t, []).append((i, q, s["exp"]))
    return out


def _mbt(ctx):
    nb = 2400 if ctx.quick else 12000
    depth = 30 if ctx.quick else 40
    nreq = 7 if ctx.quick else 10
    from concurrent.futures import ThreadPoolExecutor

    def gen(job):
        k, (share, reqs, templates, shells, sfs, plans, maps) = job
        # (steps that change the mapper's table come on top of the request steps)
        return ctx.tlc_simulate("HttpRouter_Gen", R.gen_cfg(reqs, nreq, True, templates, shells, sfs, plans, unmaps=maps),
                                num=int(nb * share), depth=depth + maps, timeout=1200, seed=ctx.seed * 10 + k)
    behs = []
    with ThreadPoolExecutor(max_workers=3) as ex:      # one TLC worker each
        for part in ex.map(gen, enumerate(UNIVERSES)):
            behs += part
    behs = [b for b in behs if b and b[0].get("a") == "cfg" and len(b) > 1]
    if len(behs) < nb // 2:
        ctx.inconclusive("C12: TLC produced only %d usable behaviours" % len(behs))
    # the behaviours must exercise the cache: hits predicted by the implementation-shaped layer, and each way in
    # which the pinned cache design departs from the contract
    leads = {}
    for b in behs:
        for s in b[1:]:
            if s.get("a") == "req" and s.get("why"):
                leads[s["why"]] = leads.get(s["why"], 0) + 1
    ctx.notes.append({"tlc_leads_by_class": leads})
    if any(leads.get(c, 0) == 0 for c in CLASSES):
        ctx.inconclusive("C12: generated behaviours do not cover every cache-divergence class of the pinned design: %s" % leads)
    shapes = _history_shapes(behs)
    ctx.notes.append({"replay_history_shapes": shapes})
    low = {k: v for k, v in shapes.items() if v < (20 if ctx.quick else 100)}
    if low:
        ctx.inconclusive("C12: generated behaviours hold too few histories of the shapes %s" % low)
    revisits = sum(_revisits(((s["q"], s["exp"]) if s.get("a") == "req" else None) for s in b[1:]) for b in behs)
    ctx.notes.append({"replay_requests_for_an_earlier_rewritten_url": revisits})
    if revisits < 25:
        ctx.inconclusive("C12: only %d generated requests ask for the URL an earlier request was rewritten to" % revisits)
    inp = ctx.path("c12_behs.ndjson")
    with open(inp, "w") as fh:
        for b in behs:
            fh.write(jdump(b) + "\n")
    outp = ctx.path("c12_replay.ndjson")
    rc, out = ctx.go_test(R.PKG, "^TestVerifC12Replay$", env={"VERIF_IN": inp, "VERIF_OUT": outp}, timeout=1200)
    recs = ctx.read_ndjson(outp)
    summ = [x for x in recs if x.get("k") == "summary"]
    if rc != 0 or not summ:
        ctx.inconclusive("C12 replay harness failed:\n" + out[-3000:])
    if summ[0]["rejected"]:
        ctx.inconclusive("C12: %d TLC-generated configurations were rejected by easegress' validation: %s" % (
            summ[0]["rejected"], [x for x in recs if x.get("k") == "rejected"][:1]))
    ctx.evals(summ[0]["steps"])
    ctx.traces(len(behs))
    for b in behs:
        seen = set()
        for s in b[1:]:
            if s.get("a") == "purge":
                seen = set()
            if s.get("a") == "req":
                t = jdump([s["q"][k] for k in ("host", "m", "path")])
                if t in seen:
                    ctx.nontrivial({"rep": R.kind(s["exp"]), "why": s.get("why"), "hdr": bool(R.chars(s["q"]["hdr"].get("X-A"))),
                                    "ip": s["q"]["ip"]["bits"], "own": s["own"]})
                seen.add(t)
    ctx.sample({"kind": "tlc-behaviour", "steps": [{"q": R.show_req(s["q"]), "exp": R.show(s["exp"])} if s.get("a") == "req" else s
                                                    for s in behs[0][1:5]]})
    model = 0
    hit = {}
    for m in [x for x in recs if x.get("k") == "mismatch"]:
        c = _report(ctx, "replay", m["cfg"], m["q"], m["exp"], m["oc"], m["ou"], m.get("cul"), m.get("own"), m.get("cown"), m,
                    m.get("mapsteps"))
        hit[c] = hit.get(c, 0) + 1
        model += c == "model"
    ctx.notes.append({"replay_divergences_by_class": hit})
    if model:
        ctx.inconclusive("C12: the cache-less real mux itself departs from the reference semantics on %d generated requests "
                         "(a C01/C05 matter; C12 cannot be judged against this model)" % model)


def _tv(ctx):
    ncfg, lo, hi = (75, 20, 120) if ctx.quick else (900, 20, 200)
    raw = ctx.path("c12_trace_raw.ndjson")
    rc, out = ctx.go_test(R.PKG, "^TestVerifC12Trace$", env={"VERIF_OUT": raw, "VERIF_N": ncfg, "VERIF_MINLEN": lo, "VERIF_MAXLEN": hi},
                          timeout=1200)
    tp, ev, other = R.split_trace(ctx, raw, "c12_trace.ndjson")
    ncfgs = sum(1 for e in ev if e["ev"] == "cfg" and not e.get("same"))
    if rc != 0 or ncfgs < ncfg:
        ctx.inconclusive("C12 trace harness failed (%d configurations):\n%s" % (ncfgs, out[-3000:]))
    # vacuity: how often could the cache have answered (same host/method/path served before under this configuration)
    reqs = rep = 0
    seen = set()
    kinds = {}
    mapchg = aftermap = 0      # changes of the mapper's table; repeated URLs served after one
    changed = False
    for e in ev:
        if e["ev"] == "cfg":
            if e.get("same"):      # the muxes go on: the table behind their mapper has changed
                mapchg += 1
                changed = True
                continue
            seen = set()
            changed = False
            continue
        reqs += 1
        t = jdump([e["q"][k] for k in ("host", "m", "path")])
        if t in seen:
            rep += 1
            aftermap += changed and e["ou"].get("code") in (0, 503)
            ctx.nontrivial({"tv": R.kind(e["ou"]), "c": R.kind(e["oc"])})
        seen.add(t)
        kinds[R.kind(e["ou"])] = kinds.get(R.kind(e["ou"]), 0) + 1
    ratio = rep / max(1, reqs)
    revisits = _revisits((None if e["ev"] == "cfg" else (e["q"], e["ou"])) for e in ev)
    ctx.notes.append({"tv_requests": reqs, "tv_repeat_ratio": round(ratio, 3), "tv_outcomes": kinds,
                      "tv_mapper_changes": mapchg, "tv_repeated_urls_after_a_mapper_change": aftermap,
                      "tv_requests_for_an_earlier_rewritten_url": revisits})
    # (these counts come from the real code: they are looked at after the trace has been judged)
    vacuous = None
    if aftermap < ncfgs:
        vacuous = "C12 trace is vacuous: only %d repeated URLs are served after a change of the mapper's table" % aftermap
    if revisits < ncfgs // 8:
        vacuous = "C12 trace is vacuous: only %d of %d requests ask for the URL an earlier request was rewritten to" % (revisits, reqs)
    if ratio < 0.2 or kinds.get("backend", 0) == 0 or kinds.get("403", 0) == 0 or kinds.get("404", 0) == 0:
        vacuous = "C12 trace is vacuous: repeat ratio %.2f, outcomes %s" % (ratio, kinds)
    bad = R.validate_chunks(ctx, ev, "c12_tv", chunk=2000 if ctx.quick else 6000)
    ctx.evals(reqs)
    ctx.traces(ncfgs)
    first = next(e for e in ev if e["ev"] == "req")
    ctx.sample({"kind": "recorded-trace-line", "q": R.show_req(first["q"]), "cached": R.show(first["oc"]), "cache-less": R.show(first["ou"])})
    model = 0
    hit = {}
    for idx, rec in sorted(bad.items()):
        e = ev[idx]
        if rec.get("okU") and rec.get("okC"):
            continue
        cfg = R.cfg_of_line(ev, idx)
        mapsteps = []
        for j in range(idx, -1, -1):
            if ev[j]["ev"] == "cfg":
                if not ev[j].get("same"):
                    break
                mapsteps.insert(0, ev[j]["step"])
        c = _report(ctx, "trace", cfg, e["q"], rec["exp"], e["oc"], e["ou"], e.get("cul"), rec.get("own"), rec.get("cown"),
                    {"cfg": cfg, "q": e["q"], "cached": e["oc"], "cache-less": e["ou"], "contract": rec["exp"], "culprit": e.get("cul"),
                     "mapper_changes": mapsteps}, mapsteps)
        hit[c] = hit.get(c, 0) + 1
        model += c == "model"
    ctx.notes.append({"trace_divergences_by_class": hit})
    if model:
        ctx.inconclusive("C12: the cache-less real mux departs from the reference semantics on %d recorded requests "
                         "(a C01/C05 matter; C12 cannot be judged against this model)" % model)
    if vacuous:
        ctx.inconclusive(vacuous)

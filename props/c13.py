"""C13 - configurations accepted by validation instantiate and serve without panicking (DESIGN 5/C13).

TLC enumerates the configuration grammar (specs/ConfigSpaceGrammar.tla) through ConfigSpace_Gen; the Go
harness (harness/pkg/object/pipeline/c13_*_test.go) renders every abstract configuration to YAML,
passes it through the admin API's validation and drives the life-cycle of accepted ones on the real
code, logging every call; TLC validates the recorded life-cycles against the automaton of
specs/ConfigSpace.tla with NoPanicAfterAccept (and RuleRejected) evaluated on every observed state.
A violating configuration is minimised here (fields dropped back to their base class while the same
panic persists); signature = kind + minimal field classes + call + top repository frame of the panic.
"""
import json
import os
import re
import subprocess
import threading
import time
from concurrent.futures import ThreadPoolExecutor

from lib.vlib import jdump, sha, _tail

PKG = "pkg/object/pipeline"
RUN = "^TestVerifC13Drive$"

FILTER_KINDS = ["Proxy", "Validator", "RateLimiter", "RequestAdaptor", "ResponseAdaptor", "RequestBuilder", "ResponseBuilder",
                "Mock", "Fallback", "CORSAdaptor", "HeaderLookup", "HeaderToJSON", "MeshAdaptor"]
OBJECT_KINDS = ["Pipeline", "GlobalFilter", "HTTPServer", "MQTTProxy"]
POLICY_KINDS = ["Retry", "CircuitBreaker"]
VONLY_KINDS = ["KafkaMQTT", "Kafka", "RemoteFilter", "CertExtractor"]
ALL_KINDS = FILTER_KINDS + OBJECT_KINDS + POLICY_KINDS + VONLY_KINDS

# Hamming radius around the base configuration, per tier (99 = the whole grammar of the kind)
RADIUS = {
    "quick": {"Proxy": 1, "HTTPServer": 1, "MQTTProxy": 1, "Pipeline": 1, "CircuitBreaker": 2,
              "Validator": 2, "RateLimiter": 2, "Mock": 2, "CORSAdaptor": 2, "RequestAdaptor": 2, "ResponseAdaptor": 99,
              "RequestBuilder": 2, "ResponseBuilder": 2, "Fallback": 99, "HeaderLookup": 2, "HeaderToJSON": 99,
              "MeshAdaptor": 2, "Retry": 2, "GlobalFilter": 99,
              "KafkaMQTT": 99, "Kafka": 99, "RemoteFilter": 99, "CertExtractor": 99},
    "thorough": {"Proxy": 2, "HTTPServer": 2, "MQTTProxy": 3, "Pipeline": 3, "CircuitBreaker": 3,
                 "Validator": 3, "RateLimiter": 3, "Mock": 3, "CORSAdaptor": 3, "RequestAdaptor": 3, "ResponseAdaptor": 99,
                 "RequestBuilder": 3, "ResponseBuilder": 3, "Fallback": 99, "HeaderLookup": 99, "HeaderToJSON": 99,
                 "MeshAdaptor": 99, "Retry": 99, "GlobalFilter": 99,
                 "KafkaMQTT": 99, "Kafka": 99, "RemoteFilter": 99, "CertExtractor": 99},
}
# random members of the grammar beyond the radius (TLC -simulate), per tier: (behaviours, radius)
RANDOM = {"quick": (400, 4), "thorough": (4000, 5)}
RANDOM_KINDS = ["Proxy", "HTTPServer", "MQTTProxy", "Pipeline", "CircuitBreaker", "Validator", "RateLimiter", "Mock", "CORSAdaptor",
                "RequestAdaptor"]
MAXFIELDS = 20

CALLS = ("validate", "create", "init", "handle", "inherit", "close")
MOD = "github.com/megaease/easegress/"


def kinds_set(ks):
    return "{%s}" % ", ".join('"%s"' % k for k in ks)


def gen_cfg(kinds, maxdev, biased=False):
    return ("SPECIFICATION GSpec\nCONSTANTS\n  Kinds = %s\n  MaxDev = %d\n  Biased = %s\nINVARIANT GenSound\n"
            % (kinds_set(kinds), maxdev, "TRUE" if biased else "FALSE"))


# ------------------------------------------------------------------------------------------ stack parsing
def top_frame(stack):
    """Same rule as c13Frame in the harness: first frame below the (original) panic that belongs to the
    easegress module and is not harness code. Used for crash dumps of the test binary."""
    lines = stack.split("\n")
    start = 0
    for i, ln in enumerate(lines):
        if ln.startswith("panic("):
            start = i
    for i in range(start, len(lines) - 1):
        fn, loc = lines[i], lines[i + 1].strip()
        if not fn.startswith(MOD) or "zz_verif_" in loc or "/verifx." in fn or ".go:" not in loc:
            continue
        if fn.endswith(")") and "(" in fn:
            fn = fn[:fn.rindex("(")]
        fn = fn[len(MOD):]
        while "." in fn:
            last = fn[fn.rindex(".") + 1:]
            if last.startswith("func") or (last and last[0].isdigit()):
                fn = fn[:fn.rindex(".")]
            else:
                break
        k = loc.find("/pkg/")
        if k >= 0:
            loc = loc[k + 1:]
        k = loc.find(" +0x")
        if k >= 0:
            loc = loc[:k]
        return fn, loc
    return "?", "?"


# ------------------------------------------------------------------------------------------ harness runs
class Runner:
    """Runs batches of abstract configurations through the Go harness; survives crashes of the test binary
    (a panic in a goroutine of the object under test) by resuming after the configuration in flight."""

    def __init__(self, ctx):
        self.ctx = ctx
        self.n = 0
        self.lock = threading.Lock()
        self.crashes = 0
        self.hangs = []
        self.bin = None
        self.ms = {}          # kind -> [total ms, configs]

    def build(self):
        """The harness binary is built once through ctx.go_test (overlay + quic stub modfile) and then executed
        directly: the driver restarts it after every crash, and for every minimisation round."""
        if self.bin:
            return
        ctx = self.ctx
        b = ctx.path("c13.test")
        rc, out = ctx.go_test(PKG, RUN, extra=["-c", "-o", b], timeout=1500)
        if rc != 0 or not os.path.exists(b):
            ctx.inconclusive("C13 harness build failed:\n" + _tail(out, 60))
        self.bin = b
        self.cwd = ctx.path("c13-cwd")
        os.makedirs(self.cwd, exist_ok=True)

    def _exec(self, env, timeout):
        e = self.ctx.go_env()
        e.update({"VERIF_SEED": str(self.ctx.seed), "VERIF_TIER": self.ctx.tier})
        e.update({k: str(v) for k, v in env.items()})
        t0 = time.time()
        try:
            p = subprocess.run([self.bin, "-test.run", RUN, "-test.timeout", "%ds" % timeout, "-test.count", "1"], cwd=self.cwd, env=e,
                               capture_output=True, text=True, errors="replace", timeout=timeout + 60)
        except subprocess.TimeoutExpired:
            self.ctx.inconclusive("C13 harness timed out")
        self.ctx.cov["go_runs"].append({"pkg": PKG, "run": RUN + " (prebuilt binary)", "rc": p.returncode, "race": False,
                                        "wall_s": round(time.time() - t0, 1)})
        return p.returncode, p.stdout + p.stderr

    def run(self, cfgs, tag, shards=None):
        """cfgs: list of {"c","kind","cfg"}. Returns {cid: [events]} (begin/end stripped)."""
        if not cfgs:
            return {}
        self.build()
        if shards is None:
            shards = max(1, min(8, len(cfgs) // 40))
        # interleave so that slow kinds spread over the shards
        parts = [cfgs[i::shards] for i in range(shards)]
        parts = [p for p in parts if p]
        res = {}
        with ThreadPoolExecutor(max_workers=len(parts)) as ex:
            for r in ex.map(lambda ip: self._run_part(ip[1], "%s-%d" % (tag, ip[0])), enumerate(parts)):
                res.update(r)
        return res

    def _run_part(self, cfgs, tag):
        ctx = self.ctx
        with self.lock:
            self.n += 1
            base = ctx.path("c13_%s_%d" % (tag, self.n))
        inp, outp = base + ".in", base + ".out"
        with open(inp, "w") as fh:
            for c in cfgs:
                fh.write(jdump(c) + "\n")
        skip = 0
        extra = {}           # cid -> synthetic events (crash)
        tries = 0
        while True:
            tries += 1
            if tries > 60:
                ctx.inconclusive("C13 harness crashed more than 60 times in one shard (%s)" % tag)
            rc, out = self._exec({"VERIF_IN": inp, "VERIF_OUT": outp, "VERIF_SKIP": skip}, 1500)
            evs = ctx.read_ndjson(outp)
            if any(e.get("ev") == "summary" for e in evs) and rc == 0:
                break
            begun = [e for e in evs if e.get("ev") == "begin"]
            ended = {e["c"] for e in evs if e.get("ev") == "end"}
            inflight = [e for e in begun if e["c"] not in ended]
            if not inflight:
                ctx.inconclusive("C13 harness failed outside any configuration (%s):\n%s" % (tag, _tail(out, 40)))
            cur = inflight[-1]
            cid, idx = cur["c"], cur["idx"]
            mine = [e for e in evs if e.get("c") == cid and e.get("ev") in CALLS]
            if any(e.get("ev") == "hang" and e.get("c") == cid for e in evs) or "C13-HANG" in out:
                with self.lock:
                    self.hangs.append(cid)
                extra[cid] = [{"ev": "hangnote", "c": cid}]
            elif "panic:" in out or "fatal error:" in out:
                m = re.search(r"^(panic: .*|fatal error: .*)$", out, re.M)
                pv = m.group(1) if m else "crash"
                st = out[m.start():] if m else out
                # the crashing goroutine is the first one of the dump
                first = st.split("\n\ngoroutine ")[1] if "\n\ngoroutine " in st else st
                site, line = top_frame("panic(\n" + first)
                call = self._inflight_call(outp, cid, mine)
                ev = {"ev": call["ev"], "c": cid, "ok": False, "crash": True, "pv": pv[:200], "site": site, "line": line,
                      "stack": first[:2500]}
                if call.get("q"):
                    ev["q"] = call["q"]
                extra.setdefault(cid, []).append(ev)
                with self.lock:
                    self.crashes += 1
            else:
                ctx.inconclusive("C13 harness died without a panic (%s, rc=%s):\n%s" % (tag, rc, _tail(out, 40)))
            skip = idx + 1
            if skip >= len(cfgs):
                break
        evs = ctx.read_ndjson(outp)
        per = {}
        kind_of = {c["c"]: c["kind"] for c in cfgs}
        for e in evs:
            if e.get("ev") == "end" and "ms" in e:
                with self.lock:
                    m = self.ms.setdefault(kind_of.get(e["c"], "?"), [0, 0])
                    m[0] += e["ms"]
                    m[1] += 1
            if e.get("ev") in ("begin", "end", "summary"):
                continue
            per.setdefault(e.get("c"), []).append(e)
        for cid, xs in extra.items():
            per.setdefault(cid, []).extend(xs)
        for c in cfgs:
            per.setdefault(c["c"], [])
        return per

    @staticmethod
    def _inflight_call(outp, cid, mine):
        """Which life-cycle call was running when the process died: the harness mirrors it to <out>.cur."""
        try:
            txt = open(outp + ".cur").read().split("\n")[0].split()
            if len(txt) >= 2 and int(txt[0]) == cid and txt[1] in CALLS:
                return {"ev": txt[1], "q": txt[2] if len(txt) > 2 and txt[2] != "-" else None}
        except Exception:
            pass
        # fall back: the call after the last completed one
        last = mine[-1]["ev"] if mine else "validate"
        nxt = {"validate": "create", "create": "init", "init": "handle", "handle": "handle", "inherit": "handle", "close": "close"}
        return {"ev": nxt.get(last, "handle"), "q": None}


# ------------------------------------------------------------------------------------------ TLC trace validation
TRACE_BASE = "SPECIFICATION TSpec\nCONSTANTS\n  MaxHandle = 1000000\nCONSTRAINT HWM\nPOSTCONDITION Accepted\n"
TRACE_COLLECT = TRACE_BASE + "CONSTRAINT Observe\nINVARIANT TypeOK\n"
TRACE_STRICT = TRACE_BASE + "INVARIANTS TypeOK NoPanicAfterAccept RuleRejected UsedOnlyIfAccepted ValidateOnlyStops\n"


REQ_LOCK = threading.Lock()
REQ_SEEN, REQ_NEED = set(), set()      # (kind, request class) pairs handled / demanded by the specification


def trace_lines(cfg, events):
    """The life-cycle of one configuration as the trace spec reads it."""
    out = [{"ev": "reset", "c": cfg["c"], "kind": cfg["kind"], "cfg": cfg["cfg"]}]
    for e in events:
        if e.get("ev") not in CALLS:
            continue
        r = {"ev": e["ev"], "c": cfg["c"], "ok": bool(e.get("ok"))}
        if e["ev"] == "validate":
            r["acc"] = bool(e.get("acc"))
        if e["ev"] == "handle":
            r["q"] = e.get("q") or "?"
        out.append(r)
    return out


def tlc_validate(ctx, cfgs, per, tag):
    """Validates the recorded life-cycles with TLC. Returns (panicked ids, rule-broken ids) as decided by
    TLC evaluating NoPanicAfterAccept / RuleRejected on every observed state."""
    panicked, broken = set(), set()
    CH = 4000          # configurations per TLC run (keeps the deserialised trace small)
    chunks = [cfgs[i:i + CH] for i in range(0, len(cfgs), CH)]

    def one(ic):
        i, chunk = ic
        lines = []
        for c in chunk:
            lines.extend(trace_lines(c, per.get(c["c"], [])))
        p = ctx.write_ndjson("c13_trace_%s_%d.ndjson" % (tag, i), lines)
        tr = ctx.tlc_trace("ConfigSpace_Trace", TRACE_COLLECT, p, timeout=1200, deque=False)
        if not tr.accepted:
            bad = lines[min(tr.hwm, len(lines) - 1)]
            ctx.inconclusive("C13: recorded life-cycle is not a behaviour of the automaton (line %d: %s; invariant %s)\n%s"
                             % (tr.hwm + 1, jdump(bad), tr.inv, _tail(tr.out, 30)))
        pm = re.search(r'"VERIF_PANICKED",\s*\{([^}]*)\}', tr.out)
        rm = re.search(r'"VERIF_RULEBROKEN",\s*\{([^}]*)\}', tr.out)
        if pm is None or rm is None:
            ctx.inconclusive("C13: trace spec did not report its registers:\n" + _tail(tr.out, 30))
        P = {int(x) for x in re.findall(r"-?\d+", pm.group(1))}
        R = {int(x) for x in re.findall(r"-?\d+", rm.group(1))}
        # request classes handled vs. the classes ConfigSpaceGrammar!Reqs lists for the kinds that served anything
        sm = re.search(r'"VERIF_REQSEEN",\s*(\{.*?\})\s*>>\s*$', tr.out, re.M | re.S)
        nm = re.search(r'"VERIF_REQNEED",\s*(\{.*?\})\s*>>\s*$', tr.out, re.M | re.S)
        if sm is None or nm is None:
            ctx.inconclusive("C13: trace spec did not report the request classes:\n" + _tail(tr.out, 30))
        pair = r'<<"(\w+)",\s*"(\w+)">>'
        with REQ_LOCK:
            REQ_SEEN.update(re.findall(pair, sm.group(1)))
            REQ_NEED.update(re.findall(pair, nm.group(1)))
        return P, R

    with ThreadPoolExecutor(max_workers=min(4, len(chunks)) or 1) as ex:
        for P, R in ex.map(one, enumerate(chunks)):
            panicked |= P
            broken |= R
    return panicked, broken


def tlc_strict(ctx, cfgs, per, flagged):
    """The official invariant check: every life-cycle the collecting pass did not flag, validated with
    NoPanicAfterAccept / RuleRejected / protocol invariants as INVARIANTS. Must be clean."""
    rest = [c for c in cfgs if c["c"] not in flagged]
    CH = 6000
    chunks = [rest[i:i + CH] for i in range(0, len(rest), CH)]

    def one(ic):
        i, chunk = ic
        lines = []
        for c in chunk:
            lines.extend(trace_lines(c, per.get(c["c"], [])))
        p2 = ctx.write_ndjson("c13_trace_strict_%d.ndjson" % i, lines)
        tr2 = ctx.tlc_trace("ConfigSpace_Trace", TRACE_STRICT, p2, timeout=1200, deque=False)
        if not tr2.accepted:
            ctx.inconclusive("C13: strict trace validation disagrees with the collecting pass (invariant %s, line %d)\n%s"
                             % (tr2.inv, tr2.hwm + 1, _tail(tr2.out, 30)))
        return len(chunk)

    if chunks:
        with ThreadPoolExecutor(max_workers=min(4, len(chunks))) as ex:
            list(ex.map(one, enumerate(chunks)))
    return len(rest)


# ------------------------------------------------------------------------------------------ analysis
def panics_of(events):
    """distinct (call, site) panics of one configuration with the request classes and details"""
    out = {}
    for e in events:
        if e.get("ev") in CALLS and e.get("ok") is False:
            key = (e["ev"], e.get("site") or "?")
            d = out.setdefault(key, {"q": [], "pv": e.get("pv"), "line": e.get("line"), "crash": bool(e.get("crash")),
                                     "recovered": e.get("recovered"), "stack": e.get("stack")})
            if e.get("q") and e["q"] not in d["q"]:
                d["q"].append(e["q"])
    return out


def nonbase(cfg, base):
    return {f: v for f, v in cfg["cfg"].items() if base[cfg["kind"]].get(f) != v}


def fstr(fields):
    """canonical text of a set of field classes: 'a=x,b=y' ('' = the base configuration)"""
    return ",".join("%s=%s" % kv for kv in sorted(fields.items()))


class Cores:
    """Minimal violating configurations found so far."""

    def __init__(self):
        self.cores = []        # {"kind","call","site","fields","crash", ...}

    def explains(self, kind, call, site, fields):
        for c in self.cores:
            if c["kind"] == kind and c["call"] == call and c["site"] == site and all(fields.get(f) == v for f, v in c["fields"].items()):
                return c
        return None

    def crash_core_in(self, kind, fields):
        for c in self.cores:
            if c["crash"] and c["kind"] == kind and all(fields.get(f) == v for f, v in c["fields"].items()):
                return c
        return None


def run(ctx):
    ctx.cov["rule"] = ("evaluations = abstract configurations (TLC-enumerated members of the grammar) rendered to YAML and passed through the "
                       "admin API's validation on the real code; traces = life-cycles (validate, create, init, handle x request classes, inherit, "
                       "handle, close) of those configurations recorded from the real objects and validated by TLC against the life-cycle automaton "
                       "with NoPanicAfterAccept/RuleRejected evaluated on every observed state; non-trivial = distinct accepted configurations "
                       "whose object was instantiated and served requests")
    ctx.assumptions += [
        "value classes are concretised by the harness (one concrete value per class); 'any request' = the request classes of ConfigSpaceGrammar (HttpReqs, ServerReqs, MqttReqs, PolicyReqs; HTTP request paths are derived from the configured paths /a and /api: bare, trailing slash, extra segments, other case, percent-encoded, no segment boundary; SigReqs carry signatures made by the repository's signer with key k/secret s, k/empty secret, and a garbage signature header; CtxReqs are requests whose context ends while they are served: cancelled before arrival, cancelled by the harness's backend while the backend call is in progress, deadline expiring while the backend call or a retry back-off is in progress; the server class 'abort' closes the connection in the middle of the announced body); enum-like string fields carry the value class 'a valid value in another letter case'; every string validated by a pkg/v format (duration, regexp, httpmethod, urlname, base64, url, uri, ipcidr - found by walking the rendered spec along the repository's spec types) carries the value class 'a valid value with one leading / trailing blank' (grammar field pad; on a tree whose validation rejects such values nothing is served); TLC reports the (kind, class) pairs handled and the run is inconclusive when a class the specification lists was never sent",
        "a filter is driven inside a real one-node Pipeline created through Supervisor.NewSpec (the admin API's validation); backends are local httptest servers, the cluster is clustertest.MockedCluster",
        "kinds that need external systems are validate-only (KafkaMQTT, Kafka, RemoteFilter, CertExtractor) or skipped (WasmHost: build tag; ConnectControl, TopicMapper, MQTTClientAuth: MQTT-session filters; service registries, AutoCertManager, mesh, tracing, HTTP/3)",
        "a panic in a goroutine owned by the object under test is observed as a crash of the harness process and attributed to the life-cycle call in flight",
    ]
    tier = ctx.tier
    st = {"t": {}}
    runner = Runner(ctx)

    # 1. model checking of the life-cycle automaton (in parallel with 2.)
    # 2. generation: TLC enumerates the grammar
    t0 = time.time()
    with ThreadPoolExecutor(max_workers=3) as ex:
        fmc = ex.submit(_mc, ctx) if ctx.phase("mc") else None
        fbuild = ex.submit(Runner.build, runner) if ctx.phase("run") else None
        base = _bases(ctx)
        cfgs = _generate(ctx, tier, base)
        if fmc is not None:
            fmc.result()
        if fbuild is not None:
            fbuild.result()
    st["t"]["mc+gen+build"] = round(time.time() - t0, 1)
    ctx.log("generated %d configurations (%s)" % (len(cfgs), ", ".join("%s:%d" % kv for kv in sorted(_count(cfgs).items()))))
    if not ctx.phase("run"):
        return

    # 3. drive them on the real code (one-field deviations first: their cores prune crashing supersets)
    cores = Cores()
    per = {}
    order = sorted(cfgs, key=lambda c: len(nonbase(c, base)))
    small = [c for c in order if len(nonbase(c, base)) <= 1]
    large = [c for c in order if len(nonbase(c, base)) > 1]
    t0 = time.time()
    stats = {"skipped_crash_superset": 0}
    flagged, driven = set(), []
    for batch, tag in ((small, "r1"), (large, "rn")):
        todo = []
        for c in batch:
            cc = cores.crash_core_in(c["kind"], c["cfg"])
            if cc is not None:
                stats["skipped_crash_superset"] += 1
                cc["explained"] = cc.get("explained", 0) + 1
                continue
            todo.append(c)
        got = runner.run(todo, tag)
        per.update(got)
        _check_harness_errors(ctx, todo, got)
        P, R = tlc_validate(ctx, todo, got, tag)
        flagged |= P | R
        driven.extend(todo)
        _account(ctx, todo, got)
        _triage(ctx, runner, cores, base, todo, got, P, R, tag)
    ctx.cov["strictly_validated"] = tlc_strict(ctx, driven, per, flagged)
    ctx.cov["flagged_by_tlc"] = len(flagged)
    st["t"]["drive"] = round(time.time() - t0, 1)

    # 4. evidence and vacuity guard
    acc, rej = {}, {}
    for c in cfgs:
        for e in per.get(c["c"], []):
            if e.get("ev") == "validate":
                d = acc if e.get("acc") else rej
                d[c["kind"]] = d.get(c["kind"], 0) + 1
    ctx.cov["per_kind"] = {k: {"accepted": acc.get(k, 0), "rejected": rej.get(k, 0)} for k in ALL_KINDS}
    ctx.cov["cores"] = [{k: v for k, v in c.items() if k not in ("stack",)} for c in cores.cores]
    ctx.cov["crashes_survived"] = runner.crashes
    ctx.cov["skipped_superset_of_crash_core"] = stats["skipped_crash_superset"]
    ctx.cov["phase_wall_s"] = st["t"]
    if ctx.cov.get("non_reproducible_panics"):
        ctx.notes.append("%d panic(s) observed once did not reproduce when the same configuration was driven again; they carry no verdict (see non_reproducible_panics)"
                         % len(ctx.cov["non_reproducible_panics"]))
    if runner.hangs:
        ctx.notes.append("configurations whose life-cycle call did not return within 40 s (not a panic, not counted): %s" % runner.hangs[:10])
    # vacuity guard: the neighbourhood of every base configuration (<= 1 field off) must be accepted in
    # at least 10 % of the cases, and so must the whole run
    near = {}
    for c in cfgs:
        if len(nonbase(c, base)) <= 1:
            for e in per.get(c["c"], []):
                if e.get("ev") == "validate":
                    n = near.setdefault(c["kind"], [0, 0])
                    n[0 if e.get("acc") else 1] += 1
    for k in ALL_KINDS:
        a1, r1 = near.get(k, [0, 0])
        if a1 + r1 == 0:
            ctx.inconclusive("C13: no configuration of kind %s reached validation" % k)
        if a1 * 10 < a1 + r1:
            ctx.inconclusive("C13 vacuity guard: only %d of the %d near-base configurations of kind %s were accepted" % (a1, a1 + r1, k))
    # "any request": every request class the specification lists for a kind must have been sent to it
    missing = sorted(REQ_NEED - REQ_SEEN)
    ctx.cov["request_classes"] = {"sent": len(REQ_SEEN), "demanded_by_spec": len(REQ_NEED)}
    if missing or not REQ_NEED:
        ctx.inconclusive("C13: request classes of ConfigSpaceGrammar!Reqs the harness never sent: %s" % (missing[:12] or "none demanded"))
    for k in FILTER_KINDS + OBJECT_KINDS + POLICY_KINDS:
        if not any(n[0] == k for n in REQ_NEED):
            ctx.inconclusive("C13: no accepted configuration of kind %s served a request" % k)
    ta, tr_ = sum(acc.values()), sum(rej.values())
    if ta * 10 < ta + tr_:
        ctx.inconclusive("C13 vacuity guard: only %d of %d configurations were accepted" % (ta, ta + tr_))
    ctx.cov["accepted"], ctx.cov["rejected"] = ta, tr_
    _check_padding(ctx, cfgs, per)
    ctx.cov["pairwise_coverage"] = _pairwise(cfgs, per)
    ctx.cov["ms_per_config"] = {k: round(v[0] / max(1, v[1]), 1) for k, v in sorted(runner.ms.items())}
    ctx.log("accepted/rejected per kind: " + ", ".join("%s %d/%d" % (k, acc.get(k, 0), rej.get(k, 0)) for k in ALL_KINDS))


def _check_padding(ctx, cfgs, per):
    """The value class 'valid value with leading / trailing white space' (grammar field pad) against what the
    harness found in the repository's types: every pad class of every kind must have padded a string at least
    once, and the harness must not find a format in a kind whose pad field does not list it (the class would
    silently miss format-validated fields)."""
    did, listed, found = {}, {}, {}
    noop, mism, padded_cfgs, padded_acc = 0, [], 0, 0
    for c in cfgs:
        v = next((e for e in per.get(c["c"], []) if e.get("ev") == "validate"), None)
        if v is None or "fams" not in v:
            continue
        k, pad = c["kind"], c["cfg"].get("pad", "-")
        found.setdefault(k, set()).update(v["fams"])
        if pad != "-":
            listed.setdefault(k, set()).add(pad.rsplit("_", 1)[0])
            padded_cfgs += 1
            if v.get("padded", 0) > 0:
                did[(k, pad)] = did.get((k, pad), 0) + 1
                padded_acc += 1 if v.get("acc") else 0
            else:
                did.setdefault((k, pad), 0)
                noop += 1
        elif c.get("fmts") is not None and sorted(v["fams"]) != c["fmts"] and len(mism) < 8:
            mism.append({"kind": k, "fields": fstr({f: x for f, x in c["cfg"].items() if f != "pad"})[:160], "grammar": c["fmts"], "harness": sorted(v["fams"])})
    ctx.cov["padding"] = {"padded_configs": padded_cfgs, "padded_and_accepted": padded_acc, "pad_without_effect": noop,
                          "pad_classes_exercised": sum(1 for n in did.values() if n), "formats_found_per_kind": {k: sorted(x) for k, x in sorted(found.items())},
                          "carrier_table_differs_sample": mism}
    problems = []
    dead = sorted("%s/%s" % kp for kp, n in did.items() if n == 0)
    if dead:
        problems.append("pad classes that never padded a string (carrier table of ConfigSpaceGrammar out of step with the renderer): %s" % dead[:10])
    for k in ALL_KINDS:
        if not listed.get(k):
            problems.append("no padded configuration of kind %s was generated" % k)
        extra = found.get(k, set()) - listed.get(k, set())
        if extra:
            problems.append("the repository validates format(s) %s in configurations of kind %s but the kind's pad field does not list them"
                            % (sorted(extra), k))
    if problems:
        # deferred: a panic found on an accepted configuration still is the verdict
        ctx.defer_inconclusive("C13: " + "; ".join(problems))


def _pairwise(cfgs, per):
    """per kind: how many of the (field=class, field=class) pairs of the grammar occur in a driven configuration"""
    dom, seen = {}, {}
    for c in cfgs:
        if not per.get(c["c"]):
            continue
        items = sorted(c["cfg"].items())
        d = dom.setdefault(c["kind"], {})
        for f, v in items:
            d.setdefault(f, set()).add(v)
        sk = seen.setdefault(c["kind"], set())
        for i in range(len(items)):
            for j in range(i + 1, len(items)):
                sk.add((items[i], items[j]))
    out = {}
    for k, d in dom.items():
        fs = sorted(d)
        total = sum(len(d[fs[i]]) * len(d[fs[j]]) for i in range(len(fs)) for j in range(i + 1, len(fs)))
        out[k] = {"covered": len(seen[k]), "total": total}
    return out


def _count(cfgs):
    d = {}
    for c in cfgs:
        d[c["kind"]] = d.get(c["kind"], 0) + 1
    return d


def _mc(ctx):
    ks = kinds_set(ALL_KINDS if not ctx.quick else ["Proxy", "Validator", "RateLimiter", "Pipeline", "HTTPServer", "Retry", "Kafka", "RequestBuilder"])
    common = "CONSTANTS\n  Kinds = %s\n  MaxHandle = 2\n" % ks
    r = ctx.tlc_mc("ConfigSpace_MC", "SPECIFICATION MSpec\n" + common +
                   "INVARIANTS TypeOK NoPanicAfterAccept RuleRejected UsedOnlyIfAccepted ValidateOnlyStops\n"
                   "PROPERTIES RejectedIsFinal ClosedIsFinal VerdictStable\n", label="contract: life-cycle without panics", timeout=600)
    ctx.log("contract model checked: %d distinct states" % r.distinct)
    # the world: panics possible; protocol properties still hold, a panic after acceptance is reachable at every call
    w = ctx.tlc_mc("ConfigSpace_MC", "SPECIFICATION WSpec\n" + common +
                   "INVARIANTS TypeOK UsedOnlyIfAccepted ValidateOnlyStops\nPROPERTIES RejectedIsFinal ClosedIsFinal VerdictStable\n"
                   "CONSTRAINT SeePanics\nPOSTCONDITION AllPanicsSeen\n", workers=1, label="world: any call may panic", timeout=600)
    m = re.search(r'"VERIF_PANICS",\s*\{([^}]*)\}', w.out)
    seen = set(re.findall(r'"(\w+)"', m.group(1))) if m else set()
    if seen != set(CALLS) - {"validate"}:
        ctx.inconclusive("C13: panic not reachable from every call in the world model (seen %s)" % sorted(seen))
    ctx.cov["panic_reachable_from"] = sorted(seen)


def _bases(ctx):
    recs = ctx.tlc_dump("ConfigSpace_Gen", gen_cfg(ALL_KINDS, 0), timeout=300, label="base configurations", count=False)
    base = {r["kind"]: r["cfg"] for r in recs}
    if set(base) != set(ALL_KINDS):
        ctx.inconclusive("C13: generator did not yield a base configuration for every kind")
    return base


def _generate(ctx, tier, base):
    rad = RADIUS[tier]
    by_r = {}
    for k in ALL_KINDS:
        by_r.setdefault(rad[k], []).append(k)
    seen, cfgs = set(), []

    def add(r):
        key = sha({"k": r["kind"], "c": r["cfg"]})
        if key in seen:
            return
        seen.add(key)
        cfgs.append({"c": len(cfgs) + 1, "kind": r["kind"], "cfg": r["cfg"], "fmts": sorted(r.get("fmts") or [])})

    jobs = sorted(by_r.items())
    with ThreadPoolExecutor(max_workers=3) as ex:
        outs = list(ex.map(lambda rk: ctx.tlc_dump("ConfigSpace_Gen", gen_cfg(rk[1], min(rk[0], MAXFIELDS)), timeout=1500,
                                                   workers=6, label="grammar, radius %s: %s" % (rk[0], ",".join(rk[1]))), jobs))
    for recs in outs:
        for r in sorted(recs, key=lambda r: (r["kind"], jdump(r["cfg"]))):
            add(r)
    n_exh = len(cfgs)
    # random members of the grammar beyond the radius
    if ctx.phase("sim"):
        num, r = RANDOM[tier]
        behs = ctx.tlc_simulate("ConfigSpace_Gen", gen_cfg(RANDOM_KINDS, r, biased=True), num=num, depth=2 * MAXFIELDS + 2)
        for b in behs:
            if b:
                add(b[-1])
    ctx.cov["configs_exhaustive"] = n_exh
    ctx.cov["configs_random"] = len(cfgs) - n_exh
    ctx.cov["radius"] = rad
    return cfgs


def _check_harness_errors(ctx, cfgs, per):
    for c in cfgs:
        for e in per.get(c["c"], []):
            if e.get("ev") in ("rendererr", "harnesserr"):
                ctx.inconclusive("C13 harness cannot drive %s %s: %s" % (c["kind"], jdump(c["cfg"]), e.get("err")))
        if not per.get(c["c"]):
            ctx.inconclusive("C13 harness produced no event for configuration %d (%s)" % (c["c"], c["kind"]))


def _account(ctx, cfgs, per):
    for c in cfgs:
        evs = per.get(c["c"], [])
        ctx.evals(1)
        ctx.traces(1)
        if any(e.get("ev") == "handle" for e in evs):
            ctx.nontrivial({"k": c["kind"], "c": c["cfg"]})
    for c in cfgs[:400:97]:
        ctx.sample({"kind": c["kind"], "cfg": c["cfg"],
                    "life_cycle": ["%s%s%s" % (e["ev"], ":" + e["q"] if e.get("q") else "", "" if e.get("ok") else "!PANIC")
                                   for e in per.get(c["c"], []) if e.get("ev") in CALLS][:14]})


def _triage(ctx, runner, cores, base, cfgs, per, P, R, tag):
    """Turns the configurations TLC flagged into minimal signatures and verdicts."""
    byid = {c["c"]: c for c in cfgs}
    # (a) rule stated by the repository but configuration accepted
    for cid in sorted(R):
        c = byid[cid]
        sig = {"kind": c["kind"], "call": "validate", "site": "rule-not-enforced", "fields": fstr(nonbase(c, base))}
        ctx.cov.setdefault("rule_violations", []).append(sig)
        ctx.violation(sig, "validation accepted a %s configuration that breaks a rule the repository states in Validate() (MustReject)" % c["kind"],
                      {"cfg": c, "events": _strip(per.get(cid, []))})
    # (b) panics after acceptance
    pending = []      # (cfg, call, site, details)
    for cid in sorted(P, key=lambda i: (len(nonbase(byid[i], base)), i)):
        c = byid[cid]
        for (call, site), d in sorted(panics_of(per.get(cid, [])).items()):
            if call == "validate":
                continue
            core = cores.explains(c["kind"], call, site, c["cfg"])
            if core is not None:
                core["explained"] = core.get("explained", 0) + 1
                continue
            pending.append((c, call, site, d))
    # a panic must reproduce before it is minimised: the harness is deterministic per configuration, so one
    # that does not is a scheduling accident (of the machine or of the object's goroutines) - it is put on
    # record in the evidence but can neither be minimised nor carry a verdict
    if pending:
        uniq = {}
        for p in pending:
            uniq.setdefault(p[0]["c"], p[0])
        again = [{"c": 700000 + i, "kind": c["kind"], "cfg": c["cfg"]} for i, c in enumerate(uniq.values())]
        back = {a["c"]: cid for a, cid in zip(again, uniq)}
        got2 = runner.run(again, tag + "-re")
        seen = {}
        for a in again:
            seen[back[a["c"]]] = set(panics_of(got2.get(a["c"], [])))
        keep = []
        for p in pending:
            if (p[1], p[2]) in seen.get(p[0]["c"], set()):
                keep.append(p)
            else:
                ctx.cov.setdefault("non_reproducible_panics", []).append(
                    {"kind": p[0]["kind"], "fields": fstr(nonbase(p[0], base)), "call": p[1], "site": p[2], "pv": p[3].get("pv"),
                     "crash": p[3].get("crash")})
        pending = keep
    # minimise: per round one representative (the smallest) of every (kind, call, site) group, all of them in
    # one harness batch; a core found in a round explains later candidates
    new_cores = []
    budget = 120 if ctx.quick else 400
    while pending:
        rest = []
        for p in pending:
            core = cores.explains(p[0]["kind"], p[1], p[2], p[0]["cfg"])
            if core is not None:
                core["explained"] = core.get("explained", 0) + 1
            else:
                rest.append(p)
        pending = rest
        if not pending:
            break
        reps, rest = {}, []
        for p in pending:
            key = (p[0]["kind"], p[1], p[2])
            if key not in reps:
                reps[key] = p
            else:
                rest.append(p)
        budget -= len(reps)
        if budget < 0:
            ctx.inconclusive("C13: more than the budgeted number of distinct violating configurations to minimise")
        for (c, call, site, d), (mc, md) in zip(reps.values(), _minimise_many(ctx, runner, base, list(reps.values()))):
            core = {"kind": c["kind"], "call": call, "site": site, "fields": nonbase(mc, base), "crash": md["crash"], "q": md["q"],
                    "pv": md["pv"], "line": md["line"], "explained": 0, "cfg": mc, "stack": md.get("stack"), "recovered": md.get("recovered")}
            cores.cores.append(core)
            new_cores.append(core)
        pending = rest
    # confirm the minimal configurations with TLC and report
    if new_cores:
        mcfgs, mper = [], {}
        for i, core in enumerate(new_cores):
            cc = {"c": 900000 + i, "kind": core["kind"], "cfg": core["cfg"]["cfg"]}
            mcfgs.append(cc)
        got = runner.run(mcfgs, tag + "-min", shards=min(4, len(mcfgs)))
        P2, _ = tlc_validate(ctx, mcfgs, got, tag + "-min")
        for cc, core in zip(mcfgs, new_cores):
            if cc["c"] not in P2:
                ctx.inconclusive("C13: minimised configuration no longer violates NoPanicAfterAccept (not reproducible): %s %s"
                                 % (core["kind"], fstr(core["fields"])))
            sig = {"kind": core["kind"], "call": core["call"], "site": core["site"], "fields": fstr(core["fields"])}
            how = "crashes the process (panic in a goroutine of the object)" if core["crash"] else (
                "panics (recovered by net/http's connection handler)" if core.get("recovered") else "panics")
            what = ("%s configuration accepted by validation %s in %s at %s [%s]: %s; fields off base: %s; request classes: %s"
                    % (core["kind"], how, core["call"], core["site"], core["line"], core["pv"], fstr(core["fields"]) or "(base configuration)",
                       ",".join(core["q"]) or "-"))
            ctx.violation(sig, what, {"cfg": core["cfg"], "events": _strip(got.get(cc["c"], [])), "stack": core.get("stack")})


def _strip(evs):
    return [{k: v for k, v in e.items() if k != "stack"} for e in evs]


def _minimise_many(ctx, runner, base, items):
    """Greedy, all items in lock-step: drop fields back to their base class while the same panic (call, site)
    persists. items: [(cfg, call, site, details)] -> [(minimal cfg, details)]"""
    state = [{"cur": c, "d": d, "call": call, "site": site, "done": False} for (c, call, site, d) in items]
    nid = 0
    while True:
        cands, owner = [], {}
        for i, s in enumerate(state):
            if s["done"]:
                continue
            devs = sorted(nonbase(s["cur"], base))
            if not devs:
                s["done"] = True
                continue
            for f in devs:
                nid += 1
                c2 = dict(s["cur"]["cfg"])
                c2[f] = base[s["cur"]["kind"]][f]
                cc = {"c": 800000 + nid, "kind": s["cur"]["kind"], "cfg": c2}
                cands.append(cc)
                owner.setdefault(i, []).append(cc)
        if not cands:
            break
        got = runner.run(cands, "min", shards=max(1, min(8, len(cands) // 6)))
        for i, cs in owner.items():
            s = state[i]
            nxt = None
            for c2 in cs:
                ps = panics_of(got.get(c2["c"], []))
                if (s["call"], s["site"]) in ps:
                    nxt, s["d"] = c2, ps[(s["call"], s["site"])]
                    break
            if nxt is None:
                s["done"] = True
            else:
                s["cur"] = nxt
    return [(s["cur"], s["d"]) for s in state]

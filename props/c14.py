"""C14 - MQTT topic routing = MQTT 3.1.1 filter matching over any subscribe/unsubscribe/disconnect
history (DESIGN 5/C14).  Spec: specs/MqttTopics.tla (contract), MqttTopicsImpl.tla (trie, refinement),
MqttTopics_Gen.tla (behaviour generator), MqttTopics_Trace.tla (trace validation)."""
from lib.vlib import jdump
from props._mqtt import PKG, validate_traces, short

INV = "INVARIANTS TypeOK RouteExact NoResidue Refines EntsAreSubs SessAreSubs TrieEmptyIffNoSubs NoDeadNodes\nPROPERTIES Others ResumeKeeps\n"


def impl_cfg(filters, pairs, maxops, partial, pairwise=True, partial_remove=False):
    return ("SPECIFICATION ISpec\nCONSTANTS\n  Clients = {\"c1\", \"c2\"}\n  Filters <- %s\n  Pairs %s\n  Topics <- CuratedTopics\n"
            "  MaxOps = %d\n  Persistent = {\"c2\"}\n  PartialInsert = %s\n  PartialRemove = %s\n  ResumePairwise = %s\nVIEW iview\n" % (
                filters, pairs, maxops, "TRUE" if partial else "FALSE", "TRUE" if partial_remove else "FALSE",
                "TRUE" if pairwise else "FALSE")) + INV


GEN_CFG = ("SPECIFICATION GSpec\nCONSTANTS\n  Clients = {\"c1\", \"c2\"}\n  Filters <- CuratedFilters\n  Pairs <- CuratedPairs\n"
           "  Topics <- CuratedTopics\n  MaxOps = 1000\n  Persistent = {\"c2\"}\n")

TRACE_CFG = ("SPECIFICATION TSpec\nCONSTANTS\n  Clients = {\"c1\", \"c2\", \"c3\", \"c4\"}\n  Filters = {}\n  Pairs = {}\n  Topics = {}\n"
             "  MaxOps = 100000000\n  Persistent = {\"c3\", \"c4\"}\nCONSTRAINT HWM\nPOSTCONDITION Accepted\nINVARIANT TypeOK\n")


def run(ctx):
    ctx.cov["rule"] = ("behaviours = TLC -simulate runs of the routing contract (curated filters incl. malformed ones, 2 clients, one of "
                       "them with a persistent session that is dropped and resumed), "
                       "replayed in lock-step on a real TopicManager+Session and on a real Broker with raw MQTT clients, every probe "
                       "topic looked up after every operation; traces = seeded random histories (4 clients, level grammar with "
                       "empty / multi-byte levels, '+', '#', malformed filters alone and mixed with well-formed ones in SUBSCRIBE and UNSUBSCRIBE "
                       "packets; after every operation lookups of topics made for the filters it touched, fresh and looked up before) of "
                       "the real code validated by TLC; non-trivial = "
                       "behaviours/traces in which some probe is routed to somebody")
    ctx.assumptions += ["topic names contain no wildcard characters; which well-formed filters of an UNSUBSCRIBE that also carries a "
                        "malformed filter are removed is left open (any subset), but every later lookup must agree with one choice",
                        "the '$'-prefix rule of MQTT 3.1.1 4.7.2 is not part of the property and not checked",
                        "disconnect = end of a session (a clean session with its connection, a persistent one by a clean takeover); "
                        "resume = a persistent session's connection drops and the client reconnects with cleanSession=false, taken as "
                        "one step (the schedules of teardown against reconnect are C16); the harness lets every asynchronous "
                        "Session.store reach the storage before the next operation"]
    if ctx.phase("mc"):
        _mc(ctx)
    if ctx.phase("mbt"):
        _mbt(ctx)
    if ctx.phase("tv"):
        _tv(ctx)


def _mc(ctx):
    # the contract and the trie model (as the repaired code would be: a rejected SUBSCRIBE inserts nothing)
    r = ctx.tlc_mc("MqttTopicsImpl", impl_cfg("CuratedFilters", "<- CuratedPairs", 2, False),
                   label="trie refines contract, 16 filters + 5 packets of two, histories <= 2", timeout=600)
    ctx.log("trie model refines the contract (curated universe, 2 ops): %d distinct states" % r.distinct)
    depth = 3 if ctx.quick else 5
    r = ctx.tlc_mc("MqttTopicsImpl", impl_cfg("SmallFilters", "= {}", depth, False),
                   label="trie refines contract, 7 filters, histories <= %d" % depth, timeout=1500)
    ctx.log("trie model refines the contract (7 filters, %d ops): %d distinct states" % (depth, r.distinct))
    # UNSUBSCRIBE packets that mix well-formed and malformed filters (either order): every well-formed one leaves the trie
    r = ctx.tlc_mc("MqttTopicsImpl", impl_cfg("SmallFilters", "<- SmallPairs", 3, False),
                   label="trie refines contract, 7 filters + 2 packets mixing well-formed and malformed filters, histories <= 3", timeout=900)
    ctx.log("trie model refines the contract (7 filters, mixed packets, 3 ops): %d distinct states" % r.distinct)
    if not ctx.quick:
        r = ctx.tlc_mc("MqttTopicsImpl", impl_cfg("CuratedFilters", "<- CuratedPairs", 3, False),
                       label="trie refines contract, curated universe, histories <= 3", timeout=1500)
        ctx.log("trie model refines the contract (curated universe, 3 ops): %d distinct states" % r.distinct)
    # lead generation: the trie model as the pinned tree is written (subscribe stops at the first malformed filter)
    r = ctx.tlc_mc("MqttTopicsImpl", impl_cfg("CuratedFilters", "<- CuratedPairs", 2, True), expect_ok=False, count=False,
                   label="pinned-tree model (partial insert)", timeout=600)
    if not r.ok:
        ctx.notes.append("lead from TLC (model of the pinned tree): %s violated - a rejected multi-filter SUBSCRIBE leaves trie "
                         "entries that teardown does not remove; confirmed or refuted on the real code by the trace phase" % r.violated)
        ctx.log("lead: pinned-tree trie model violates %s" % r.violated)
    # lead generation: TopicManager.unsubscribe as the pinned tree is written (stops at the first malformed filter, while the
    # session forgets every filter of the packet)
    r = ctx.tlc_mc("MqttTopicsImpl", impl_cfg("SmallFilters", "<- SmallPairs", 3, False, partial_remove=True), expect_ok=False, count=False,
                   label="pinned-tree model (partial remove)", timeout=600)
    if not r.ok:
        ctx.notes.append("lead from TLC (model of the pinned tree): %s violated - an UNSUBSCRIBE whose malformed filter precedes a subscribed "
                         "one leaves that filter in the trie while the session forgets it, so teardown never removes it; confirmed or "
                         "refuted on the real code by the trace phase" % r.violated)
        ctx.log("lead: pinned-tree trie model (partial remove) violates %s" % r.violated)
    # the model must be able to tell a resume that hands the QoS values out in another order from the contract
    r = ctx.tlc_mc("MqttTopicsImpl", impl_cfg("CuratedFilters", "<- CuratedPairs", 2, False, pairwise=False), expect_ok=False, count=False,
                   label="resume re-subscribes with permuted QoS (must be refuted)", timeout=600)
    if r.ok:
        ctx.inconclusive("the trie model does not distinguish a resume with permuted QoS values from the contract")
    ctx.log("model of a resume with permuted QoS refuted: %s" % r.violated)


def _valid(f):
    """is the filter (list of levels, a level a list of characters) well-formed? (signature detail only)"""
    return len(f) >= 1 and all((("#" not in l) or (l == ["#"] and i == len(f) - 1)) and (("+" not in l) or l == ["+"]) for i, l in enumerate(f))


def _routed(b):
    return any(rr.get("r") for st in b for rr in st.get("route", []))


def _resumed_mixed(b):
    """does the behaviour resume a session that holds filters with QoS 0 and with QoS 1 (tracked from the operations)?"""
    held = {}
    for st in b:
        op = st.get("op")
        if not op:
            continue
        c = op.get("c")
        if op["a"] == "sub" and op["ok"]:
            for f, q in zip(op["fs"], op["qs"]):
                held.setdefault(c, {})[jdump(f)] = q
        elif op["a"] == "unsub":
            for f in op["fs"]:
                held.get(c, {}).pop(jdump(f), None)
        elif op["a"] in ("disc", "takeover"):
            held.pop(c, None)
        elif op["a"] == "resume" and len(set(held.get(c, {}).values())) > 1:
            return True
    return False


def _mbt(ctx):
    nb = 500 if ctx.quick else 6000
    behs = ctx.tlc_simulate("MqttTopics_Gen", GEN_CFG, num=nb, depth=25 if ctx.quick else 31, timeout=1500)
    inp = ctx.path("c14_behs.ndjson")
    with open(inp, "w") as fh:
        for b in behs:
            fh.write(jdump(b) + "\n")
    # wall-clock budget of a replay: on a busy machine the broker binding (a round trip and goroutine barriers per step) can be
    # many times slower than usual; what is not reached within the budget is left out (and must not be most of it)
    from props._mqtt import build_test_binary, run_shards
    budgets = {"direct": 300, "broker": 90 if ctx.quick else 600}
    binp = build_test_binary(ctx)
    nsh = {"direct": 1, "broker": 2 if ctx.quick else 6}          # processes per binding (the broker binding is mostly waiting)
    envs = []
    for mode in ("direct", "broker"):
        for i in range(nsh[mode]):
            part = inp
            if nsh[mode] > 1:                      # every process gets its own share of the behaviours
                part = ctx.path("c14_behs_%s_%d.ndjson" % (mode, i))
                with open(part, "w") as fh:
                    for b in behs[i::nsh[mode]]:
                        fh.write(jdump(b) + "\n")
            envs.append({"VERIF_IN": part, "VERIF_OUT": ctx.path("c14_replay_%s_%d.ndjson" % (mode, i)), "VERIF_MODE": mode,
                         "VERIF_BUDGET_S": budgets[mode]})
    res = run_shards(ctx, binp, "^TestVerifC14Replay$", envs, timeout=1200)
    for mode in ("direct", "broker"):
        budget = budgets[mode]
        recs, summ, rc, out = [], [], 0, ""
        for env, (rc1, out1) in zip(envs, res):
            if env["VERIF_MODE"] != mode:
                continue
            r1 = ctx.read_ndjson(env["VERIF_OUT"])
            s1 = [x for x in r1 if x.get("k") == "summary"]
            if rc1 != 0 or not s1:
                rc, out, summ = rc1 or 1, out1, []
                break
            recs += r1
            summ = [{k: (summ[0][k] + v if summ and isinstance(v, int) else v) for k, v in s1[0].items()}]
        if rc != 0 or not summ:
            ctx.inconclusive("C14 replay harness (%s) failed:\n%s" % (mode, out[-3000:]))
        done = summ[0].get("replayed", len(behs))
        if done < len(behs):
            ctx.notes.append("%s binding: %d of %d behaviours replayed within the budget of %ds (busy machine)" % (mode, done, len(behs), budget))
            if done < min(len(behs), 200) and not ctx.violations:
                ctx.inconclusive("C14 replay harness (%s) got through only %d of %d behaviours in %ds" % (mode, done, len(behs), budget))
        if summ[0]["harness_failures"]:
            bad = [x for x in recs if x.get("k") == "mismatch" and x["sig"].get("kind") == "harness"]
            if summ[0]["harness_failures"] > max(2, done // 50) and not ctx.violations:
                ctx.inconclusive("C14 replay harness (%s) could not drive the broker in %d behaviours: %s" % (
                    mode, summ[0]["harness_failures"], bad[0]["what"] if bad else "?"))
            ctx.notes.append("%d behaviours (%s binding) left out, harness could not drive the broker" % (summ[0]["harness_failures"], mode))
        ctx.evals(summ[0]["probes"])
        ctx.traces(done)
        ctx.log("replayed %d behaviours (%d steps, %d lookups) on the real code, binding %s: %d mismatches" % (
            done, summ[0]["steps"], summ[0]["probes"], mode, summ[0]["mismatches"]))
        for m in [x for x in recs if x.get("k") == "mismatch" and x["sig"].get("kind") != "harness"]:
            sig = dict(m["sig"])
            sig["mode"] = mode
            ctx.violation(sig, "real topic routing diverges from the contract (%s binding), step %d: %s" % (mode, m["step"], m["what"]), m)
    for b in behs:
        if _routed(b):
            ctx.nontrivial({"b": b})
    nres = sum(1 for b in behs if _resumed_mixed(b))
    if nres < 5 and not ctx.violations:
        ctx.inconclusive("C14 behaviours are vacuous for resumed sessions: only %d resume a session holding filters of both QoS" % nres)
    ctx.notes.append("%d behaviours resume a persistent session that holds filters of both QoS" % nres)
    ctx.sample({"kind": "tlc-behaviour", "steps": [short(s, 300) for s in behs[0][1:4]]})


def _tv(ctx):
    # family of packets mixing well-formed and malformed filters: 0 none, 1 SUBSCRIBE, 2 UNSUBSCRIBE with the malformed filter
    # last, 3 UNSUBSCRIBE with the malformed filter anywhere (kept apart: a known finding in one family ends the histories it hits)
    plans = [("direct", 0, 12 if ctx.quick else 150, 80 if ctx.quick else 300),
             ("broker", 0, 10 if ctx.quick else 100, 60 if ctx.quick else 200),
             ("broker", 1, 4 if ctx.quick else 30, 60 if ctx.quick else 150),
             ("direct", 1, 4 if ctx.quick else 30, 60 if ctx.quick else 150),
             ("direct", 2, 8 if ctx.quick else 60, 80 if ctx.quick else 200),
             ("broker", 2, 5 if ctx.quick else 40, 60 if ctx.quick else 150),
             ("direct", 3, 5 if ctx.quick else 40, 60 if ctx.quick else 150),
             ("broker", 3, 3 if ctx.quick else 30, 60 if ctx.quick else 150)]
    families = {0: "plain", 1: "multifail", 2: "unsubfail-last", 3: "unsubfail-any"}
    from props._mqtt import split_traces, build_test_binary, run_shards
    # all plans run side by side (one compiled harness); the recorded histories are validated in two TLC runs: the families that
    # are free of known findings together, the family that a known finding can end histories of on its own
    binp = build_test_binary(ctx)
    envs = [{"VERIF_OUT": ctx.path("c14_trace_%s_%d.ndjson" % (mode, fam)), "VERIF_MODE": mode, "VERIF_N": n, "VERIF_STEPS": steps,
             "VERIF_MULTIFAIL": fam, "VERIF_SALT": fam} for mode, fam, n, steps in plans]
    res = run_shards(ctx, binp, "^TestVerifC14Trace$", envs, timeout=1500)
    groups = {"a": [], "b": []}
    for (mode, fam, n, steps), env, (rc, out) in zip(plans, envs, res):
        ev = ctx.read_ndjson(env["VERIF_OUT"])
        if rc != 0 or not ev:
            ctx.inconclusive("C14 trace harness (%s) failed:\n%s" % (mode, out[-3000:]))
        hf = [e for e in ev if e.get("ev") in ("harness-failure", "probe-error")]
        if hf:
            # a history the harness could not complete (a broker that did not answer in 20s on a busy machine) is left out
            keep = []
            for a, b in split_traces(ev):
                if not any(e.get("ev") in ("harness-failure", "probe-error") for e in ev[a:b]):
                    keep += ev[a:b]
            if len(hf) > max(1, n // 10) and not ctx.violations:
                ctx.inconclusive("C14 trace harness (%s) could not drive the system in %d of %d histories: %s" % (mode, len(hf), n, hf[0]))
            ctx.notes.append("%d of %d histories (%s binding) left out, harness could not drive the system: %s" % (len(hf), n, mode, short(hf[0], 200)))
            ev = keep
        ctx.evals(sum(1 for e in ev if e["ev"] == "probe"))
        for e in ev:
            e["pl"] = "%s/%d" % (mode, fam)          # (not looked at by the trace specification)
        groups["b" if fam == 3 else "a"] += ev
        cur = []
        for e in ev + [{"ev": "reset"}]:
            if e["ev"] == "reset":
                if any(x["ev"] == "probe" and x["r"] for x in cur):
                    ctx.nontrivial({"t": [{k: v for k, v in x.items() if k != "pl"} for x in cur[:50]]})
                cur = []
            cur.append(e)
        ctx.sample({"kind": "recorded-trace", "mode": mode, "events": [short(e, 200) for e in ev[1:6]]})

    def on_reject(seg, whole, tr):
        last = seg[-1]
        mode, fam = last["pl"].split("/")
        # signature detail: does the unexplained lookup answer contain a client that earlier had a SUBSCRIBE rejected
        # whose well-formed filters preceded the malformed one (the input class of finding rejected-subscribe-leaves-residue)?
        cands = {e["c"] for e in seg if e["ev"] == "sub" and not e["ok"] and len(e["fs"]) > 1}
        answered = {x["c"] for x in last.get("r", [])} if last.get("ev") == "probe" else set()
        # ... or a client that sent an UNSUBSCRIBE in which a malformed filter preceded a well-formed one and whose session
        # ended afterwards (the input class of finding rejected-unsubscribe-leaves-residue)
        ucands, pending = set(), set()
        for e in seg:
            if e["ev"] == "unsub" and any(not _valid(f) and any(_valid(g) for g in e["fs"][i + 1:]) for i, f in enumerate(e["fs"])):
                pending.add(e["c"])
            elif e["ev"] in ("disc", "takeover") and e["c"] in pending:
                ucands.add(e["c"])
        sig = {"kind": "trace", "mode": mode, "family": families[int(fam)], "ev": last.get("ev"),
               "residue_of_rejected_sub": bool(cands & answered), "residue_of_rejected_unsub": bool(ucands & answered)}
        ctx.violation(sig, "recorded history of the real topic routing (%s binding, family %s) is not a behaviour of the contract: first "
                      "unexplained event %s%s" % (mode, families[int(fam)], short(last, 300), ", invariant %s" % tr.inv if tr.inv else ""), seg[-40:])

    for g, what in (("a", "families plain, multifail, unsubfail-last"), ("b", "family unsubfail-any")):
        total = len(split_traces(groups[g])) if groups[g] else 0
        ok = validate_traces(ctx, "MqttTopics_Trace", TRACE_CFG, groups[g], "c14_trace_" + g, on_reject, max_rounds=8)
        ctx.traces(ok)
        ctx.log("validated %d/%d recorded histories (both bindings, %s)" % (ok, total, what))

"""C14 - MQTT topic routing = MQTT 3.1.1 filter matching over any subscribe/unsubscribe/disconnect
history (DESIGN 5/C14).  Spec: specs/MqttTopics.tla (contract), MqttTopicsImpl.tla (trie, refinement),
MqttTopics_Gen.tla (behaviour generator), MqttTopics_Trace.tla (trace validation)."""
from lib.vlib import jdump
from props._mqtt import PKG, validate_traces, short

INV = "INVARIANTS TypeOK RouteExact NoResidue Refines EntsAreSubs SessAreSubs TrieEmptyIffNoSubs NoDeadNodes\nPROPERTIES Others ResumeKeeps\n"


def impl_cfg(filters, pairs, maxops, partial, pairwise=True):
    return ("SPECIFICATION ISpec\nCONSTANTS\n  Clients = {\"c1\", \"c2\"}\n  Filters <- %s\n  Pairs %s\n  Topics <- CuratedTopics\n"
            "  MaxOps = %d\n  Persistent = {\"c2\"}\n  PartialInsert = %s\n  ResumePairwise = %s\nVIEW iview\n" % (
                filters, pairs, maxops, "TRUE" if partial else "FALSE", "TRUE" if pairwise else "FALSE")) + INV


GEN_CFG = ("SPECIFICATION GSpec\nCONSTANTS\n  Clients = {\"c1\", \"c2\"}\n  Filters <- CuratedFilters\n  Pairs <- CuratedPairs\n"
           "  Topics <- CuratedTopics\n  MaxOps = 1000\n  Persistent = {\"c2\"}\n")

TRACE_CFG = ("SPECIFICATION TSpec\nCONSTANTS\n  Clients = {\"c1\", \"c2\", \"c3\", \"c4\"}\n  Filters = {}\n  Pairs = {}\n  Topics = {}\n"
             "  MaxOps = 100000000\n  Persistent = {\"c3\", \"c4\"}\nCONSTRAINT HWM\nPOSTCONDITION Accepted\nINVARIANT TypeOK\n")


def run(ctx):
    ctx.cov["rule"] = ("behaviours = TLC -simulate runs of the routing contract (curated filters incl. malformed ones, 2 clients, one of "
                       "them with a persistent session that is dropped and resumed), "
                       "replayed in lock-step on a real TopicManager+Session and on a real Broker with raw MQTT clients, every probe "
                       "topic looked up after every operation; traces = seeded random histories (4 clients, level grammar with "
                       "empty / multi-byte levels, '+', '#', malformed filters) of the real code validated by TLC; non-trivial = "
                       "behaviours/traces in which some probe is routed to somebody")
    ctx.assumptions += ["topic names contain no wildcard characters; UNSUBSCRIBE packets carry well-formed filters",
                        "the '$'-prefix rule of MQTT 3.1.1 4.7.2 is not part of the property and not checked",
                        "disconnect = end of a session (a clean session with its connection, a persistent one by a clean takeover); "
                        "resume = a persistent session's connection drops and the client reconnects with cleanSession=false, taken as "
                        "one step (the schedules of teardown against reconnect are C16); the harness lets every asynchronous "
                        "Session.store reach the storage before the next operation"]
    if ctx.phase("mc"):
        _mc(ctx)
    if ctx.phase("mbt"):
        _mbt(ctx)
    if ctx.phase("tv"):
        _tv(ctx)


def _mc(ctx):
    # the contract and the trie model (as the repaired code would be: a rejected SUBSCRIBE inserts nothing)
    r = ctx.tlc_mc("MqttTopicsImpl", impl_cfg("CuratedFilters", "<- CuratedPairs", 2, False),
                   label="trie refines contract, 16 filters + 5 packets of two, histories <= 2", timeout=600)
    ctx.log("trie model refines the contract (curated universe, 2 ops): %d distinct states" % r.distinct)
    depth = 3 if ctx.quick else 5
    r = ctx.tlc_mc("MqttTopicsImpl", impl_cfg("SmallFilters", "= {}", depth, False),
                   label="trie refines contract, 7 filters, histories <= %d" % depth, timeout=1500)
    ctx.log("trie model refines the contract (7 filters, %d ops): %d distinct states" % (depth, r.distinct))
    if not ctx.quick:
        r = ctx.tlc_mc("MqttTopicsImpl", impl_cfg("CuratedFilters", "<- CuratedPairs", 3, False),
                       label="trie refines contract, curated universe, histories <= 3", timeout=1500)
        ctx.log("trie model refines the contract (curated universe, 3 ops): %d distinct states" % r.distinct)
    # lead generation: the trie model as the pinned tree is written (subscribe stops at the first malformed filter)
    r = ctx.tlc_mc("MqttTopicsImpl", impl_cfg("CuratedFilters", "<- CuratedPairs", 2, True), expect_ok=False, count=False,
                   label="pinned-tree model (partial insert)", timeout=600)
    if not r.ok:
        ctx.notes.append("lead from TLC (model of the pinned tree): %s violated - a rejected multi-filter SUBSCRIBE leaves trie "
                         "entries that teardown does not remove; confirmed or refuted on the real code by the trace phase" % r.violated)
        ctx.log("lead: pinned-tree trie model violates %s" % r.violated)
    # the model must be able to tell a resume that hands the QoS values out in another order from the contract
    r = ctx.tlc_mc("MqttTopicsImpl", impl_cfg("CuratedFilters", "<- CuratedPairs", 2, False, pairwise=False), expect_ok=False, count=False,
                   label="resume re-subscribes with permuted QoS (must be refuted)", timeout=600)
    if r.ok:
        ctx.inconclusive("the trie model does not distinguish a resume with permuted QoS values from the contract")
    ctx.log("model of a resume with permuted QoS refuted: %s" % r.violated)


def _routed(b):
    return any(rr.get("r") for st in b for rr in st.get("route", []))


def _resumed_mixed(b):
    """does the behaviour resume a session that holds filters with QoS 0 and with QoS 1 (tracked from the operations)?"""
    held = {}
    for st in b:
        op = st.get("op")
        if not op:
            continue
        c = op.get("c")
        if op["a"] == "sub" and op["ok"]:
            for f, q in zip(op["fs"], op["qs"]):
                held.setdefault(c, {})[jdump(f)] = q
        elif op["a"] == "unsub":
            for f in op["fs"]:
                held.get(c, {}).pop(jdump(f), None)
        elif op["a"] in ("disc", "takeover"):
            held.pop(c, None)
        elif op["a"] == "resume" and len(set(held.get(c, {}).values())) > 1:
            return True
    return False


def _mbt(ctx):
    nb = 500 if ctx.quick else 6000
    behs = ctx.tlc_simulate("MqttTopics_Gen", GEN_CFG, num=nb, depth=25 if ctx.quick else 31, timeout=1500)
    inp = ctx.path("c14_behs.ndjson")
    with open(inp, "w") as fh:
        for b in behs:
            fh.write(jdump(b) + "\n")
    for mode in ("direct", "broker"):
        outp = ctx.path("c14_replay_%s.ndjson" % mode)
        rc, out = ctx.go_test(PKG, "^TestVerifC14Replay$", env={"VERIF_IN": inp, "VERIF_OUT": outp, "VERIF_MODE": mode}, timeout=1500)
        recs = ctx.read_ndjson(outp)
        summ = [x for x in recs if x.get("k") == "summary"]
        if rc != 0 or not summ:
            ctx.inconclusive("C14 replay harness (%s) failed:\n%s" % (mode, out[-3000:]))
        if summ[0]["harness_failures"]:
            bad = [x for x in recs if x.get("k") == "mismatch" and x["sig"].get("kind") == "harness"]
            if summ[0]["harness_failures"] > max(1, len(behs) // 100) and not ctx.violations:
                ctx.inconclusive("C14 replay harness (%s) could not drive the broker in %d behaviours: %s" % (
                    mode, summ[0]["harness_failures"], bad[0]["what"] if bad else "?"))
            ctx.notes.append("%d behaviours (%s binding) left out, harness could not drive the broker" % (summ[0]["harness_failures"], mode))
        ctx.evals(summ[0]["probes"])
        ctx.traces(len(behs))
        ctx.log("replayed %d behaviours (%d steps, %d lookups) on the real code, binding %s: %d mismatches" % (
            len(behs), summ[0]["steps"], summ[0]["probes"], mode, summ[0]["mismatches"]))
        for m in [x for x in recs if x.get("k") == "mismatch" and x["sig"].get("kind") != "harness"]:
            sig = dict(m["sig"])
            sig["mode"] = mode
            ctx.violation(sig, "real topic routing diverges from the contract (%s binding), step %d: %s" % (mode, m["step"], m["what"]), m)
    for b in behs:
        if _routed(b):
            ctx.nontrivial({"b": b})
    nres = sum(1 for b in behs if _resumed_mixed(b))
    if nres < 5 and not ctx.violations:
        ctx.inconclusive("C14 behaviours are vacuous for resumed sessions: only %d resume a session holding filters of both QoS" % nres)
    ctx.notes.append("%d behaviours resume a persistent session that holds filters of both QoS" % nres)
    ctx.sample({"kind": "tlc-behaviour", "steps": [short(s, 300) for s in behs[0][1:4]]})


def _tv(ctx):
    plans = [("direct", 0, 12 if ctx.quick else 150, 80 if ctx.quick else 300),
             ("broker", 0, 10 if ctx.quick else 100, 60 if ctx.quick else 200),
             ("broker", 1, 4 if ctx.quick else 30, 60 if ctx.quick else 150),
             ("direct", 1, 4 if ctx.quick else 30, 60 if ctx.quick else 150)]
    for mode, multifail, n, steps in plans:
        name = "c14_trace_%s_%d" % (mode, multifail)
        tp = ctx.path(name + ".ndjson")
        rc, out = ctx.go_test(PKG, "^TestVerifC14Trace$", env={"VERIF_OUT": tp, "VERIF_MODE": mode, "VERIF_N": n, "VERIF_STEPS": steps,
                                                              "VERIF_MULTIFAIL": multifail, "VERIF_SALT": multifail}, timeout=1500)
        ev = ctx.read_ndjson(tp)
        if rc != 0 or not ev:
            ctx.inconclusive("C14 trace harness (%s) failed:\n%s" % (mode, out[-3000:]))
        hf = [e for e in ev if e.get("ev") in ("harness-failure", "probe-error")]
        if hf:
            # a history the harness could not complete (a broker that did not answer in 20s on a busy machine) is left out
            from props._mqtt import split_traces
            keep = []
            for a, b in split_traces(ev):
                if not any(e.get("ev") in ("harness-failure", "probe-error") for e in ev[a:b]):
                    keep += ev[a:b]
            if len(hf) > max(1, n // 10) and not ctx.violations:
                ctx.inconclusive("C14 trace harness (%s) could not drive the system in %d of %d histories: %s" % (mode, len(hf), n, hf[0]))
            ctx.notes.append("%d of %d histories (%s binding) left out, harness could not drive the system: %s" % (len(hf), n, mode, short(hf[0], 200)))
            ev = keep
        ctx.evals(sum(1 for e in ev if e["ev"] == "probe"))

        def on_reject(seg, whole, tr, mode=mode, multifail=multifail):
            last = seg[-1]
            # signature detail: does the unexplained lookup answer contain a client that earlier had a SUBSCRIBE rejected
            # whose well-formed filters preceded the malformed one (the input class of finding rejected-subscribe-leaves-residue)?
            cands = {e["c"] for e in seg if e["ev"] == "sub" and not e["ok"] and len(e["fs"]) > 1}
            answered = {x["c"] for x in last.get("r", [])} if last.get("ev") == "probe" else set()
            sig = {"kind": "trace", "mode": mode, "family": "multifail" if multifail else "plain", "ev": last.get("ev"),
                   "residue_of_rejected_sub": bool(cands & answered)}
            ctx.violation(sig, "recorded history of the real topic routing (%s binding) is not a behaviour of the contract: first "
                          "unexplained event %s%s" % (mode, short(last, 300), ", invariant %s" % tr.inv if tr.inv else ""), seg[-40:])

        ok = validate_traces(ctx, "MqttTopics_Trace", TRACE_CFG, ev, name, on_reject)
        ctx.traces(ok)
        ctx.log("validated %d/%d recorded histories (%s binding%s)" % (ok, n, mode, ", rejected multi-filter SUBSCRIBEs" if multifail else ""))
        cur = []
        for e in ev + [{"ev": "reset"}]:
            if e["ev"] == "reset":
                if any(x["ev"] == "probe" and x["r"] for x in cur):
                    ctx.nontrivial({"t": cur[:50]})
                cur = []
            cur.append(e)
        ctx.sample({"kind": "recorded-trace", "mode": mode, "events": [short(e, 200) for e in ev[1:6]]})

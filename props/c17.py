"""C17 - connection caps hold at every instant (DESIGN 5/C17).

HTTP half (this file): specs/ConnCapContract.tla (contract), specs/ConnCap.tla (implementation-shaped:
x/sync weighted semaphore with FIFO waiters, SetMaxCount = synchronous part + tuner goroutine, acceptor
loop, release-once close), specs/ConnCap_Gen.tla (schedules), specs/ConnCap_Trace.tla (trace validation).
MQTT half: props/c17_mqtt.py (run_mqtt), built separately; called when present.
"""
import json
import os
import re

from lib import vlib
from lib.vlib import jdump

PKG_SEM = "pkg/util/sem"
PKG_LL = "pkg/util/limitlistener"
PKG_HS = "pkg/object/httpserver"

IMPL_INV = "TypeOK Conserved ReusableWhenSettled HeldBack CapHoldsWhileUnchanged AppliedInOrder ChangesApplied NoDoomedResize"
CONTRACT_INV = "NeverAboveEveryCap"
CONTRACT_PROPS = "NoAcceptAboveCap RefinesContract"


def mc_cfg(ordered, resizes, dial, err, contract=True, sequential=False, caps="{1,2,3}", size=7, dbl=0, restart=0, initcaps=None):
    s = ("SPECIFICATION GSpec\nCONSTANTS\n  Size = %d\n  Caps = %s\n  InitCaps = %s\n  MaxResize = %d\n  MaxDial = %d\n"
         "  MaxErr = %d\n  MaxDbl = %d\n  MaxRestart = %d\n  Ordered = %s\nVIEW view\n" % (
             size, caps, initcaps or caps, resizes, dial, err, dbl, restart, "TRUE" if ordered else "FALSE"))
    s += "INVARIANTS %s%s\n" % (IMPL_INV, (" " + CONTRACT_INV) if contract else "")
    s += "PROPERTIES NoDrop%s\n" % ((" " + CONTRACT_PROPS) if contract else "")
    if sequential:
        s += "ACTION_CONSTRAINT SequentialResizes\n"
    return s


def sim_cfg(resizes=2, dial=5, err=1, ordered=False, dbl=0, restart=0):
    return ("SPECIFICATION GSpec\nCONSTANTS\n  Size = 9\n  Caps = {1,2,3,4}\n  InitCaps = {1,2,3,4}\n  MaxResize = %d\n  MaxDial = %d\n"
            "  MaxErr = %d\n  MaxDbl = %d\n  MaxRestart = %d\n  Ordered = %s\nACTION_CONSTRAINT UrgentAccept\n" % (
                resizes, dial, err, dbl, restart, "TRUE" if ordered else "FALSE"))


def dbl_cfg(ordered):
    """generation profile OverlappingCloses (specs/ConnCap.tla): a small server at its cap; capacity comes back only through
    connections closed by two overlapping Close calls"""
    return (sim_cfg(1, 5, 0, ordered, dbl=2).replace("InitCaps = {1,2,3,4}", "InitCaps = {1,2}").replace("Caps = {1,2,3,4}", "Caps = {1,2,3}")
            .replace("ACTION_CONSTRAINT UrgentAccept", "ACTION_CONSTRAINT UrgentAccept OverlappingCloses"))


def reloads_cfg(resizes=2, restarts=2):
    """generation profile OnlyReloads (specs/ConnCap.tla): sequences of reloads of the server - run-time cap changes and
    restarting reloads (a new listener) - every order, every value"""
    return ("SPECIFICATION GSpec\nCONSTANTS\n  Size = 9\n  Caps = {1,2,3}\n  InitCaps = {1,2,3}\n  MaxResize = %d\n  MaxDial = 0\n"
            "  MaxErr = 0\n  MaxDbl = 0\n  MaxRestart = %d\n  Ordered = FALSE\nACTION_CONSTRAINT OnlyReloads\n" % (resizes, restarts))


def burst_cfg(resizes, dial, ordered):
    """generation profile BurstAtCap (specs/ConnCap.tla): the server fills up to its cap with a client held back, then
    `resizes` cap changes are requested back to back - every sequence of values equally likely"""
    return sim_cfg(resizes, dial, 0, ordered).replace("ACTION_CONSTRAINT UrgentAccept", "ACTION_CONSTRAINT UrgentAccept BurstAtCap")


# ---- cap values at and above the capacity of the weighted semaphore (maxCapacity)
BSIZE = 12                      # Size of the boundary configurations of the model
BCAPS = "{1,2,3,11,12,13,16}"   # small values, Size-1, Size, Size+1, far above
FAR = 2000000000                # "far above" on the real code (maxConnections is a uint32; TLC integers are 32 bit signed)


def boundary_cfg(resizes, dial, ordered):
    """generation profile BoundaryFirst (specs/ConnCap.tla): Size = 12 stands for maxCapacity, the cap values are small ones and
    Size-1, Size, Size+1, far above; the first cap change requests one of the latter, everything else is free (connections open
    or not, later values, overlapping or not)"""
    return ("SPECIFICATION GSpec\nCONSTANTS\n  Size = %d\n  Caps = %s\n  InitCaps = {1,2,3,11,12}\n  MaxResize = %d\n  MaxDial = %d\n"
            "  MaxErr = 0\n  MaxDbl = 0\n  MaxRestart = 0\n  Ordered = %s\nACTION_CONSTRAINT UrgentAccept BoundaryFirst\n" % (
                BSIZE, BCAPS, resizes, dial, "TRUE" if ordered else "FALSE"))


def max_capacity():
    """maxCapacity of the tree under test (pkg/util/sem/semaphore.go)"""
    try:
        src = open(os.path.join(vlib.REPO, PKG_SEM, "semaphore.go")).read()
    except OSError:
        return 20000000
    m = re.search(r"\bmaxCapacity\b[^=\n]*=\s*([0-9_]+)", src)
    return int(m.group(1).replace("_", "")) if m else 20000000


def real_value(v, mc):
    """model value of a boundary configuration -> value used on the real Semaphore"""
    if v < BSIZE - 1:
        return v
    if v <= BSIZE + 1:
        return mc + (v - BSIZE)
    return FAR


def bclass(v):
    """s small, m maxCapacity-1, M maxCapacity, p maxCapacity+1, P far above"""
    return "s" if v < BSIZE - 1 else "m" if v == BSIZE - 1 else "M" if v == BSIZE else "p" if v == BSIZE + 1 else "P"


def to_real(beh, mc):
    """a behaviour of a boundary configuration with its cap values replaced by the real ones"""
    out = []
    for s in beh:
        s = dict(s)
        if s.get("a") == "init":
            s["cap"] = real_value(s["cap"], mc)
        elif s.get("a") == "setmax":
            s["n"], s["c"] = real_value(s["n"], mc), real_value(s["c"], mc)
        out.append(s)
    return out


def bseq(beh):
    """class sequence of the caps of a behaviour: initial cap, then every requested value"""
    return "".join(bclass(s["cap"]) if s["a"] == "init" else bclass(s["n"]) for s in beh if s["a"] in ("init", "setmax"))


BOUNDARY_NEED = ("ms", "Ms", "ps", "Ps", "pM", "Pm", "PM", "pp", "MM")   # adjacent requests that must occur in the selected schedules


_BCACHE = {}


def boundary_behaviours(ctx, ordered, limit):
    """TLC behaviours of the boundary profile with at least two cap changes, one of every sequence of value classes (and of
    every pattern of overlapping) before any gets a second one; vacuity: every boundary class followed by a small value etc."""
    key = (id(ctx), ordered)
    if key not in _BCACHE:
        nb = 500 if ctx.quick else 4000
        behs = ctx.tlc_simulate("ConnCap_Gen", boundary_cfg(3, 4, ordered), num=nb, depth=22, seed=ctx.seed + 86028121)
        if not ctx.quick:
            behs += ctx.tlc_simulate("ConnCap_Gen", boundary_cfg(2, 3, ordered), num=nb // 2, depth=14, seed=ctx.seed + 67867967)
        ok, seen = [], set()
        for b in behs:
            if not b or b[0].get("a") != "init" or sum(1 for s in b if s["a"] == "setmax") < 2:
                continue
            k = vlib.sha(b)
            if k not in seen:
                seen.add(k)
                ok.append(b)
        _BCACHE[key] = ok
    ok = _BCACHE[key]

    def pairs_of(b):
        q = bseq(b)
        return {q[i:i + 2] for i in range(1, len(q) - 1)}
    first, missing = [], []
    for p in BOUNDARY_NEED:       # one with connections open at the second of the two calls if there is one
        cands = [b for b in ok if p in pairs_of(b)]
        busy = [b for b in cands if any(s["a"] == "setmax" and s["usage"] > 0 and s["i"] > 1 for s in b)]
        if not cands:
            missing.append(p)
        elif (busy or cands)[0] not in first:
            first.append((busy or cands)[0])
    if missing:
        ctx.inconclusive("TLC behaviours of the boundary profile contain no successive cap changes of the classes %s "
                         "(s small, m maxCapacity-1, M maxCapacity, p maxCapacity+1, P far above)" % missing)
    sel = stratified(ok, lambda b: (bseq(b), rz_kinds(b).lower()), limit, first=first)
    ctx.cov["boundary_class_sequences"] = len({bseq(b) for b in sel})
    return sel


def rz_kinds(beh):
    """The kinds of the SetMaxCount calls of a behaviour, from the model's step records: G grow, E same value as configured,
    S shrink not below the usage (completes at once), B shrink below the usage (blocks until connections close); a lower-case
    letter = requested while an earlier call was not completed yet."""
    k = ""
    for s in beh:
        if s.get("a") == "setmax" and "d" in s:
            c = "G" if s["d"] > 0 else "E" if s["d"] == 0 else ("B" if s["n"] < s["usage"] else "S")
            k += c.lower() if s.get("pend", 0) > 0 else c
    return k


def stratified(items, key, limit, first=()):
    """Selects up to `limit` items so that every class (key) is represented before any class gets a second member."""
    groups, order = {}, []
    for it in items:
        k = key(it)
        if k not in groups:
            groups[k] = []
            order.append(k)
        groups[k].append(it)
    out = list(first)
    depth = 0
    while len(out) < limit:
        took = False
        for k in order:
            if depth < len(groups[k]):
                took = True
                if len(out) < limit and groups[k][depth] not in out:
                    out.append(groups[k][depth])
        if not took:
            break
        depth += 1
    return out[:limit]


# call kinds that must occur behind a still pending call in the generated schedules / cases (vacuity)
NEEDED_KINDS = {"g", "e", "s", "b"}

ALL_ACTIONS = {"init", "dial", "acq", "accept", "err", "close", "setmax", "tuner", "tdone", "lclose", "acancel", "aabort", "eof",
               "close2", "crel", "cnop"}

TRACE_CFG = ("SPECIFICATION TSpec\nCONSTRAINT HWM\nPOSTCONDITION Accepted\n"
             "INVARIANTS NoAcceptAboveCapObserved CapHoldsWhileUnchanged NeverAboveEveryCap NoDrop ReleaseReusable ChangesApplied\n")


def hook_present():
    """Does the tree under test carry the gate hook of fixes/hook-sem.diff?"""
    d = os.path.join(vlib.REPO, PKG_SEM)
    try:
        on = open(os.path.join(d, "verif_on.go")).read()
        src = open(os.path.join(d, "semaphore.go")).read()
    except OSError:
        return False
    return "func VerifSetGate(" in on and 'verifGate("sem.resize"' in src


def run(ctx):
    ctx.cov["rule"] = ("behaviours = TLC-generated schedules of the implementation-shaped model (specs/ConnCap.tla) executed on the real "
                       "Semaphore / LimitListener; traces = event logs of the real Semaphore, LimitListener and HTTPServer runtime under "
                       "concurrent connects, closes and SetMaxCount/SetMaxConnection/reload, validated by TLC against the contract "
                       "(specs/ConnCapContract.tla) with a conservative open counter; non-trivial = a trace/schedule with at least one "
                       "resize in flight while connections are open or waiting, or a client held back at the cap. Schedules and "
                       "overlap cases include bursts of cap changes on a full server with a client held back (profile BurstAtCap), one of "
                       "every sequence of call kinds - grow, shrink, shrink below the usage, same value as configured - before any "
                       "sequence gets a second one; the stress drivers issue same-value calls and keep connections open across bursts. "
                       "Connections are also closed by two Close calls that really overlap inside a slow close of the underlying connection "
                       "(schedules: model actions close2/crel/cnop, the order of coming out forced; stress: rendezvous inside the inner "
                       "Close). Server level: TLC-generated reload sequences mixing run-time cap changes and restarting reloads (port / "
                       "keepAliveTimeout changed: a new listener), one of every class of the last reload (direction x where its value was "
                       "seen before: last run-time value before a restart, this listener, an earlier listener, a creation cap, never), "
                       "the cap the server ends with probed with cap+1 clients (thorough: after every reload). Cap values at and "
                       "above the capacity of the weighted semaphore (maxCapacity-1, maxCapacity, maxCapacity+1, 2e9) followed by lower "
                       "ones: model constant Size = 12 with Caps = small values + {11,12,13,16} (Clamp as part of SetMaxCount / NewSem, "
                       "invariants ChangesApplied, NoDoomedResize), TLC schedules of profile BoundaryFirst mapped to the real values and "
                       "executed on the real Semaphore, LimitListener and (run-time values) HTTPServer; at the end of every schedule / "
                       "case a barrier - nothing held, no acquirer left - at which every change must be applied (a change whose "
                       "background goroutine is blocked inside the semaphore in two successive goroutine dumps, none runnable, is "
                       "never applied: event rzstuck, clause ChangesApplied) and the semaphore must hold exactly the last cap")
    ctx.assumptions += [
        "a cap change counts as applied when the done channel of SetMaxCount is closed; between request and completion every cap "
        "from the newest fully applied one on may justify an accept (ConnCapContract!CapsInEffect)",
        "open connections are counted conservatively: from after Accept/Acquire returned (client side: first response byte) until "
        "before Close/Release is called",
        "Size of the weighted semaphore (maxCapacity = 20 000 000) is modelled by a constant larger than every reachable effective cap; "
        "in the boundary configurations Size = 12 stands for maxCapacity and the model values 11, 12, 13, 16 for maxCapacity-1, "
        "maxCapacity, maxCapacity+1 and 2 000 000 000 on the real code (differences between boundary and small values exceed every "
        "reachable usage in both, so every comparison of the weighted semaphore comes out the same)",
        "a requested change counts as never applied only when decided at a barrier: every token given back (the calls have returned), "
        "no acquirer left, and all background goroutines of SetMaxCount blocked in a channel operation (none runnable) in two goroutine "
        "dumps in a row - or, if they cannot be told from the dump, after a 20 s deadline; caps above 16 are probed from below only",
        "a harness process that dies of x/sync's panic 'released more than held' is a violation (the harnesses release only what "
        "they acquired): with a cap at maxCapacity a surplus release crashes the process instead of creating a token",
        "HTTP/3 is outside the claim (quic-go stub build)",
        "a restarting reload is carried out with nobody connected (the harness hangs up first); from the restart on the cap in effect "
        "is the maxConnections of the new spec, whatever was requested at run time before (ConnCapContract!CRestart)",
        "a SetMaxCount call whose done channel closes without a background adjustment having passed the sem.resize gate is taken as "
        "completed synchronously; its tuner steps in a schedule are empty (the contract does not say how a change is carried out)",
    ]
    hook = hook_present()
    ctx.notes.append("gate hook sem.resize %s in the tree under test" % ("present" if hook else "absent (gated schedules provoked with GOMAXPROCS(1) instead of forced)"))
    state = {"hook": hook, "tags": "verif,c17hook" if hook else "verif", "lead": None}
    if ctx.phase("mc"):
        _mc(ctx, state)
    if ctx.phase("sem"):
        _sem_tv(ctx, state)
    if ctx.phase("overlap"):
        _sem_overlap(ctx, state)
    if ctx.phase("panic"):
        _sem_panic(ctx, state)
        _sem_init(ctx, state)
    if ctx.phase("ll"):
        _ll_tv(ctx, state)
    if ctx.phase("replay"):
        _ll_replay(ctx, state)
    if ctx.phase("server"):
        _server(ctx, state)
    if ctx.phase("mqtt"):
        try:
            from props import c17_mqtt
        except ImportError:
            c17_mqtt = None
            ctx.notes.append("MQTT half (props/c17_mqtt.py) not present in this tree: only the HTTP half was checked")
        if c17_mqtt is not None:
            c17_mqtt.run_mqtt(ctx)


# ------------------------------------------------------------------------------------------ model checking
def _mc(ctx, state):
    q = ctx.quick
    rz, dial = (2, 3) if q else (3, 5)
    # (a) the pinned code's model with non-overlapping resizes: every clause of the contract holds
    r = ctx.tlc_mc("ConnCap_Gen", mc_cfg(False, rz, dial, 1, sequential=True), label="impl model, resizes not overlapping: contract + impl invariants",
                   timeout=1500)
    ctx.log("impl model (sequential resizes): %d distinct states, all clauses hold" % r.distinct)
    # (b) the pinned code's model, overlapping resizes: implementation invariants (conservation, reuse)
    r = ctx.tlc_mc("ConnCap_Gen", mc_cfg(False, rz, dial, 1, contract=False), label="impl model, overlapping resizes: impl invariants", timeout=1500)
    ctx.log("impl model (overlapping resizes): %d distinct states, conservation/reuse hold" % r.distinct)
    # (c) the same with the contract: TLC decides the F16 lead (a counterexample here is a lead, not a verdict)
    r = ctx.tlc_mc("ConnCap_Gen", mc_cfg(False, 2, 4, 0) + "ACTION_CONSTRAINT UrgentAccept\n", label="impl model, overlapping resizes: contract (lead)", expect_ok=False, count=False,
                   timeout=600)
    if r.ok:
        ctx.log("impl model with unordered tuners satisfies the contract (no lead)")
    elif r.violated:
        lead = _parse_out_text(ctx, r.out)
        state["lead"] = lead
        ctx.log("LEAD from TLC (%s violated on the model of the pinned code), schedule: %s" % (
            r.violated, " ".join(_short(s) for s in lead)))
        ctx.notes.append("TLC lead on the implementation-shaped model: %s violated by %s" % (r.violated, " ".join(_short(s) for s in lead)))
    else:
        ctx.inconclusive("TLC failed on ConnCap_Gen (lead run):\n" + r.out[-3000:])
    # (c') caps up to maxCapacity (Size = largest cap): the same disorder drives x/sync's counter below zero (panic)
    r = ctx.tlc_mc("ConnCap_Gen", mc_cfg(False, 2, 3, 0, size=3).replace("INVARIANTS ", "INVARIANTS NoReleasePanic "),
                   label="impl model, caps up to maxCapacity: NoReleasePanic (lead)", expect_ok=False, count=False, timeout=600)
    if r.violated:
        lead = _parse_out_text(ctx, r.out)
        state["lead_panic"] = lead
        ctx.log("LEAD from TLC (%s violated, caps up to maxCapacity), schedule: %s" % (r.violated, " ".join(_short(s) for s in lead)))
        ctx.notes.append("TLC lead with caps up to maxCapacity: %s violated by %s" % (r.violated, " ".join(_short(s) for s in lead)))
    elif not r.ok:
        ctx.inconclusive("TLC failed on ConnCap_Gen (maxCapacity lead run):\n" + r.out[-3000:])
    # (e) overlapping Close calls on one connection and restarting reloads (a new listener with the cap of the new spec):
    #     the slot of a connection is given back exactly once, the cap history starts afresh with a restart
    r = ctx.tlc_mc("ConnCap_Gen", mc_cfg(False, 2, dial, 0, sequential=True, dbl=1 if q else 2, restart=1),
                   label="impl model with overlapping Close calls and restarts: contract + impl invariants", timeout=1500)
    ctx.log("impl model (overlapping Close calls, restarts): %d distinct states, all clauses hold" % r.distinct)
    # (f) cap values at and above maxCapacity (Size-1, Size, Size+1, far above; also as the cap a listener is created with) in
    #     every order with small ones: the effective cap is min(requested, maxCapacity), every clause of the contract holds and
    #     every change is applied (ChangesApplied, NoDoomedResize: no adjustment asks the semaphore for more than it has)
    bcaps, binit = "{1,2,11,12,13,16}", "{1,2,12,13,16}"
    r = ctx.tlc_mc("ConnCap_Gen", mc_cfg(True, 2 if q else 3, 2, 0, caps=bcaps, size=BSIZE, initcaps=binit),
                   label="impl model, cap values around maxCapacity, ordered tuners: contract + impl invariants", timeout=1500)
    ctx.log("impl model (caps around maxCapacity, ordered tuners): %d distinct states, all clauses hold" % r.distinct)
    if not q:
        r = ctx.tlc_mc("ConnCap_Gen", mc_cfg(False, 3, 2, 0, sequential=True, caps=bcaps, size=BSIZE, initcaps=binit),
                       label="impl model, cap values around maxCapacity, resizes not overlapping: contract + impl invariants", timeout=1500)
        ctx.log("impl model (caps around maxCapacity, sequential resizes): %d distinct states, all clauses hold" % r.distinct)
    # (d) the model of the repair (tuners in request order) satisfies everything
    if q:
        cfg_d = mc_cfg(True, rz, dial, 1)
    else:
        cfg_d = mc_cfg(True, 3, 6, 1, caps="{1,2,3,4}", size=10)
    r = ctx.tlc_mc("ConnCap_Gen", cfg_d, label="impl model with ordered tuners (repair): contract + impl invariants", timeout=1500)
    ctx.log("impl model (ordered tuners): %d distinct states, all clauses hold" % r.distinct)


def _short(s):
    a = s.get("a")
    if a == "setmax":
        return "setmax%d(%d)" % (s["i"], s["n"])
    if a == "tuner":
        return "tuner%d(%+d%s)" % (s["i"], s["d"], ",blocks" if s.get("blocks") else "")
    if a == "tdone":
        return "done%d" % s["i"]
    if a == "accept":
        return "accept@%d%s" % (s["open"], "" if s.get("ok") else "!")
    if a == "init":
        return "cap=%d" % s["cap"]
    if a == "acq":
        return "acq" + ("(blocks)" if s.get("blocks") else "")
    if a == "close":
        return "close(after-eof)" if s.get("eof") else "close"
    return a


def _parse_out_text(ctx, text):
    p = ctx.path("c17_cex.txt")
    with open(p, "w") as fh:
        fh.write(text)
    return vlib._parse_out_file(p)


# ------------------------------------------------------------------------------------------ TV helpers
TRACE_CFG_ALL = "SPECIFICATION TSpec\nCONSTRAINT HWM\nPOSTCONDITION Accepted\n"   # no invariants: lists every offending event


def _validate(ctx, state, level, trace_path, what):
    """Validates a harness log (many independent cases separated by `reset`) with TLC against the contract. Harness notes are
    filtered out. If the log is rejected a second pass without invariants lists every offending event (VERIF_BAD lines), so
    that one (possibly known) finding does not hide the others; every offending case becomes one ctx.violation."""
    ev_all = ctx.read_ndjson(trace_path)
    notes = [e for e in ev_all if e.get("ev") == "note"]
    ev = [e for e in ev_all if e.get("ev") != "note"]
    segs = _segments(ev)
    if not ev or not segs:
        ctx.inconclusive("C17 %s harness produced no events" % level)
    tp = ctx.write_ndjson("c17_%s_filtered.ndjson" % level.replace("/", "_"), ev)
    ctx.evals(len(segs))
    for sg in segs:
        if _interesting(sg):
            ctx.nontrivial({"t": [(e["ev"], e.get("n"), e.get("p")) for e in sg]})
    tr = ctx.tlc_trace("ConnCap_Trace", TRACE_CFG, tp)
    if tr.accepted:
        ctx.traces(len(segs))
        ctx.sample({"kind": "recorded-trace", "level": level, "events": [_strip(e) for e in ev[:10]]})
        return notes, ev, []
    tr2 = ctx.tlc_trace("ConnCap_Trace", TRACE_CFG_ALL, tp)
    bad = [(m.group(1), int(m.group(2)) - 1) for m in re.finditer(r'<<"VERIF_BAD", "(\w+)", (\d+)>>', tr2.out)]
    if tr2.hwm < tr2.total:
        bad.append(("rejected", tr2.hwm))        # no contract step matches this event; nothing after it was looked at
    if not bad:
        ctx.inconclusive("C17 %s: TLC rejected the log (%s) but the listing pass found no offending event:\n%s" % (
            level, tr.inv, tr2.out[-2000:]))
    # one violation per offending case and signature (the first such event of the case): a known finding early in a case
    # must not hide a different violation later in the same case
    starts = [i for i, e in enumerate(ev) if e["ev"] == "reset"]
    seen, seen_cases, sigs = set(), set(), []
    for clause, idx in sorted(bad, key=lambda x: x[1]):
        idx = max(0, min(idx, len(ev) - 1))
        case = max([st for st in starts if st <= idx] or [0])
        seg = ev[case:idx + 1]
        sig = _signature(level, clause, seg)
        if (case, jdump(sig)) in seen:
            continue
        seen.add((case, jdump(sig)))
        seen_cases.add(case)
        sigs.append(sig)
        ctx.violation(sig, "%s: recorded history of the real code is not a behaviour of the contract (clause %s, event %s, open=%d)" % (
            what, clause, jdump(_strip(ev[idx])), _open_at(seg)), [_strip(e) for e in seg])
    ctx.traces(len(segs) - len(seen_cases))
    return notes, ev, sigs


def _open_at(seg):
    return sum(1 for e in seg[:-1] if e["ev"] == "acc") - sum(1 for e in seg[:-1] if e["ev"] == "close")


def _strip(e):
    return {k: v for k, v in e.items() if k != "seq"}


def _segments(ev):
    out, cur = [], []
    for e in ev:
        if e["ev"] == "reset" and cur:
            out.append(cur)
            cur = []
        cur.append(e)
    if cur:
        out.append(cur)
    return out


def _segment_upto(ev, idx):
    start = 0
    for i in range(idx, -1, -1):
        if ev[i]["ev"] == "reset":
            start = i
            break
    return ev[start:idx + 1]


def _interesting(seg):
    """a resize in flight while connections are open or being accepted"""
    open_, inflight = 0, set()
    for e in seg:
        k = e["ev"]
        if k == "acc":
            open_ += 1
            if inflight:
                return True
        elif k == "close":
            open_ -= 1
        elif k == "rz":
            inflight.add(e["id"])
            if open_ > 0:
                return True
        elif k == "rzdone":
            inflight.discard(e["id"])
        elif k == "restart":
            inflight = set()
            if any(x["ev"] == "rz" for x in seg):
                return True           # run-time cap changes and a restart in one history
    return False


def _signature(level, inv, seg):
    """Signature of a rejected trace: the violated clause and the resize pattern in flight at the offending event.
    pattern 'shrink-then-grow-overlap': an earlier shrink is still unapplied while a later grow was requested - the
    schedule class of finding F16; everything else is named after what is in flight."""
    caps = [seg[0].get("cap")] if seg and seg[0]["ev"] == "reset" else [None]
    done = set()
    for e in seg:
        if e["ev"] == "rz":
            caps.append(e["n"])
        elif e["ev"] == "rzdone":
            done.add(e["id"])
        elif e["ev"] == "restart":      # a new listener: the cap history (and the numbering) starts afresh
            caps, done = [e["cap"]], set()
    nreq = len(caps) - 1
    prefix = 0
    while prefix < nreq and (prefix + 1) in done:
        prefix += 1
    inflight = [i for i in range(prefix + 1, nreq + 1)]
    pattern = "no-resize-in-flight"
    if inflight:
        pattern = "resize-in-flight"
        # an unapplied shrink followed (in request order) by a grow
        for i in inflight:
            if i not in done and caps[i] < caps[i - 1]:
                if any(caps[j] > caps[j - 1] for j in range(i + 1, nreq + 1)):
                    pattern = "shrink-then-grow-overlap"
    return {"kind": "trace", "level": level, "clause": inv or "rejected", "pattern": pattern}


# ------------------------------------------------------------------------------------------ semaphore level
def _race(ctx, level, out, what):
    """A race report counts against the code only if one of the racing accesses is in the code under test (not in the harness)."""
    blocks = re.findall(r"WARNING: DATA RACE(.*?)={10,}", out, re.S)
    in_code = [b for b in blocks if re.search(r"/pkg/util/(sem/semaphore|limitlistener/limitlistener)\.go|golang\.org/x/sync", b.split("Goroutine")[0])]
    if in_code:
        ctx.violation({"kind": "race", "level": level}, what, in_code[0][-4000:])
        return
    ctx.inconclusive("C17 %s harness: the race detector reports a race inside the harness:\n%s" % (level, out[-3000:]))


def _crashed(ctx, level, out, what):
    """The harness process died of x/sync's panic "released more than held": the code under test gave back more tokens than it
    took (the harnesses release only what they acquired themselves).  With small caps a surplus token only shows as an accept
    above the cap; with a cap at maxCapacity (part of the histories since the boundary values were added) the weighted
    semaphore's counter goes below zero and the process - a server with every established connection - dies."""
    if "panic: semaphore: released more than held" not in out:
        return False
    i = out.find("panic: semaphore: released more than held")
    ctx.violation({"kind": "panic", "level": level, "clause": "NoDrop", "pattern": "released-more-than-held"},
                  "%s: the process panics (x/sync: released more than held): more tokens were given back than taken; a server "
                  "would die with every established connection" % what, out[max(0, i - 500):i + 3500])
    return True


def _sem_tv(ctx, state):
    n = 40 if ctx.quick else 400
    tp = ctx.path("c17_sem_trace.ndjson")
    rc, out = ctx.go_test(PKG_SEM, "^TestVerifC17SemTrace$", env={"VERIF_OUT": tp, "VERIF_N": n}, tags=state["tags"], race=not ctx.quick, timeout=900)
    if "DATA RACE" in out:
        return _race(ctx, "sem", out, "data race reported in Semaphore under concurrent Acquire/Release/SetMaxCount")
    if rc != 0 and _crashed(ctx, "sem", out, "Semaphore under concurrent Acquire/Release/SetMaxCount"):
        return
    if rc != 0:
        ctx.inconclusive("C17 semaphore trace harness failed:\n" + out[-3000:])
    _validate(ctx, state, "sem", tp, "Semaphore under concurrent Acquire/Release/SetMaxCount")


def overlap_cases(ctx, state):
    """Overlapping-resize cases for the semaphore-level harness, projected from TLC behaviours of the implementation-shaped
    model: cap, tokens held and waiters at the first SetMaxCount, the requested values and the order in which the model ran
    the tuners."""
    cases, seen = [], set()

    def add(beh):
        cap = beh[0]["cap"]
        open_, waiting, rz, order, started = 0, 0, [], [], False
        for s in beh[1:]:
            a = s["a"]
            if a == "setmax":
                started = True
                rz.append(s["n"])
            elif a == "tuner":
                order.append(s["i"])
            elif not started:
                if a == "accept":
                    open_ += 1
                elif a == "close":
                    open_ -= 1
                elif a == "acq":
                    waiting = 1 if s.get("blocks") else 0
                elif a in ("acancel", "aabort", "lclose"):
                    waiting = 0
        if len(rz) < 2:
            return
        for i in range(1, len(rz) + 1):
            if i not in order:
                order.append(i)
        c = {"cap": cap, "open": open_, "waiters": max(1, waiting), "rz": rz, "order": order}
        k = jdump(c)
        if k not in seen:
            seen.add(k)
            cases.append(c)

    if state.get("lead"):
        add(state["lead"])
    # the example of DESIGN 6/F16 and its mirror images
    for c in ({"cap": 10, "open": 5, "waiters": 1, "rz": [2, 10], "order": [2, 1]},
              {"cap": 10, "open": 10, "waiters": 2, "rz": [2, 10], "order": [2, 1]},
              {"cap": 3, "open": 3, "waiters": 1, "rz": [1, 3], "order": [1, 2]},
              {"cap": 2, "open": 1, "waiters": 1, "rz": [4, 1], "order": [2, 1]}):
        k = jdump(c)
        if k not in seen:
            seen.add(k)
            cases.append(c)
    fixed = list(cases)
    nb = 300 if ctx.quick else 3000
    for b in ctx.tlc_simulate("ConnCap_Gen", sim_cfg(3, 5, 0), num=nb, depth=30):
        add(b)
    general = cases[len(fixed):]
    # bursts of cap changes on a full server with a client held back: every sequence of call kinds (grow, shrink,
    # shrink below the usage, same value), every order of the background adjustments
    behs = ctx.tlc_simulate("ConnCap_Gen", burst_cfg(3, 5, False), num=nb + nb // 3, depth=30, seed=ctx.seed + 104729)
    behs += ctx.tlc_simulate("ConnCap_Gen", burst_cfg(2, 5, False), num=nb // 2, depth=26, seed=ctx.seed + 1299709)
    if not ctx.quick:
        behs += ctx.tlc_simulate("ConnCap_Gen", burst_cfg(4, 5, False), num=nb, depth=34, seed=ctx.seed + 15485863)
    n0 = len(cases)
    for b in behs:
        add(b)
    bursts = cases[n0:]
    kinds = {case_kinds(c) for c in bursts}
    ctx.cov["overlap_call_patterns"] = len(kinds)
    missing = [p for p in ("BEG", "BGE", "EBG", "BG", "BE", "EB") if p not in kinds]
    if missing:
        ctx.inconclusive("TLC behaviours contain no burst of cap changes of the pattern(s) %s (B shrink below usage, E same value, G grow)" % missing)
    # one case of every (sequence of call kinds, no value above the initial cap) before any class gets a second one
    sel = stratified(bursts, lambda c: (case_kinds(c), max(c["rz"]) <= c["cap"]), 110 if ctx.quick else 700)
    # cap values at and above maxCapacity in the sequence of requests (boundary profile), mapped to the real values
    mc = max_capacity()
    n0 = len(cases)
    for b in boundary_behaviours(ctx, False, 40 if ctx.quick else 300):
        add(to_real(b, mc))
    bnd = cases[n0:]
    ctx.log("semaphore level: %d cases with cap values around maxCapacity = %d" % (len(bnd), mc))
    return fixed + sel + general[:30 if ctx.quick else 300] + bnd


def case_kinds(c):
    """call kinds of a projected case (all calls are made back to back while `open` tokens are held)"""
    k, prev = "", c["cap"]
    for n in c["rz"]:
        k += "G" if n > prev else "E" if n == prev else ("B" if n < c["open"] else "S")
        prev = n
    return k


def _sem_overlap(ctx, state):
    cases = overlap_cases(ctx, state)
    inp = ctx.write_ndjson("c17_overlap_cases.ndjson", cases)
    tp = ctx.path("c17_overlap_trace.ndjson")
    rc, out = ctx.go_test(PKG_SEM, "^TestVerifC17SemOverlap$", env={"VERIF_IN": inp, "VERIF_OUT": tp}, tags=state["tags"], timeout=900)
    if rc != 0 and _crashed(ctx, "sem-overlap", out, "Semaphore with overlapping SetMaxCount calls"):
        return
    if rc != 0:
        ctx.inconclusive("C17 semaphore overlap harness failed:\n" + out[-3000:])
    ctx.log("semaphore level: %d overlapping-resize cases from TLC behaviours (%s)" % (len(cases), "gated" if state["hook"] else "GOMAXPROCS(1)"))
    _validate(ctx, state, "sem-overlap", tp, "Semaphore with overlapping SetMaxCount calls")


def _sem_panic(ctx, state):
    """The maxCapacity schedule on the real Semaphore, in a process of its own (a panic in the background goroutine of
    SetMaxCount cannot be recovered): every established connection of the process would be lost with it."""
    op = ctx.path("c17_child.ndjson")
    rc, out = ctx.go_test(PKG_SEM, "^TestVerifC17SemPanicChild$", env={"VERIF_C17_CHILD": 1, "VERIF_C17_HELD": 2 + ctx.seed % 3, "VERIF_OUT": op},
                          tags=state["tags"], timeout=300)
    ctx.evals(1)
    res = ctx.read_ndjson(op)
    if rc == 0 and res and res[0].get("done1") and res[0].get("done2"):
        ctx.traces(1)
        ctx.nontrivial("maxcapacity-shrink-grow")
        return
    if "panic: semaphore: released more than held" in out:
        ctx.violation({"kind": "panic", "level": "sem", "clause": "NoDrop", "pattern": "shrink-then-grow-overlap"},
                      "Semaphore at maxCapacity with tokens held, SetMaxCount(1) then SetMaxCount(maxCapacity): the process panics in the "
                      "background goroutine (x/sync: released more than held); a server would lose every established connection",
                      out[-3000:])
        return
    ctx.inconclusive("C17 maxCapacity child test ended unexpectedly:\n" + out[-3000:])


def _sem_init(ctx, state):
    """A Semaphore created with a cap around maxCapacity (NewSem(maxCapacity-1 / maxCapacity / maxCapacity+1 / far above)), used
    and resized, in a process of its own (a panic of x/sync ends the process)."""
    mc = max_capacity()
    vals = [mc - 1, mc, mc + 1, FAR]
    for v in vals:
        op = ctx.path("c17_init_%d.ndjson" % v)
        rc, out = ctx.go_test(PKG_SEM, "^TestVerifC17SemInitChild$", env={"VERIF_C17_CHILD": 1, "VERIF_C17_INIT": v, "VERIF_C17_HELD": 1 + ctx.seed % 3,
                                                                        "VERIF_OUT": op}, tags=state["tags"], timeout=300)
        ctx.evals(1)
        res = {r["k"]: r for r in ctx.read_ndjson(op) if r.get("k")} if os.path.exists(op) else {}
        above = v > mc
        sig = {"kind": "panic" if "panic: " in out else "trace", "level": "sem", "pattern": "initial-cap-above-maxcapacity" if above else "initial-cap-near-maxcapacity"}
        if rc == 0 and res.get("end", {}).get("done") and res.get("end", {}).get("probe"):
            ctx.traces(1)
            ctx.nontrivial("initial-cap-%s" % bclass(BSIZE + (v - mc) if v != FAR else BSIZE + 4))
            continue
        if "panic: semaphore: released more than held" in out:
            sig["clause"] = "NoDrop"
            ctx.violation(sig, "Semaphore created with cap %d (maxCapacity = %d), %d token(s) acquired and released: the process panics in Release "
                          "(x/sync: released more than held); a server with this maxConnections dies when a connection is closed, and with it "
                          "every established connection" % (v, mc, 1 + ctx.seed % 3), out[-3000:])
            continue
        if rc == 0 and res.get("end") is not None and not res["end"].get("done"):
            sig["clause"] = "ChangesApplied"
            ctx.violation(sig, "Semaphore created with cap %d (maxCapacity = %d): a later SetMaxCount(2) is never applied although nothing is held "
                          "(%s)" % (v, mc, res["end"].get("how")), res)
            continue
        if rc == 0 and res.get("end") is not None and not res["end"].get("probe"):
            sig["clause"] = "ReleaseReusable"
            ctx.violation(sig, "Semaphore created with cap %d (maxCapacity = %d), then SetMaxCount(2) applied with nothing held: %s" % (
                v, mc, res["end"].get("what")), res)
            continue
        ctx.inconclusive("C17 initial-cap child test ended unexpectedly:\n" + out[-3000:])


def _ll_tv(ctx, state):
    n = 40 if ctx.quick else 300
    tp = ctx.path("c17_ll_trace.ndjson")
    rc, out = ctx.go_test(PKG_LL, "^TestVerifC17LLTrace$", env={"VERIF_OUT": tp, "VERIF_N": n, "VERIF_TCP": 0 if ctx.quick else 1, "VERIF_C17_MAXCAP": max_capacity()},
                          tags=state["tags"], race=not ctx.quick, timeout=900)
    if "DATA RACE" in out:
        return _race(ctx, "ll", out, "data race reported in LimitListener under concurrent accept/close/resize")
    if rc != 0 and _crashed(ctx, "ll", out, "LimitListener under concurrent connects, closes and cap changes"):
        return
    if rc != 0:
        ctx.inconclusive("C17 listener trace harness failed:\n" + out[-3000:])
    _validate(ctx, state, "ll", tp, "LimitListener under concurrent connects, closes and cap changes")


def schedules(ctx, state, ordered=False):
    """TLC behaviours of the implementation-shaped model used as schedules: the lead (if any) first, then random ones
    (behaviours with a resize are preferred), then bursts of cap changes on a full server (profile BurstAtCap), one of every
    sequence of call kinds before any gets a second one."""
    nb = 250 if ctx.quick else 2500
    behs = ctx.tlc_simulate("ConnCap_Gen", sim_cfg(2, 5, 1, ordered, dbl=1), num=nb, depth=28)
    behs += ctx.tlc_simulate("ConnCap_Gen", sim_cfg(3, 4, 0, ordered), num=nb, depth=28, seed=ctx.seed + 7919)
    # connections closed by two overlapping Close calls (both inside the close of the underlying connection, coming out in
    # either order relative to everything else): schedules in which the server fills up again afterwards
    dbls = ctx.tlc_simulate("ConnCap_Gen", dbl_cfg(ordered), num=nb, depth=26, seed=ctx.seed + 32452843)
    bursts = ctx.tlc_simulate("ConnCap_Gen", burst_cfg(3, 5, ordered), num=nb + nb // 2, depth=32, seed=ctx.seed + 104729)
    if not ctx.quick:   # (quick tier: two overlapping calls come from the unconstrained behaviours above only)
        bursts += ctx.tlc_simulate("ConnCap_Gen", burst_cfg(2, 5, ordered), num=nb // 2, depth=28, seed=ctx.seed + 1299709)
        bursts += ctx.tlc_simulate("ConnCap_Gen", burst_cfg(4, 5, ordered), num=nb, depth=36, seed=ctx.seed + 15485863)
    # vacuity: every action of the model must occur in the generated behaviours, and every kind of call (grow, same value,
    # shrink, shrink below the usage) must occur behind a call that is still pending
    acts = {s_["a"] for b in behs for s_ in b}
    missing = ALL_ACTIONS - acts
    if missing:
        ctx.inconclusive("TLC behaviours never take the model action(s) %s" % sorted(missing))
    ctx.cov["model_actions_exercised"] = sorted(acts)
    kinds = {rz_kinds(b) for b in bursts}
    nokind = NEEDED_KINDS - {ch for k in kinds for ch in k}
    nopat = [p for p in (("Beg", "Bge", "Ebg") if ctx.quick else ("Beg", "Bge", "Ebg", "Bg", "Be", "Eb")) if p not in kinds]
    if nokind or nopat:
        ctx.inconclusive("TLC behaviours contain no cap change of kind(s) %s behind a pending one / no burst of pattern(s) %s" % (sorted(nokind), nopat))
    ctx.cov["burst_call_patterns"] = len(kinds)
    out, seen = [], set()
    if state.get("lead") and not ordered:
        behs.insert(0, state["lead"])

    def uniq(bs):
        res = []
        for b in bs:
            if not b or b[0].get("a") != "init":
                continue
            k = vlib.sha(b)
            if k in seen:
                continue
            seen.add(k)
            res.append(b)
        return res

    out = uniq(behs)
    with_rz = [b for b in out if sum(1 for s in b if s["a"] == "setmax") >= 1 and any(s["a"] == "accept" for s in b)]
    rest = [b for b in out if b not in with_rz]
    lim = 100 if ctx.quick else 1000
    general = (with_rz + rest[:max(10, lim // 10)])[:lim]

    def bkey(b):
        caps = [s["n"] for s in b if s["a"] == "setmax"]
        return (rz_kinds(b), max(caps) <= b[0]["cap"])

    def full_after_dbl(b):
        """after two overlapping Close calls have both returned the model has the acceptor held back at the cap"""
        acts = [s["a"] for s in b]
        if "cnop" not in acts:
            return False
        return any(s["a"] == "acq" and s.get("blocks") for s in b[acts.index("cnop"):])
    dsel = [b for b in uniq(dbls) if full_after_dbl(b)]
    ctx.cov["overlapping_close_schedules"] = len(dsel)
    if len(dsel) < 10:
        ctx.inconclusive("TLC behaviours contain only %d schedules in which the server fills up after two overlapping Close calls" % len(dsel))
    # (order of the two Close calls coming out relative to a cap change / an accept in between: both occur)
    dsel = stratified(dsel, lambda b: tuple(s["a"] for s in b if s["a"] in ("close2", "crel", "cnop", "setmax")), 30 if ctx.quick else 200)
    # cap values at and above maxCapacity in the sequence of requests (profile BoundaryFirst), with the real values
    mc = max_capacity()
    bnd = [to_real(b, mc) for b in boundary_behaviours(ctx, ordered, 30 if ctx.quick else 250)]
    ctx.cov["boundary_schedules"] = len(bnd)
    return general + stratified(uniq(bursts), bkey, 80 if ctx.quick else 900) + dsel + bnd


def _ll_replay(ctx, state):
    summ = _ll_replay_batch(ctx, state, False)
    if state["hook"] and summ["diverged"] * 10 > summ["behaviours"]:
        # with the tuner order forced, the tree does not follow the model of the pinned code (unordered tuners): it may carry
        # the repair - execute schedules of the ordered model as well (conformance of the repaired tree)
        ctx.log("listener level: the tree diverges from the unordered-tuner model on %d schedules; executing schedules of the ordered model" % summ["diverged"])
        _ll_replay_batch(ctx, state, True)


def _ll_replay_batch(ctx, state, ordered):
    behs = schedules(ctx, state, ordered)
    inp = ctx.path("c17_schedules%s.ndjson" % ("_ordered" if ordered else ""))
    with open(inp, "w") as fh:
        for b in behs:
            fh.write(jdump(b) + "\n")
    tp = ctx.path("c17_replay_trace%s.ndjson" % ("_ordered" if ordered else ""))
    rc, out = ctx.go_test(PKG_LL, "^TestVerifC17LLReplay$", env={"VERIF_IN": inp, "VERIF_OUT": tp}, tags=state["tags"], timeout=900)
    if rc != 0 and _crashed(ctx, "ll-replay-ordered" if ordered else "ll-replay", out, "LimitListener executing a TLC schedule"):
        return {"behaviours": len(behs), "realised": 0, "diverged": 0}
    if rc != 0:
        ctx.inconclusive("C17 schedule replay harness failed:\n" + out[-3000:])
    notes, ev, sigs = _validate(ctx, state, "ll-replay-ordered" if ordered else "ll-replay", tp, "LimitListener executing a TLC schedule")
    summ = [x for x in notes if x.get("k") == "summary"]
    if not summ:
        ctx.inconclusive("C17 schedule replay wrote no summary")
    model = "ordered-tuner model (repair)" if ordered else "unordered-tuner model (pinned code)"
    ctx.log("listener level: %d TLC schedules of the %s executed (%s), %d realised step by step as the model predicts, %d diverged" % (
        summ[0]["behaviours"], model, "gated" if state["hook"] else "ungated", summ[0]["realised"], summ[0]["diverged"]))
    ctx.notes.append("schedule replay, %s: %d schedules, %d realised exactly as the implementation-shaped model predicts, %d diverged (%s)" % (
        model, summ[0]["behaviours"], summ[0]["realised"], summ[0]["diverged"], "gated" if state["hook"] else "ungated: tuner order not forced"))
    ctx.sample({"kind": "tlc-schedule", "steps": [_short(s) for s in behs[0]]})
    return summ[0]


def seq_class(sq):
    """Class of a reload sequence by its last reload: kind (rt run-time change / rs restarting reload), whether the server had
    been restarted before, direction relative to the cap the listener has then (G grow, S shrink, E equal), and where the value
    had been seen before: L it is the value of the most recent run-time change (made under an earlier listener: a restart
    with another cap lies in between), C requested at run time under this listener, P requested at run time under an earlier
    listener only, I only as the cap a listener was created with, N never.  For a restarting reload the last component says
    whether a run-time change had been made under the listener it replaces."""
    cur, gen, last_rt = sq["cap"], 0, None
    prev_rt, cur_rt, inits = set(), set(), {sq["cap"]}
    for o in sq["ops"][:-1]:
        if o["k"] == "rs":
            gen += 1
            prev_rt |= cur_rt
            cur_rt = set()
            inits.add(o["n"])
        else:
            cur_rt.add(o["n"])
            last_rt = o["n"]
        cur = o["n"]
    o = sq["ops"][-1]
    n = o["n"]
    d = "G" if n > cur else "S" if n < cur else "E"
    seen = "L" if n == last_rt and n not in cur_rt else "C" if n in cur_rt else "P" if n in prev_rt else "I" if n in inits else "N"
    return (o["k"], gen > 0, d, seen, o["k"] == "rs" and len(cur_rt) > 0)


def reload_sequences(ctx):
    """Reload sequences for the server level, projected from TLC behaviours of the implementation-shaped model under the
    profile OnlyReloads: every class of the last reload (seq_class) is represented before any class gets a second sequence;
    classes whose last reload is a real run-time change after a restart come first, then restarts after run-time changes."""
    nb = 1000 if ctx.quick else 4000
    behs = ctx.tlc_simulate("ConnCap_Gen", reloads_cfg(3, 2), num=nb, depth=6, seed=ctx.seed + 49979687)
    seqs, seen = [], set()
    for b in behs:
        if not b or b[0].get("a") != "init":
            continue
        allops = [{"k": "rt" if s_["a"] == "setmax" else "rs", "n": s_["n"]} for s_ in b[1:] if s_["a"] in ("setmax", "restart")]
        for ln in range(len(allops), 1, -1):         # (a prefix of a behaviour is a behaviour)
            ops = allops[:ln]
            if not any(o["k"] == "rs" for o in ops):
                continue
            sq = {"cap": b[0]["cap"], "ops": ops}
            k = jdump(sq)
            if k not in seen:
                seen.add(k)
                seqs.append(sq)

    def prio(sq):
        k, restarted, d, _seen, rt_before = seq_class(sq)
        if k == "rt" and restarted and d != "E":
            return 0
        if k == "rs" and rt_before and d != "E":
            return 1
        return 2
    seqs.sort(key=prio)           # (stable: TLC's order within a priority)
    classes = {seq_class(sq) for sq in seqs}
    need = {("rt", True, d, w) for d in "GS" for w in "LPCIN"}
    missing = sorted(c for c in need if not any(x[:4] == c for x in classes))
    if missing:
        ctx.inconclusive("TLC behaviours contain no reload sequence of the class(es) %s" % missing)
    ctx.cov["reload_sequence_classes"] = len(classes)
    sel = stratified(seqs, seq_class, 14 if ctx.quick else 40)
    # run-time values at and above maxCapacity followed by lower ones (projection of TLC behaviours of the boundary profile: the
    # cap the server is created with - a small one - and the values requested), one of every sequence of value classes
    mc = max_capacity()
    bnd, seen = [], set()
    for b in boundary_behaviours(ctx, False, 10 ** 6):
        q = bseq(b)
        if q[0] != "s" or q in seen or not any(q[i] in "mMpP" and q[i + 1] == "s" for i in range(1, len(q) - 1)):
            continue
        seen.add(q)
        rb = to_real(b, mc)
        bnd.append({"cap": rb[0]["cap"], "ops": [{"k": "rt", "n": s_["n"]} for s_ in rb[1:] if s_["a"] == "setmax"]})
    bnd = stratified(bnd, lambda sq: tuple(min(o["n"], mc + 2) for o in sq["ops"][:2]), 4 if ctx.quick else 16)
    if len(bnd) < 4:
        ctx.inconclusive("TLC behaviours of the boundary profile give only %d reload sequences with a value around maxCapacity followed by a small one" % len(bnd))
    ctx.cov["boundary_reload_sequences"] = len(bnd)
    return sel + bnd


def _server(ctx, state):
    """Real HTTPServer runtime, maxConnections changed through reload, raw clients. The runtime does not signal when a change
    has been applied: the harness logs `rzdone` after a settle time, marked "assumed". A rejection is believed if it also
    holds with those events removed (then it does not depend on timing at all); otherwise only if it reproduces with a
    five times longer settle time."""
    rounds = 1 if ctx.quick else 4
    seqs = reload_sequences(ctx)
    inp = ctx.write_ndjson("c17_reload_sequences.ndjson", seqs)
    ctx.log("server level: %d TLC-generated reload sequences (run-time cap changes and restarting reloads), %d classes" % (
        len(seqs), len({seq_class(q) for q in seqs})))
    ctx.sample({"kind": "tlc-reload-sequence", "cap": seqs[0]["cap"], "ops": ["%s(%d)" % (o["k"], o["n"]) for o in seqs[0]["ops"]]})

    def once(settle_ms, tag):
        tp = ctx.path("c17_server_trace_%s.ndjson" % tag)
        rc, out = ctx.go_test(PKG_HS, "^TestVerifC17Server$", env={"VERIF_OUT": tp, "VERIF_IN": inp, "VERIF_N": rounds, "VERIF_SETTLE_MS": settle_ms,
                                                                 "VERIF_PROBE_ALL": 0 if ctx.quick else 1},
                              tags=state["tags"], timeout=900)
        if rc != 0:
            if _crashed(ctx, "server", out, "HTTPServer runtime with maxConnections changed through reload"):
                return None
            ctx.inconclusive("C17 server harness failed:\n" + out[-3000:])
        return tp

    tp = once(300, "a")
    if tp is None:
        return          # the server process died of the semaphore's panic: reported
    ev_all = ctx.read_ndjson(tp)
    ev = [e for e in ev_all if e.get("ev") != "note"]
    nfail = sum(1 for e in ev_all if e.get("ev") == "note" and e.get("k") == "dialfail")
    if nfail:
        ctx.notes.append("server level: %d client(s) could not connect at all (environment); the liveness observations of their "
                         "scenarios were not used" % nfail)
        if nfail > 10:
            ctx.inconclusive("C17 server level: %d clients could not connect to the server under test (environment)" % nfail)
    nrf = sum(1 for e in ev_all if e.get("ev") == "note" and e.get("k") == "restart-failed")
    nrs = sum(1 for e in ev if e.get("ev") == "restart")
    if nrf:
        ctx.notes.append("server level: %d restarting reload(s) did not bring the server up again (environment); their sequences were abandoned" % nrf)
    if nrs < max(1, len(seqs) // 2):
        ctx.inconclusive("C17 server level: only %d restarts were carried out in %d reload sequences (%d failed)" % (nrs, len(seqs), nrf))
    hard = ctx.write_ndjson("c17_server_noassume.ndjson", [e for e in ev if not e.get("assumed")])
    # 1. without any timing assumption (every cap requested since the start of a scenario stays in effect)
    _n, _e, sigs1 = _validate(ctx, state, "server", hard, "HTTPServer runtime with maxConnections changed through reload")
    # 2. with the assumed completions: stronger, but believed only if it survives a 5x settle time
    full = ctx.write_ndjson("c17_server_assumed.ndjson", ev)       # (harness notes filtered out)
    cfg_probe = ctx.tlc_trace("ConnCap_Trace", TRACE_CFG_ALL, full)
    bad = set(re.findall(r'<<"VERIF_BAD", "(\w+)", (\d+)>>', cfg_probe.out))
    hard_probe = ctx.tlc_trace("ConnCap_Trace", TRACE_CFG_ALL, hard)
    nhard = len(re.findall(r'VERIF_BAD', hard_probe.out))
    if cfg_probe.hwm < cfg_probe.total:
        if any(sg.get("clause") == "rejected" for sg in sigs1):
            return      # an event no contract step matches, already reported from the log without assumptions
        ctx.inconclusive("C17 server log with assumed completions is not consumed by the trace spec: event %d of %d has no matching step; "
                         "the events up to it: %s" % (cfg_probe.hwm + 1, cfg_probe.total, jdump([_strip(e) for e in ev[max(0, cfg_probe.hwm - 12):cfg_probe.hwm + 1]])))
    if len(bad) > nhard:
        ctx.log("server level: %d offending events depend on the settle-time assumption; repeating with 5x settle time" % (len(bad) - nhard))
        tp2 = once(1500, "b")
        if tp2 is None:
            return
        _n, _e, sigs2 = _validate(ctx, state, "server-settled", tp2, "HTTPServer runtime, cap change assumed applied 1.5 s after the reload was consumed")
        if not sigs2:
            ctx.notes.append("server level: %d offending event(s) under the 300 ms settle assumption did not reproduce with 1.5 s: not reported" % (len(bad) - nhard))
    # (the same executions validated under the stronger reading: not counted twice)
    ctx.assumptions.append("server level: a cap change is taken as applied 300 ms (1.5 s on re-check) after the runtime consumed the reload event; "
                           "offending events that depend on this are reported only if they reproduce with the longer time")

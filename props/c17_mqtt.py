"""C17, MQTT half - at no instant more than maxAllowedConnection connected clients, refusal with
server-unavailable, released capacity reusable, takeovers at the cap (DESIGN 5/C17).
Specs: MqttConnCap.tla, MqttConnCap_Gen.tla, MqttConnCap_Trace.tla.  Entry point: run_mqtt(ctx)
(props/c17.py, owned by the HTTP side, calls it)."""
from lib.vlib import jdump
from props._mqtt import PKG, validate_traces, short

MC = ("SPECIFICATION CSpec\nCONSTANTS\n  Cap = %d\n  Ids = {\"a\", \"b\", \"c\"}\n  ConnsC <- %s\n  IdOf <- %s\n  StaleTakeover = %s\n  LateRegister = %s\n  RemoveKeyed = %s\nVIEW cview\n"
      "INVARIANTS CapHolds ReleaseReusable ConnectedWithinCap\nPROPERTIES NoAcceptAboveCap RefusedOnlyAtCap TakeoverKeepsCount\n")
GEN = ("SPECIFICATION GSpec\nCONSTANTS\n  Cap = %d\n  Ids = {\"a\", \"b\", \"c\", \"d\", \"e\"}\n  ConnsC <- GenConns\n  IdOf <- GenId\n  StaleTakeover = FALSE\n  LateRegister = FALSE\n  RemoveKeyed = FALSE\n"
       "  MaxStepsC = 12\n  Abandon = \"no\"\n")
# schedules with attempts parked in the Connect pipeline (between the early check and the registration)
GEN_PARK = ("SPECIFICATION PSpec\nCONSTANTS\n  Cap = %d\n  Ids = {\"a\", \"b\", \"c\"}\n  ConnsC <- ParkConns\n  IdOf <- ParkId\n  StaleTakeover = FALSE\n  LateRegister = FALSE\n  RemoveKeyed = FALSE\n"
            "  MaxStepsC = 14\n  Abandon = \"%s\"\n")
TRACE_CFG = "SPECIFICATION TSpec\nCONSTRAINT HWM\nPOSTCONDITION Accepted\nINVARIANT CapHolds\n"


def _ph(ctx, name):
    """sub-phases mqtt-mc / mqtt-mbt / mqtt-gated / mqtt-tv; VERIF_PHASES=mqtt (the switch props/c17.py uses) selects all of them"""
    import os
    sel = (os.environ.get("VERIF_PHASES") or "").split(",")
    if sel == [""] or name in sel:
        return True
    return "mqtt" in sel and not any(x.startswith("mqtt-") for x in sel)


def run_mqtt(ctx):
    ctx.assumptions += ["MQTT cap: clients use cleanSession=false (a clean session's teardown triggers the C16 finding and would entangle "
                        "the properties); 'connected clients' = entries of Broker.clients, sampled under Broker.Lock, and the slots the "
                        "contract holds between CONNACK(accepted) and the end of the broker's teardown of that connection",
                        "MQTT cap, gated schedules: attempts are parked in the Connect (authentication) pipeline of the harness, i.e. between "
                        "checkConnectPermission and the registration under the broker lock (no hook in /repo); a client that is slow to read its "
                        "CONNACK is connected over an unbuffered in-memory connection (net.Pipe handed to Broker.handleConn) whose broker-side "
                        "writes the harness holds; in the concurrent runs every other client reads its CONNACK after a random delay (0-3ms) "
                        "over such a connection; a slow reader may give up (close its connection) while the broker is blocked writing its CONNACK: "
                        "that write then fails - the slot it was registered with goes back if it still has it, and nothing changes if its id was "
                        "taken over meanwhile (schedule families 'owner' / 'superseded', told apart conservatively by the generator)"]
    if _ph(ctx, "mqtt-mc"):
        for cap, conns, idof in ((1, "MCConns", "MCId2"), (2, "MCConns5", "MCId5")) if ctx.quick else ((1, "MCConns5", "MCId5"), (2, "MCConns5", "MCId5"), (3, "MCConns5", "MCId5")):
            r = ctx.tlc_mc("MqttConnCap", MC % (cap, conns, idof, "FALSE", "FALSE", "FALSE"), label="MQTT cap %d, early check + locked register + remove, all interleavings" % cap, timeout=600)
            ctx.log("MQTT connection-cap model (cap %d): %d distinct states" % (cap, r.distinct))
        # a takeover decided from the lookup of the early check (before the Connect pipeline ran) must be refuted
        r = ctx.tlc_mc("MqttConnCap", MC % (1, "MCConns", "MCId2", "TRUE", "FALSE", "FALSE"), expect_ok=False, count=False,
                       label="MQTT cap: takeover decided at the early check (must be refuted)", timeout=600)
        if r.ok:
            ctx.inconclusive("the MQTT connection-cap model does not refute a takeover decided from a stale lookup")
        ctx.log("MQTT connection-cap model with a stale takeover decision refuted: %s" % r.violated)
        # a registration that follows the CONNACK write (check and registration in two critical sections) must be refuted
        r = ctx.tlc_mc("MqttConnCap", MC % (1, "MCConns", "MCId2", "FALSE", "TRUE", "FALSE"), expect_ok=False, count=False,
                       label="MQTT cap: registration after the CONNACK was written (must be refuted)", timeout=600)
        if r.ok:
            ctx.inconclusive("the MQTT connection-cap model does not refute a registration that is separated from the decisive check")
        ctx.log("MQTT connection-cap model with check and registration in separate sections refuted: %s" % r.violated)
        # a clean-up that deletes the entry of the client id, whoever holds it (after a failed CONNACK write, say), must be refuted:
        # after a takeover it forgets the slot of the successor, which stays connected
        r = ctx.tlc_mc("MqttConnCap", MC % (1, "MCConns", "MCId2", "FALSE", "FALSE", "TRUE"), expect_ok=False, count=False,
                       label="MQTT cap: removal keyed by the client id without identity check (must be refuted)", timeout=600)
        if r.ok:
            ctx.inconclusive("the MQTT connection-cap model does not refute a removal that is keyed by the client id only")
        ctx.log("MQTT connection-cap model with a removal keyed by client id refuted: %s" % r.violated)
    if _ph(ctx, "mqtt-mbt"):
        _mbt(ctx)
    if _ph(ctx, "mqtt-gated"):
        _gated(ctx)
    if _ph(ctx, "mqtt-tv"):
        _tv(ctx)


def _mbt(ctx):
    behs = []
    for cap in (1, 2, 3):
        behs += ctx.tlc_simulate("MqttConnCap_Gen", GEN % cap, num=40 if ctx.quick else 400, depth=13, timeout=600)
    inp = ctx.path("c17m_behs.ndjson")
    with open(inp, "w") as fh:
        for b in behs:
            fh.write(jdump(b) + "\n")
    outp = ctx.path("c17m_replay.ndjson")
    rc, out = ctx.go_test(PKG, "^TestVerifC17MqttSeq$", env={"VERIF_IN": inp, "VERIF_OUT": outp}, timeout=900)
    recs = ctx.read_ndjson(outp)
    summ = [x for x in recs if x.get("k") == "summary"]
    if rc != 0 or not summ:
        ctx.inconclusive("C17 MQTT replay harness failed:\n" + out[-3000:])
    if summ[0]["harness_failures"]:
        bad = [x for x in recs if x.get("k") == "mismatch" and x["kind"] == "harness"]
        ctx.inconclusive("C17 MQTT replay harness could not drive the broker: %s" % (bad[0]["what"] if bad else "?"))
    ctx.evals(summ[0]["steps"])
    ctx.traces(len(behs))
    for b in behs:
        if any(s.get("a") == "try" and not s["ok"] for s in b):
            ctx.nontrivial({"b": b})
    ctx.log("MQTT cap: replayed %d sequential scenarios (%d steps): %d mismatches" % (len(behs), summ[0]["steps"], summ[0]["mismatches"]))
    for m in [x for x in recs if x.get("k") == "mismatch"]:
        ctx.violation({"kind": "mqtt-seq", "what": m["kind"]}, "MQTT connection cap, step %d: %s" % (m["step"], m["what"]), m)
    ctx.sample({"kind": "mqtt-cap-scenario", "steps": [short(s, 160) for s in behs[0][:6]]})


def _sample_dir(seg):
    """is the rejected sample above or below the number of client ids with an accepted, not yet finished connection (from the log)?"""
    ids, up = {}, {}
    for e in seg[:-1]:
        if e["ev"] == "inv":
            ids[e["c"]] = e["id"]
        elif e["ev"] == "ret" and e["code"] == 0:
            up[e["c"]] = ids.get(e["c"])
        elif e["ev"] == "gone":
            up.pop(e["c"], None)
    n = len(set(up.values()))
    return "above" if seg[-1]["n"] > n else "below" if seg[-1]["n"] < n else "equal"


def _gated(ctx):
    _gated_run(ctx, "no")
    # a slow CONNACK reader that gives up (the CONNACK write fails) after its id was taken over
    _gated_run(ctx, "superseded")
    # ... and while it may still own its id (kept apart: an open finding ends the schedules it hits)
    _gated_run(ctx, "owner")


def _gated_run(ctx, abandon):
    behs = []
    for cap in (1, 2) if abandon == "no" else (2, 3) if abandon == "superseded" else (1, 2):
        behs += ctx.tlc_simulate("MqttConnCap_Gen", GEN_PARK % (cap, abandon), num=(60 if ctx.quick else 600) if abandon == "no" else (30 if ctx.quick else 150), depth=15, timeout=600)
    if abandon != "no":
        behs = [b for b in behs if any(s_.get("a") == "abandon" for s_ in b)]
    seen, uniq = set(), []
    for b in behs:
        key = jdump(b)
        if key not in seen and len(b) > 1:
            seen.add(key)
            uniq.append(b)
    behs = uniq
    inp = ctx.path("c17m_park_%s.ndjson" % abandon)
    with open(inp, "w") as fh:
        for b in behs:
            fh.write(jdump(b) + "\n")
    tp = ctx.path("c17m_gated_%s.ndjson" % abandon)
    rc, out = ctx.go_test(PKG, "^TestVerifC17MqttGated$", env={"VERIF_IN": inp, "VERIF_OUT": tp}, timeout=1500)
    ev = ctx.read_ndjson(tp)
    if rc != 0 or not ev:
        ctx.inconclusive("C17 MQTT gated harness failed:\n" + out[-3000:])
    hf = [e for e in ev if e.get("ev") == "harness-failure"]
    if len(hf) > max(1, len(behs) // 50):
        ctx.inconclusive("C17 MQTT gated harness could not drive the broker in %d of %d schedules: %s" % (len(hf), len(behs), hf[0]))
    if hf:
        from props._mqtt import split_traces
        keep = []
        for a, b in split_traces(ev):
            if not any(e.get("ev") == "harness-failure" for e in ev[a:b]):
                keep += ev[a:b]
        ctx.notes.append("%d gated MQTT schedules left out, harness could not drive the broker: %s" % (len(hf), short(hf[0], 200)))
        ev = keep
    ctx.evals(sum(1 for e in ev if e["ev"] == "ret"))
    # vacuity: attempts answered only after another connection ended or was accepted in between (parked across a change of the
    # population), attempts by an id that was connected when they started, refusals
    pend, across, refused, sameid = {}, 0, 0, 0
    up = {}
    for e in ev:
        if e["ev"] == "reset":
            pend, up = {}, {}
        elif e["ev"] == "inv":
            pend[e["c"]] = 0
            sameid += e["id"] in up.values()
            pend[e["c"] + "#id"] = e["id"]
        elif e["ev"] == "ret":
            across += pend.pop(e["c"], 0) > 0
            idv = pend.pop(e["c"] + "#id", None)
            refused += e["code"] != 0
            if e["code"] == 0:
                up[e["c"]] = idv
            for k in list(pend):
                if not k.endswith("#id"):
                    pend[k] += e["code"] == 0
        elif e["ev"] == "gone":
            up.pop(e["c"], None)
            for k in list(pend):
                if not k.endswith("#id"):
                    pend[k] += 1
    # attempts of a slow CONNACK reader whose answer was pending while another attempt was released (decided)
    held_ack = 0
    for b in behs:
        acking = set()
        for s_ in b[1:]:
            if s_["a"] == "start" and s_.get("slow"):
                acking.discard(s_["c"])
            elif s_["a"] == "release":
                held_ack += len(acking - {s_["c"]}) > 0
                if any(x.get("a") == "start" and x.get("c") == s_["c"] and x.get("slow") for x in b[1:]):
                    acking.add(s_["c"])
            elif s_["a"] == "take":
                acking.discard(s_["c"])
    abandoned = sum(1 for e in ev if e["ev"] == "abandon")
    if abandon != "no":
        # vacuity: CONNACK writes that failed; for "superseded": with a further attempt started afterwards
        later = 0
        for b in behs:
            seen = False
            for s_ in b[1:]:
                seen = seen or s_["a"] == "abandon"
                if seen and s_["a"] == "start":
                    later += 1
                    break
        if (abandoned < 5 or later < 3) and not ctx.violations:
            ctx.inconclusive("C17 MQTT gated schedules (%s) are vacuous: %d failed CONNACK writes, %d schedules with an attempt after one" % (abandon, abandoned, later))
        ctx.notes.append("MQTT cap, gated schedules (%s): %d CONNACK writes failed (client gone), %d schedules with a further attempt afterwards" % (abandon, abandoned, later))
    elif (across < 10 or refused < 5 or sameid < 5 or held_ack < 10) and not ctx.violations:
        ctx.inconclusive("C17 MQTT gated schedules are vacuous: %d attempts parked across a change of the population, %d refusals, %d attempts "
                         "with an id that was connected, %d attempts decided while another client's CONNACK was pending" % (across, refused, sameid, held_ack))

    def on_reject(seg, whole, tr):
        last = seg[-1]
        sig = {"kind": "mqtt-gated", "ev": last.get("ev"), "inv": tr.inv or "rejected"}
        if last.get("ev") == "ret":
            sig["code"] = last.get("code")
        if any(e["ev"] == "abandon" for e in seg):
            sig["connack_write_failed"] = abandon
            # the connection whose CONNACK could not be written is gone, and the broker still has it registered under its client id
            sig["stale_entry"] = any(e["ev"] == "gone" and e.get("stale") for e in seg)
        if last.get("ev") == "sample":
            sig["count"] = _sample_dir(seg)
        ctx.violation(sig, "schedule with connection attempts parked in the Connect pipeline (between the early check and the registration) "
                      "on the real broker has no linearisation the connection-cap contract allows: first unexplained event %s%s" % (
                          short(last, 200), ", invariant %s" % tr.inv if tr.inv else ""), seg[-60:])

    ok = validate_traces(ctx, "MqttConnCap_Trace", TRACE_CFG, ev, "c17m_gated_" + abandon, on_reject, timeout=1500, max_rounds=6 if abandon == "no" else 12)
    ctx.traces(ok)
    ctx.nontrivial("mqtt-cap-gated-%s-%d" % (abandon, ok))
    if abandon != "no":
        ctx.log("MQTT cap: %d/%d gated schedules with failing CONNACK writes (%s) linearised by TLC" % (ok, len(behs), abandon))
        return
    ctx.notes.append("MQTT cap, gated schedules: %d attempts parked across a change of the population, %d refusals, %d attempts with a connected id, "
                     "%d attempts decided while the CONNACK of a slow reader was pending" % (across, refused, sameid, held_ack))
    ctx.log("MQTT cap: %d/%d gated schedules linearised by TLC (%d attempts, %d parked across a change of the population, %d refused)" % (
        ok, len(behs), sum(1 for e in ev if e["ev"] == "ret"), across, refused))


def _tv(ctx):
    rounds, G, S = (9, 6, 5) if ctx.quick else (90, 8, 6)
    tp = ctx.path("c17m_trace.ndjson")
    rc, out = ctx.go_test(PKG, "^TestVerifC17MqttConc$", env={"VERIF_OUT": tp, "VERIF_ROUNDS": rounds, "VERIF_G": G, "VERIF_S": S}, timeout=1500)
    ev = ctx.read_ndjson(tp)
    if rc != 0 or not ev:
        ctx.inconclusive("C17 MQTT concurrent harness failed:\n" + out[-3000:])
    hf = [e for e in ev if e.get("ev") == "harness-failure"]
    if hf:
        ctx.inconclusive("C17 MQTT concurrent harness could not drive the broker: %s" % hf[0])
    ctx.evals(sum(1 for e in ev if e["ev"] == "ret"))
    refused = sum(1 for e in ev if e["ev"] == "ret" and e["code"] != 0)
    if refused < 5 and not ctx.violations:
        ctx.inconclusive("C17 MQTT concurrent runs are vacuous: only %d refusals" % refused)

    def on_reject(seg, whole, tr):
        last = seg[-1]
        sig = {"kind": "mqtt-ctrace", "ev": last.get("ev"), "inv": tr.inv or "rejected"}
        if last.get("ev") == "ret":
            sig["code"] = last.get("code")
        ctx.violation(sig, "concurrent history of connects / ends / takeovers on the real broker has no linearisation the connection-cap "
                      "contract allows: first unexplained event %s%s" % (short(last, 200), ", invariant %s" % tr.inv if tr.inv else ""), seg[-60:])

    ok = validate_traces(ctx, "MqttConnCap_Trace", TRACE_CFG, ev, "c17m_trace", on_reject, timeout=1500)
    ctx.traces(ok)
    ctx.nontrivial("mqtt-cap-concurrent-%d" % ok)
    ctx.log("MQTT cap: %d/%d concurrent rounds linearised by TLC (%d attempts, %d refused, %d samples)" % (
        ok, rounds, sum(1 for e in ev if e["ev"] == "ret"), refused, sum(1 for e in ev if e["ev"] == "sample")))
    ctx.sample({"kind": "mqtt-cap-trace", "events": [short(e, 120) for e in ev[:10]]})

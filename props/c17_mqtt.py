"""C17, MQTT half - at no instant more than maxAllowedConnection connected clients, refusal with
server-unavailable, released capacity reusable, takeovers at the cap (DESIGN 5/C17).
Specs: MqttConnCap.tla, MqttConnCap_Gen.tla, MqttConnCap_Trace.tla.  Entry point: run_mqtt(ctx)
(props/c17.py, owned by the HTTP side, calls it)."""
from lib.vlib import jdump
from props._mqtt import PKG, validate_traces, short

MC = ("SPECIFICATION CSpec\nCONSTANTS\n  Cap = %d\n  Ids = {\"a\", \"b\", \"c\"}\n  ConnsC <- %s\n  IdOf <- %s\nVIEW cview\n"
      "INVARIANTS CapHolds ReleaseReusable\nPROPERTIES NoAcceptAboveCap RefusedOnlyAtCap TakeoverKeepsCount\n")
GEN = ("SPECIFICATION GSpec\nCONSTANTS\n  Cap = %d\n  Ids = {\"a\", \"b\", \"c\", \"d\", \"e\"}\n  ConnsC <- GenConns\n  IdOf <- GenId\n  MaxStepsC = 12\n")
TRACE_CFG = "SPECIFICATION TSpec\nCONSTRAINT HWM\nPOSTCONDITION Accepted\nINVARIANT CapHolds\n"


def _ph(ctx, name):
    """sub-phases mqtt-mc / mqtt-mbt / mqtt-tv; VERIF_PHASES=mqtt (the switch props/c17.py uses) selects all of them"""
    import os
    sel = (os.environ.get("VERIF_PHASES") or "").split(",")
    if sel == [""] or name in sel:
        return True
    return "mqtt" in sel and not any(x.startswith("mqtt-") for x in sel)


def run_mqtt(ctx):
    ctx.assumptions += ["MQTT cap: clients use cleanSession=false (a clean session's teardown triggers the C16 finding and would entangle "
                        "the properties); 'connected clients' = entries of Broker.clients, sampled under Broker.Lock, and the slots the "
                        "contract holds between CONNACK(accepted) and the end of the broker's teardown of that connection"]
    if _ph(ctx, "mqtt-mc"):
        for cap, conns, idof in ((1, "MCConns", "MCId2"), (2, "MCConns5", "MCId5")) if ctx.quick else ((1, "MCConns5", "MCId5"), (2, "MCConns5", "MCId5"), (3, "MCConns5", "MCId5")):
            r = ctx.tlc_mc("MqttConnCap", MC % (cap, conns, idof), label="MQTT cap %d, early check + locked register + remove, all interleavings" % cap, timeout=600)
            ctx.log("MQTT connection-cap model (cap %d): %d distinct states" % (cap, r.distinct))
    if _ph(ctx, "mqtt-mbt"):
        _mbt(ctx)
    if _ph(ctx, "mqtt-tv"):
        _tv(ctx)


def _mbt(ctx):
    behs = []
    for cap in (1, 2, 3):
        behs += ctx.tlc_simulate("MqttConnCap_Gen", GEN % cap, num=40 if ctx.quick else 400, depth=13, timeout=600)
    inp = ctx.path("c17m_behs.ndjson")
    with open(inp, "w") as fh:
        for b in behs:
            fh.write(jdump(b) + "\n")
    outp = ctx.path("c17m_replay.ndjson")
    rc, out = ctx.go_test(PKG, "^TestVerifC17MqttSeq$", env={"VERIF_IN": inp, "VERIF_OUT": outp}, timeout=900)
    recs = ctx.read_ndjson(outp)
    summ = [x for x in recs if x.get("k") == "summary"]
    if rc != 0 or not summ:
        ctx.inconclusive("C17 MQTT replay harness failed:\n" + out[-3000:])
    if summ[0]["harness_failures"]:
        bad = [x for x in recs if x.get("k") == "mismatch" and x["kind"] == "harness"]
        ctx.inconclusive("C17 MQTT replay harness could not drive the broker: %s" % (bad[0]["what"] if bad else "?"))
    ctx.evals(summ[0]["steps"])
    ctx.traces(len(behs))
    for b in behs:
        if any(s.get("a") == "try" and not s["ok"] for s in b):
            ctx.nontrivial({"b": b})
    ctx.log("MQTT cap: replayed %d sequential scenarios (%d steps): %d mismatches" % (len(behs), summ[0]["steps"], summ[0]["mismatches"]))
    for m in [x for x in recs if x.get("k") == "mismatch"]:
        ctx.violation({"kind": "mqtt-seq", "what": m["kind"]}, "MQTT connection cap, step %d: %s" % (m["step"], m["what"]), m)
    ctx.sample({"kind": "mqtt-cap-scenario", "steps": [short(s, 160) for s in behs[0][:6]]})


def _tv(ctx):
    rounds, G, S = (9, 6, 5) if ctx.quick else (90, 8, 6)
    tp = ctx.path("c17m_trace.ndjson")
    rc, out = ctx.go_test(PKG, "^TestVerifC17MqttConc$", env={"VERIF_OUT": tp, "VERIF_ROUNDS": rounds, "VERIF_G": G, "VERIF_S": S}, timeout=1500)
    ev = ctx.read_ndjson(tp)
    if rc != 0 or not ev:
        ctx.inconclusive("C17 MQTT concurrent harness failed:\n" + out[-3000:])
    hf = [e for e in ev if e.get("ev") == "harness-failure"]
    if hf:
        ctx.inconclusive("C17 MQTT concurrent harness could not drive the broker: %s" % hf[0])
    ctx.evals(sum(1 for e in ev if e["ev"] == "ret"))
    refused = sum(1 for e in ev if e["ev"] == "ret" and e["code"] != 0)
    if refused < 5 and not ctx.violations:
        ctx.inconclusive("C17 MQTT concurrent runs are vacuous: only %d refusals" % refused)

    def on_reject(seg, whole, tr):
        last = seg[-1]
        sig = {"kind": "mqtt-ctrace", "ev": last.get("ev"), "inv": tr.inv or "rejected"}
        if last.get("ev") == "ret":
            sig["code"] = last.get("code")
        ctx.violation(sig, "concurrent history of connects / ends / takeovers on the real broker has no linearisation the connection-cap "
                      "contract allows: first unexplained event %s%s" % (short(last, 200), ", invariant %s" % tr.inv if tr.inv else ""), seg[-60:])

    ok = validate_traces(ctx, "MqttConnCap_Trace", TRACE_CFG, ev, "c17m_trace", on_reject, timeout=1500)
    ctx.traces(ok)
    ctx.nontrivial("mqtt-cap-concurrent-%d" % ok)
    ctx.log("MQTT cap: %d/%d concurrent rounds linearised by TLC (%d attempts, %d refused, %d samples)" % (
        ok, rounds, sum(1 for e in ev if e["ev"] == "ret"), refused, sum(1 for e in ev if e["ev"] == "sample")))
    ctx.sample({"kind": "mqtt-cap-trace", "events": [short(e, 120) for e in ev[:10]]})

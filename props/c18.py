"""C18 - cluster mutex is exclusive; admin mutations serialise with gap-free versions (DESIGN 5/C18)."""
from lib.vlib import jdump, Inconclusive
from props._clustertv import split_scenarios, validate_scenarios, annotate_invocations

PKG_CLUSTER = "pkg/cluster"
PKG_API = "pkg/api"

MUTEX_PROCS = "{" + ", ".join('"g%d"' % i for i in range(12)) + "}"


def mutex_cfg(cfgname, rounds, timeouts, live=True, regrants=1, renew=False, local_wait_timeout=False, evict=False, watchdog=False, only_mutex=False):
    sfx = {"A": ("ProcsA", "MembersAB", "HandlesA", "MemOfA", "HandleOfA"),
           "A4": ("ProcsA4", "MembersAB", "HandlesA", "MemOfA", "HandleOfA4"),
           "B": ("ProcsB", "MembersAB", "HandlesB", "MemOfB", "HandleOfB"),
           "B1": ("ProcsB1", "MembersB1", "HandlesB1", "MemOfB1", "HandleOfB1"),
           "B1S": ("ProcsB1", "MembersB1", "HandlesB1S", "MemOfB1S", "HandleOfB1S")}[cfgname]
    txt = ("SPECIFICATION %s\nCONSTANTS\n  Procs <- %s\n  Members <- %s\n  Handles <- %s\n  MemOf <- %s\n  HandleOf <- %s\n"
           "  MaxRounds = %d\n  MaxTimeouts = %d\n  MaxRegrants = %d\n  RenewSession = %s\n  LocalWaitTimeout = %s\n  EvictOnUnlock = %s\n"
           "  HoldWatchdog = %s\n"
           % (("FairSpec" if live else "Spec",) + sfx + (rounds, timeouts, regrants, "TRUE" if renew else "FALSE",
                                                          "TRUE" if local_wait_timeout else "FALSE", "TRUE" if evict else "FALSE",
                                                          "TRUE" if watchdog else "FALSE")))
    if only_mutex:
        return txt + "INVARIANTS TypeOK Mutex\n"
    txt += "INVARIANTS TypeOK Mutex NoResidue QuiescentFree\n"
    if live:
        txt += "PROPERTIES Refines Terminates GrantedUnlessTimeout\n"
    else:
        txt += "PROPERTIES Refines\n"
    return txt


MUTEX_TRACE_CFG = ("SPECIFICATION TSpec\nCONSTANTS\n  Procs = %s\nCONSTRAINT HWM\nPOSTCONDITION Accepted\n"
                   "INVARIANTS Exclusive HolderConsistent\nPROPERTIES FailureChangesNothing\n" % MUTEX_PROCS)


def run(ctx):
    ctx.cov["rule"] = ("traces = recorded concurrent scenarios of the real cluster mutex (goroutines x handles x members on an embedded "
                       "etcd, short time-outs - also with the long holder and the contenders that time out on the SAME member -, critical sections of 0.5 to 10 "
                       "times the request time-out (configured per member or set on the handle) under contention from the same and from other members, handles obtained per call "
                       "next to handles kept across calls on one member, a lease re-grant after a failed keep-alive while the lock is held, probes at quiescence) and of the real admin API (concurrent create/update/delete/get "
                       "against one or two members), each validated by TLC as linearisable against the contract; behaviours = "
                       "TLC-generated sequential admin-API histories replayed on the real server; non-trivial = scenarios with "
                       "contention (a refused Lock, a 409/400/404 reply, or two members)")
    ctx.assumptions += ["etcd and go.etcd.io/etcd/client/v3/concurrency are trusted; no lease expires or is revoked (the member lease TTL is 285 years); a failed "
                        "keep-alive (the member is granted a new lease) is injected through the member's etcd client",
                        "critical section = [return of Lock, invocation of Unlock] (conservative: an observed overlap is a real one)",
                        "admin API driven in-process through the server's chi router (no TCP), mock supervisor with two test-only kinds"]
    # the phases are independent: one that ends inconclusive (harness trouble, time-out) must not keep the others
    # from running and reporting
    for name, fn in (("mc", _mc_mutex), ("tvmutex", _tv_mutex), ("mcapi", _mc_api), ("mbtapi", _mbt_api), ("tvapi", _tv_api)):
        if not ctx.phase(name):
            continue
        try:
            fn(ctx)
        except Inconclusive as ex:
            ctx.defer_inconclusive("phase %s: %s" % (name, ex))


# ------------------------------------------------------------------------------------------ mutex
def _mc_mutex(ctx):
    # (A) one handle per member: Mutex, NoResidue, refinement of the contract and termination hold
    if ctx.quick:
        r = ctx.tlc_mc("ClusterMutex_MC", mutex_cfg("A", 2, 2), label="mutex (A) 2 members, 3 goroutines, 2 rounds, 2 time-outs, 1 lease re-grant", timeout=600)
    else:
        r = ctx.tlc_mc("ClusterMutex_MC", mutex_cfg("A", 2, 2), label="mutex (A) 2 members, 3 goroutines, 2 rounds, 2 time-outs, 1 lease re-grant", timeout=900)
        r = ctx.tlc_mc("ClusterMutex_MC", mutex_cfg("A4", 2, 2, live=False), label="mutex (A) 2 members, 4 goroutines, 2 rounds, 2 time-outs, 1 lease re-grant (safety, refinement)",
                       timeout=1500)
    ctx.log("ClusterMutex (A): %d distinct states, ok" % r.distinct)
    # (B) two handles of one member for the same name: the model predicts a Mutex violation (lead F17,
    # decided on the real code by scenario B of the trace validation)
    r = ctx.tlc_mc("ClusterMutex_MC", mutex_cfg("B1", 1, 0, live=False), label="mutex (B) one member, two handles", expect_ok=False,
                   count=False, timeout=300, workers=1)
    if r.ok:
        ctx.notes.append("model (B): two handles of one member no longer violate Mutex in the model")
    elif r.violated not in ("Mutex", "Refines") and "violated" not in (r.error or ""):
        ctx.inconclusive("ClusterMutex (B) failed for an unexpected reason: %s %s" % (r.violated, r.error))
    else:
        ctx.notes.append("model (B): two handles of one member for one name violate %s (schedule: Lock(h1a) ok, Lock(h1b) ok)" % r.violated)
    # (C) a session renewed after a lease re-grant: the model predicts a Mutex violation (the old lease's key is deleted under
    # its holder); the real code keeps its first session - decided by the scenarios L of the trace validation
    r = ctx.tlc_mc("ClusterMutex_MC", mutex_cfg("A", 1, 0, live=False, renew=True), label="mutex (C) session renewed after a lease re-grant", expect_ok=False,
                   count=False, timeout=300, workers=1)
    if r.ok or (r.violated not in ("Mutex", "Refines", "NoResidue") and "violated" not in (r.error or "")):
        ctx.inconclusive("ClusterMutex (C): renewing the session after a lease re-grant does not violate Mutex in the model: %s %s" % (r.violated, r.error))
    ctx.notes.append("model (C): a session renewed after a lease re-grant violates %s (schedule: Lock ok, re-grant, cluster.Mutex() by anybody on the member)" % r.violated)
    # (D) the wait for the process-local lock bounded by the deadline, returning through the code's error path (which releases the
    # local lock on every error): the model predicts a Mutex violation - decided on the real code by the scenarios T of the trace validation
    r = ctx.tlc_mc("ClusterMutex_MC", mutex_cfg("B1S", 2, 1, live=False, regrants=0, local_wait_timeout=True), label="mutex (D) time-out while waiting for the process-local lock",
                   expect_ok=False, count=False, timeout=300, workers=1)
    if r.ok or (r.violated not in ("Mutex", "Refines", "NoResidue") and "violated" not in (r.error or "")):
        ctx.inconclusive("ClusterMutex (D): a time-out of the local wait released through the error path does not violate Mutex in the model: %s %s" % (r.violated, r.error))
    ctx.notes.append("model (D): a deadline that also ends the wait for the process-local lock, with the deferred release on every error, violates %s "
                     "(schedule: g1 holds, g2 of the same member times out waiting locally, g2 locks again)" % r.violated)
    # (E) Unlock dropping its handle object from the member's per-name registry: the model predicts a Mutex violation - decided on the
    # real code by the scenarios R of the trace validation
    r = ctx.tlc_mc("ClusterMutex_MC", mutex_cfg("B1S", 2, 0, live=False, regrants=0, evict=True), label="mutex (E) Unlock evicts the handle object from the registry",
                   expect_ok=False, count=False, timeout=300, workers=1)
    if r.ok or (r.violated not in ("Mutex", "Refines", "NoResidue") and "violated" not in (r.error or "")):
        ctx.inconclusive("ClusterMutex (E): evicting the handle object at Unlock does not violate Mutex in the model: %s %s" % (r.violated, r.error))
    ctx.notes.append("model (E): Unlock evicting its handle object from the registry violates %s (schedule: g1 holds, g2 waits on the object, g1 unlocks, "
                     "g2 holds, g1 asks for the mutex again and locks)" % r.violated)
    # (F) arbitrary hold times: a timer armed by Lock (a multiple of the request time-out) that deletes the lock key and releases the
    # process-local lock while the holder is still inside: the model predicts a Mutex violation - decided on the real code by the
    # scenarios W of the trace validation (holds of k x the configured time-out under contention from the same and from other members)
    r = ctx.tlc_mc("ClusterMutex_MC", mutex_cfg("A", 1, 0, live=False, regrants=0, watchdog=True, only_mutex=True), label="mutex (F) a hold-time watchdog releases the mutex under its holder",
                   expect_ok=False, count=False, timeout=300, workers=1)
    if r.ok or r.violated != "Mutex":
        ctx.inconclusive("ClusterMutex (F): a watchdog that releases the mutex under a slow holder does not violate Mutex in the model: %s %s" % (r.violated, r.error))
    ctx.notes.append("model (F): a watchdog releasing the mutex of a holder whose critical section outlasts a multiple of the time-out violates %s "
                     "(schedule: g1 holds, the timer fires, a goroutine of any member locks)" % r.violated)


def _tv_mutex(ctx):
    na, nh, nb = (4, 2, 2) if ctx.quick else (30, 20, 4)
    nl = 2 if ctx.quick else 8
    nsec = 1 if ctx.quick else 2
    nt, nr = (2, 2) if ctx.quick else (10, 10)
    nw = 2 if ctx.quick else 8
    tp = ctx.path("c18_mutex.ndjson")
    ev = None
    for attempt in range(2):
        rc, out = ctx.go_test(PKG_CLUSTER, "^TestVerifC18Mutex$", env={"VERIF_OUT": tp, "VERIF_NA": na, "VERIF_NH": nh, "VERIF_NB": nb, "VERIF_NL": nl,
                                                                      "VERIF_NT": nt, "VERIF_NR": nr, "VERIF_NW": nw, "VERIF_SECONDARIES": nsec}, timeout=1500)
        ev = ctx.read_ndjson(tp)
        if ev and not any(e.get("ev") == "setup-failed" for e in ev) and rc == 0:
            break
        ctx.log("mutex harness attempt %d failed (rc=%s)" % (attempt + 1, rc))
    if rc != 0 or not ev or any(e.get("ev") in ("setup-failed", "harness-error") for e in ev):
        ctx.inconclusive("C18 mutex harness failed:\n" + out[-3000:] + "\n" + jdump([e for e in (ev or []) if e.get("ev") in ("setup-failed", "harness-error")]))
    # an Unlock that returns an error (its context has the handle's - possibly short - time-out) has released the
    # process-local lock and may or may not have deleted the etcd key; the contract treats it as a release: if the key
    # stayed, only goroutines of the same member can take it over, which is consistent with a release, and other
    # members' Lock calls fail, which the contract always allows
    ctx.cov["mutex_unlock_errors"] = sum(1 for e in ev if e.get("ev") == "ret" and e.get("op") == "unlock" and not e.get("ok"))
    scen = split_scenarios(ev, keep=lambda e: e.get("ev") in ("inv", "ret", "stuck"))
    for sc in scen:
        annotate_invocations(sc["events"], ["ok"], default={"ok": False})
    if not scen:
        ctx.inconclusive("C18 mutex harness produced no scenarios")
    ctx.evals(len(scen))

    def on_reject(sc, bad, tr, pos):
        cfg = sc["reset"].get("cfg")
        clause = "exclusive"
        if bad is not None and (bad.get("ev") == "stuck" or (bad.get("ev") == "ret" and bad.get("op") == "lock" and not bad.get("ok"))):
            clause = "leaves-free"       # a probe was refused or a Lock call never returned
        sig = {"kind": "mutex-tv", "clause": clause, "same_member_handles": cfg == "B"}
        what = ("recorded Lock/Unlock history of the real cluster mutex has no linearisation allowed by the contract: "
                + ("two goroutines were inside the critical section at the same time" if clause == "exclusive"
                   else "the lock was not obtainable at quiescence after earlier (failed) acquisitions")
                + " (scenario %s: %d members, %d handle objects, %d goroutines; first unexplained event %s)"
                % (cfg, sc["reset"].get("members"), sc["reset"].get("handles"), sc["reset"].get("workers"), jdump(bad)))
        ctx.violation(sig, what, {"scenario": sc["events"][:pos + 1], "tlc_inv": tr.inv})

    ok = validate_scenarios(ctx, "ClusterMutex_CTrace", MUTEX_TRACE_CFG, scen, "c18_mutex_tlc", on_reject)
    ctx.traces(ok)
    for sc in scen:
        refused = sum(1 for e in sc["events"] if e.get("ev") == "ret" and e.get("op") == "lock" and not e.get("ok"))
        if refused or sc["reset"].get("members", 1) > 1:
            ctx.nontrivial({"scen": sc["reset"].get("scen"), "cfg": sc["reset"].get("cfg"), "refused": refused})
    refused_total = sum(1 for e in ev if e.get("ev") == "ret" and e.get("op") == "lock" and not e.get("ok"))
    ctx.cov["mutex_refused_locks"] = refused_total
    ctx.sample({"kind": "mutex-scenario", "events": scen[0]["events"][:10]})
    ctx.log("mutex TV: %d scenarios, %d accepted, %d refused Lock calls" % (len(scen), ok, refused_total))
    if refused_total == 0:
        ctx.inconclusive("C18 mutex TV is vacuous for the second clause: no Lock call timed out in any scenario")
    # scenarios W: "arbitrary hold times" is exercised only if some critical section really lasted longer than a few request
    # time-outs while a goroutine of ANOTHER member called Lock after that point of the hold (and before its end)
    longholds = []
    for sc in scen:
        if sc["reset"].get("cfg") != "W":
            continue
        calls, open_ = [], {}      # Lock calls of the workers: [goroutine, member, t of inv, t of ret (None = never)]
        for e in sc["all"]:
            if e.get("op") != "lock" or e.get("probe") or "t" not in e:
                continue
            if e.get("ev") == "inv":
                open_[e.get("p")] = [e.get("p"), e.get("m"), e["t"], None]
                calls.append(open_[e.get("p")])
            elif e.get("ev") == "ret" and e.get("p") in open_:
                open_.pop(e.get("p"))[3] = e["t"]
        for h in sc["all"]:
            if h.get("ev") != "hold" or not h.get("timeout_ms"):
                continue
            t0, t1 = h["t"], h["t"] + h["ms"]
            # calls of other members that were in progress at some instant later than 3 time-outs into the critical section
            late = [c for c in calls if c[1] != h.get("m") and c[2] < t1 - 50 and (c[3] is None or c[3] > t0 + 3 * h["timeout_ms"])]
            pending = [c for c in calls if c[0] != h.get("p") and c[2] < t1 and (c[3] is None or c[3] > t0)]
            longholds.append({"scen": sc["reset"].get("scen"), "k_x10": h["ms"] * 10 // h["timeout_ms"], "timeout_ms": h["timeout_ms"],
                              "configured": bool(sc["reset"].get("configured")), "late_other_member_calls": len(late), "contending_calls": len(pending)})
    ctx.cov["mutex_long_holds"] = longholds
    for lh in longholds:
        if lh["k_x10"] > 30 and lh["late_other_member_calls"]:
            ctx.nontrivial({"long-hold": lh["scen"], "k_x10": lh["k_x10"] // 10 * 10, "configured": lh["configured"]})
    if nw and not any(lh["k_x10"] > 30 and lh["late_other_member_calls"] and lh["configured"] for lh in longholds):
        ctx.inconclusive("C18 mutex TV: no critical section outlasted 3 x the member's configured request time-out with another member calling Lock "
                         "after that point (scenarios W): %s" % jdump(longholds))
    regr = sum(1 for e in ev if e.get("ev") == "fault" and e.get("what") == "re-granted")
    ctx.cov["mutex_lease_regrants_under_a_held_lock"] = regr
    if nl and regr == 0:
        ctx.inconclusive("C18 mutex TV: no lease re-grant happened under a held lock in the scenarios L: %s"
                         % jdump([e for e in ev if e.get("ev") == "fault"][:4]))


# ------------------------------------------------------------------------------------------ admin API
API_CLAUSES = "SuccessBumpsByOne RefusedChangesNothing CreateExisting409 UpdateOtherKind400 VersionOnlyBySuccess"
API_CLIENTS = "{" + ", ".join('"c%d"' % i for i in range(8)) + "}"
# object names: each one is a proper string prefix of the next (their store keys are nested prefixes)
API_NAMES = '{"sv", "svc", "svc-canary"}'
API_TRACE_CFG = ("SPECIFICATION TSpec\nCONSTANTS\n  Clients = %s\n  Names = %s\n  Kinds = {\"K1\", \"K2\"}\n  MaxMk = 1\n"
                 "CONSTRAINT HWM\nPOSTCONDITION Accepted\n" % (API_CLIENTS, API_NAMES))
# (the contract's clauses are action properties of Lin itself - model checked in _mc_api; they are not listed for the
#  trace run because a `reset` step legitimately changes `ver` without a request)
API_GEN_CFG = ("SPECIFICATION GSpec\nCONSTANTS\n  Clients = {\"c0\"}\n  Names = %s\n  Kinds = {\"K1\", \"K2\"}\n  MaxMk = 1\n"
               "INVARIANTS VersionCountsSuccesses\n" % API_NAMES)


def api_cfg(clients, names, maxops, lock=True, delprefix=False, skipsame=False):
    return ("SPECIFICATION Spec\nCONSTANTS\n  Clients = %s\n  Names = %s\n  Kinds = {\"K1\", \"K2\"}\n  MaxOps = %d\n  UseLock = %s\n  DelPrefix = %s\n"
            "  SkipSamePut = %s\n"
            "INVARIANTS TypeOK OneInside\nPROPERTIES Refines\n" % (clients, names, maxops, "TRUE" if lock else "FALSE", "TRUE" if delprefix else "FALSE",
                                                                   "TRUE" if skipsame else "FALSE"))


def _mc_api(ctx):
    # the contract's own clauses
    r = ctx.tlc_mc("AdminApiContract", "SPECIFICATION CSpec\nCONSTANTS\n  Clients = {1, 2}\n  Names = {\"a\"}\n  Kinds = {\"K1\", \"K2\"}\n  MaxMk = 1\n"
                   "CONSTRAINT Bounded\nPROPERTIES %s\n" % API_CLAUSES, label="admin-API contract clauses, 2 clients", timeout=600)
    # the implementation-shaped layer refines it (every interleaving of the etcd operations)
    if ctx.quick:
        r = ctx.tlc_mc("AdminApi", api_cfg("{1, 2}", '{"svc"}', 2), label="admin API impl refines contract: 2 clients x 2 requests, 1 name", timeout=900)
    else:
        r = ctx.tlc_mc("AdminApi", api_cfg("{1, 2}", '{"sv", "svc"}', 2), label="admin API impl refines contract: 2 clients x 2 requests, 2 names", timeout=900)
        r = ctx.tlc_mc("AdminApi", api_cfg("{1, 2, 3}", '{"svc"}', 2), label="admin API impl refines contract: 3 clients x 2 requests, 1 name", timeout=2400)
    ctx.log("AdminApi refines AdminApiContract: %d distinct states" % r.distinct)
    # non-vacuity: without the lock the refinement fails
    r = ctx.tlc_mc("AdminApi", api_cfg("{1, 2}", '{"svc"}', 1, lock=False), label="admin API without the lock", expect_ok=False, count=False, timeout=300, workers=2)
    if r.ok or "violated" not in (r.error or ""):
        ctx.inconclusive("AdminApi: the refinement check is vacuous (it also passes without the lock): %s" % r.error)
    # non-vacuity for nested names: a delete that reaches the keys extending the object's key is not a refinement
    r = ctx.tlc_mc("AdminApi", api_cfg("{1}", '{"sv", "svc"}', 3, delprefix=True), label="admin API deleting by key prefix (names sv, svc)", expect_ok=False,
                   count=False, timeout=300, workers=2)
    if r.ok or "violated" not in (r.error or ""):
        ctx.inconclusive("AdminApi: the refinement check does not see collateral deletions among nested names: %s" % r.error)
    ctx.notes.append("model: deleting an object by key prefix (names sv < svc) violates the refinement (create sv, create svc, delete sv)")
    # non-vacuity for mutations that leave the stored content as it is: skipping the write and the bump is not a refinement
    r = ctx.tlc_mc("AdminApi", api_cfg("{1}", '{"svc"}', 2, skipsame=True), label="admin API skipping a put of identical content", expect_ok=False,
                   count=False, timeout=300, workers=2)
    if r.ok or "violated" not in (r.error or ""):
        ctx.inconclusive("AdminApi: the refinement check does not see a successful update without a version of its own: %s" % r.error)
    ctx.notes.append("model: skipping the put and the version bump of an update that re-sends the stored spec violates the refinement "
                     "(create svc, update svc with the same content: 200 with the version of the create)")


def _mbt_api(ctx):
    nb, depth = (60, 14) if ctx.quick else (600, 18)
    behs = ctx.tlc_simulate("AdminApi_Gen", API_GEN_CFG, num=nb, depth=depth)
    inp = ctx.path("c18_api_behs.ndjson")
    with open(inp, "w") as fh:
        for b in behs:
            fh.write(jdump(b) + "\n")
    outp = ctx.path("c18_api_replay.ndjson")
    recs = []
    for attempt in range(2):
        rc, out = ctx.go_test(PKG_API, "^TestVerifC18ApiReplay$", env={"VERIF_IN": inp, "VERIF_OUT": outp}, timeout=900)
        recs = ctx.read_ndjson(outp)
        if rc == 0 and [x for x in recs if x.get("k") == "summary"] and not [x for x in recs if x.get("k") in ("setup-failed", "server-error")]:
            break
    summ = [x for x in recs if x.get("k") == "summary"]
    if rc != 0 or not summ or [x for x in recs if x.get("k") in ("setup-failed", "server-error")]:
        ctx.inconclusive("C18 admin-API replay harness failed:\n" + out[-3000:] + jdump([x for x in recs if x.get("k") != "mismatch"][:5]))
    ctx.evals(summ[0]["steps"])
    ctx.traces(len(behs))
    ctx.cov["api_replay"] = summ[0]
    for b in behs:
        if any(s.get("st") in ("conflict", "badreq", "other") for s in b):
            ctx.nontrivial({"b": [(s.get("t"), s.get("n"), s.get("k"), s.get("st")) for s in b]})
    # successful mutations that leave the stored content as it is (an update re-sending the stored spec)
    same = sum(1 for b in behs for s in b if s.get("same") and s.get("st") == "ok")
    ctx.cov["api_replay_same_content_updates"] = same
    if same == 0:
        ctx.inconclusive("C18 admin-API MBT: no generated history contains a successful update that re-sends the stored content")
    ctx.sample({"kind": "tlc-behaviour", "steps": [{k: s.get(k) for k in ("t", "n", "k", "st", "rver")} for s in behs[0][:8]]})
    for m in [x for x in recs if x.get("k") == "mismatch"]:
        ctx.violation({"kind": "api-replay", "op": m.get("op"), "st": m.get("st"), "got": m.get("got")},
                      "real admin API diverges from the contract at step %d of a sequential history: %s" % (m["step"], m["what"]), m)
    ctx.log("admin API MBT: %d behaviours, %d requests replayed, %d mismatches" % (len(behs), summ[0]["steps"], summ[0]["mismatches"]))


def _tv_api(ctx):
    n = 10 if ctx.quick else 120
    tp = ctx.path("c18_api_conc.ndjson")
    ev = []
    for attempt in range(2):
        rc, out = ctx.go_test(PKG_API, "^TestVerifC18ApiConc$", env={"VERIF_OUT": tp, "VERIF_N": n, "VERIF_MEMBERS": 2}, timeout=900,
                              race=not ctx.quick)
        ev = ctx.read_ndjson(tp)
        bad = [e for e in ev if e.get("ev") == "setup-failed"]
        if rc == 0 and ev and not bad:
            break
    if "DATA RACE" in out:
        ctx.violation({"kind": "api-race"}, "data race reported by the Go race detector under concurrent admin requests", out[-4000:])
        return
    if rc != 0 or not ev or bad:
        ctx.inconclusive("C18 admin-API concurrent harness failed:\n" + out[-2000:] + jdump(bad[:3]))
    # 5xx replies ("error"): the contract lets any request fail that way without effect; they are counted
    ctx.cov["api_5xx_replies"] = sum(1 for e in ev if e.get("st") == "error")
    scen = split_scenarios(ev, keep=lambda e: e.get("ev") in ("inv", "ret", "final"))
    for sc in scen:
        annotate_invocations(sc["events"], ["st"], default={"st": "none"})
    ctx.evals(sum(1 for e in ev if e.get("ev") == "ret"))

    def on_reject(sc, bad_ev, tr, pos):
        what = "unexplained"
        sig = {"kind": "api-tv"}
        if bad_ev is not None and bad_ev.get("ev") == "final":
            sig["at"] = "final"
            what = "the stored objects / version at quiescence are not the fold of the successful requests in version order"
        elif bad_ev is not None:
            sig["at"] = bad_ev.get("op")
            sig["st"] = bad_ev.get("st")
            what = "the reply %s has no explanation" % jdump({k: bad_ev.get(k) for k in ("p", "op", "st", "code", "ver", "k", "mk")})
        if tr.inv:
            sig["inv"] = tr.inv
        ctx.violation(sig, "concurrent admin-API history has no linearisation allowed by the contract: %s (scenario %s, %d clients, %d members)"
                      % (what, sc["reset"].get("scen"), sc["reset"].get("clients"), sc["reset"].get("members")),
                      {"scenario": sc["events"][:pos + 1]})

    ok = validate_scenarios(ctx, "AdminApi_CTrace", API_TRACE_CFG, scen, "c18_api_tlc", on_reject, max_rejects=3)
    ctx.traces(ok)
    cls = {}
    for sc in scen:
        sts = [e.get("st") for e in sc["events"] if e.get("ev") == "ret"]
        for s in sts:
            cls[s] = cls.get(s, 0) + 1
        if any(s in ("conflict", "badreq", "other") for s in sts):
            ctx.nontrivial({"api-scen": sc["reset"].get("scen"), "sts": sorted(set(sts))})
    ctx.cov["api_reply_classes"] = cls
    # successful updates / refused creates whose content had been sent (and accepted) for the same name just before
    resent = {}
    for e in ev:
        if e.get("ev") == "ret" and e.get("resent"):
            resent[e.get("st")] = resent.get(e.get("st"), 0) + 1
    ctx.cov["api_resent_content_replies"] = resent
    if not resent.get("ok"):
        ctx.inconclusive("C18 admin-API TV is vacuous for mutations that leave the content unchanged: no successful update re-sent an accepted content")
    ctx.sample({"kind": "api-scenario", "events": [{k: e.get(k) for k in ("ev", "p", "op", "n", "k", "st", "ver")} for e in scen[0]["events"][:10]]})
    ctx.log("admin API TV: %d scenarios, %d accepted, replies %s" % (len(scen), ok, cls))
    if not cls.get("conflict") or not cls.get("ok"):
        ctx.inconclusive("C18 admin-API TV is vacuous: no 409 or no success among the recorded replies")

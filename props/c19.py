"""C19 - syncer snapshots are real store states and converge to the final state (DESIGN 5/C19)."""
from lib.vlib import jdump
from props._clustertv import split_scenarios, validate_scenarios

PKG = "pkg/cluster"

SAFETY = "INVARIANTS TypeOK RealStatesMonotone Distinct FirstNotEmpty FirstIsCurrent\n"


def syncer_cfg(keys, watched, vals, writes, ticker=True, live=True, restarts=1, cancels=1, buf=2, scope=None, page1=None, stale_guard=False,
               resync_after=0):
    """scope: keys a pull returns (default = watched, the code); page1: keys read by the first request of a pull (default = all keys: one request);
    stale_guard: a pull whose highest mod revision is below the cached one is ignored (the code: no); resync_after: the cached snapshot is
    forgotten at the n-th consecutive failed pull (the code: never)"""
    return ("SPECIFICATION %s\nCONSTANTS\n  Keys = %s\n  Watched = %s\n  Vals = %s\n  Buf = %d\n  MaxWrites = %d\n  MaxRestarts = %d\n"
            "  MaxCancels = %d\n  Ticker = %s\n  PullScope = %s\n  Page1 = %s\n  StaleGuard = %s\n  ResyncAfter = %d\n%s%s"
            % ("FairSpec" if live else "Spec", keys, watched, vals, buf, writes, restarts, cancels, "TRUE" if ticker else "FALSE",
               scope or watched, page1 or keys, "TRUE" if stale_guard else "FALSE", resync_after, SAFETY, "PROPERTIES Converges\n" if live else ""))


# k1x: a key under the prefix whose name has the watched key k1 as a string prefix; fill: the filler keys of a big prefix
# (a pseudo-key: "f1" = all of them with their values, "none" = none, anything else = a content the store never had)
TRACE_CFG = ("SPECIFICATION TSpec\nCONSTANTS\n  Keys = {\"k1\", \"k1x\", \"k2\", \"k3\", \"fill\"}\n  Consumers = {\"s0\", \"s1\", \"s2\", \"s3\"}\n"
             "CONSTRAINT HWM\nPOSTCONDITION Accepted\nINVARIANTS IdxInRange ViewIsReal\n")


def run(ctx):
    ctx.cov["rule"] = ("traces = recorded scenarios of real syncers (Sync / SyncRaw / SyncPrefix / SyncRawPrefix, fast and slow consumers) on an "
                       "embedded etcd under a seeded write history (bursts, same-value puts, delete-then-recreate, multi-key transactions, "
                       "keys outside the prefix, a sibling key that has the watched key as a string prefix; some on a prefix of 1300 keys with "
                       "never-repeated values and back-to-back transactions over its first and last key; endings chosen by the keys' modification order: deletion of the "
                       "most recently modified key while older keys remain, of the oldest key, same-value put, delete-then-recreate), half of them across a stop/start of the "
                       "etcd server (some outages longer than three request time-outs with the content left unchanged) followed by a compaction (cancelled "
                       "watch), one per wave on a member whose etcd requests are made to fail for 3-6 consecutive pulls of every run loop while the content does not change; TLC rebuilds the store history from the writer's inv/ret events and checks every snapshot and the final "
                       "convergence claim against the contract; non-trivial = scenarios with at least 3 distinct contents or a fault")
    ctx.assumptions += ["the consumer's view starts as the empty content: an initially empty key/prefix needs no delivery (the code sends nothing then)",
                        "convergence is checked as bounded liveness: the harness waits up to 40 s (pull interval 200 ms) before it logs the consumers' views",
                        "the server is restarted with embed.StartEtcd on the member's own configuration (cluster.StartServer's re-registration of the "
                        "cluster name panics when the member's client has not reconnected yet); no write is issued while the server is down",
                        "etcd range reads are atomic and watch delivery is trusted",
                        "request failures of a member (a partition between it and the server) are injected at the KV interface of that member's etcd client; "
                        "its watch stream stays up"]
    if ctx.phase("mc"):
        _mc(ctx)
    if ctx.phase("tv"):
        _tv(ctx)


def _mc(ctx):
    k2 = '{"k1", "k2"}'
    if ctx.quick:
        r1 = ctx.tlc_mc("Syncer", syncer_cfg(k2, '{"k1"}', '{"v1", "v2"}', 3), label="Sync(key): 2 values, 3 writes, restart, cancel; safety + Converges", timeout=600)
        r2 = ctx.tlc_mc("Syncer", syncer_cfg(k2, k2, '{"v1"}', 3), label="SyncPrefix: 2 keys, 3 writes, restart, cancel; safety + Converges", timeout=600)
    else:
        r1 = ctx.tlc_mc("Syncer", syncer_cfg(k2, '{"k1"}', '{"v1", "v2"}', 4), label="Sync(key): 2 values, 4 writes, restart, cancel; safety + Converges", timeout=1800)
        r2 = ctx.tlc_mc("Syncer", syncer_cfg(k2, k2, '{"v1"}', 4), label="SyncPrefix: 2 keys, 4 writes, restart, cancel; safety + Converges", timeout=2400)
    ctx.log("Syncer model checked: %d + %d distinct states (safety and liveness)" % (r1.distinct, r2.distinct))
    # non-vacuity of the liveness check: without the periodic pull a lost watch event is never repaired
    r = ctx.tlc_mc("Syncer", syncer_cfg(k2, '{"k1"}', '{"v1"}', 2, ticker=False), label="no ticker pull", expect_ok=False, count=False, timeout=300, workers=2)
    if r.ok or "Converges" not in (r.error or "") + r.out[-6000:]:
        ctx.inconclusive("Syncer: Converges is not violated without the ticker pull - the liveness check is vacuous (%s)" % r.error)
    ctx.notes.append("without the ticker pull TLC finds a behaviour violating Converges (lost watch event / cancelled watch)")
    # what the clauses owe to the pull being exact and atomic (both decided on the real code by the trace validation):
    # a single-key syncer whose pull also returns a sibling key re-sends an unchanged value ...
    r = ctx.tlc_mc("Syncer", syncer_cfg(k2, '{"k1"}', '{"v1"}', 2, live=False, restarts=0, cancels=0, scope=k2).replace(SAFETY, "INVARIANTS TypeOK Distinct\n"), label="Sync(key) pulling more than the key",
                   expect_ok=False, count=False, timeout=300, workers=2)
    if r.ok or r.violated != "Distinct":
        ctx.inconclusive("Syncer: a pull wider than the watched key does not violate Distinct in the model (%s %s)" % (r.violated, r.error))
    # ... and a prefix pull made of two requests that are not pinned to one revision returns contents the store never had
    r = ctx.tlc_mc("Syncer", syncer_cfg(k2, k2, '{"v1", "v2"}', 2, live=False, restarts=0, cancels=0, page1='{"k1"}').replace(SAFETY, "INVARIANTS TypeOK RealStatesMonotone\n"), label="SyncPrefix pulling in two unpinned pages",
                   expect_ok=False, count=False, timeout=300, workers=2)
    if r.ok or r.violated != "RealStatesMonotone":
        ctx.inconclusive("Syncer: an unpinned two-page pull does not violate RealStatesMonotone in the model (%s %s)" % (r.violated, r.error))
    ctx.notes.append("model: a single-key pull that also returns sibling keys violates Distinct; a two-page pull not pinned to one revision violates RealStatesMonotone")
    # what the clauses owe to pullCompareSend taking every successful pull at face value and to a failed pull changing nothing
    # (both decided on the real code by the trace validation: histories ending with the deletion of the most recently modified
    # key, outages of several pulls with unchanged content):
    # a pull that is ignored because its highest mod revision is below the cached one never delivers "newest key deleted" ...
    r = ctx.tlc_mc("Syncer", syncer_cfg(k2, k2, '{"v1"}', 3, restarts=0, cancels=0, stale_guard=True), label="SyncPrefix ignoring pulls with a lower highest mod revision",
                   expect_ok=False, count=False, timeout=300, workers=2)
    if r.ok or "Converges" not in (r.error or "") + r.out[-6000:]:
        ctx.inconclusive("Syncer: a stale-read guard on mod revisions does not violate Converges in the model (%s %s)" % (r.violated, r.error))
    # ... and a syncer that forgets its cached snapshot after consecutive failed pulls re-sends an unchanged content
    r = ctx.tlc_mc("Syncer", syncer_cfg(k2, '{"k1"}', '{"v1"}', 1, live=False, restarts=1, cancels=0, resync_after=2).replace(SAFETY, "INVARIANTS TypeOK Distinct\n"),
                   label="Sync(key) forgetting its snapshot at the 2nd failed pull in a row", expect_ok=False, count=False, timeout=300, workers=2)
    if r.ok or r.violated != "Distinct":
        ctx.inconclusive("Syncer: forgetting the cached snapshot after failed pulls does not violate Distinct in the model (%s %s)" % (r.violated, r.error))
    ctx.notes.append("model: ignoring a pull whose highest mod revision is lower than the cached one violates Converges (put k1, put k2, delete k2); "
                     "forgetting the cached snapshot after consecutive failed pulls violates Distinct (stop, 2 failed pulls, start)")


def _tv(ctx):
    waves, per = (4, 5) if ctx.quick else (36, 8)
    tp = ctx.path("c19_trace.ndjson")
    ev = []
    for attempt in range(2):
        rc, out = ctx.go_test(PKG, "^TestVerifC19Syncer$", env={"VERIF_OUT": tp, "VERIF_WAVES": waves, "VERIF_PER_WAVE": per}, timeout=1500,
                              race=not ctx.quick)
        ev = ctx.read_ndjson(tp)
        if rc == 0 and ev and not any(e.get("ev") == "setup-failed" for e in ev):
            break
        ctx.log("syncer harness attempt %d failed (rc=%s)" % (attempt + 1, rc))
    if "DATA RACE" in out and "syncer.go" in out:
        ctx.violation({"kind": "race"}, "data race in the syncer reported by the Go race detector", out[-4000:])
        return
    if rc != 0 or not ev or any(e.get("ev") == "setup-failed" for e in ev):
        ctx.inconclusive("C19 syncer harness failed:\n" + out[-3000:] + jdump([e for e in ev if e.get("ev") == "setup-failed"]))
    failed = [e for e in ev if e.get("ev") == "scenario-failed"]
    scen = split_scenarios(ev, keep=lambda e: e.get("ev") in ("w.inv", "w.ret", "start", "snap", "stop", "up", "part", "heal", "conv"))
    scen = [s for s in scen if not any(e.get("ev") == "w.ret" and not e.get("ok") for e in s["events"])]
    if len(failed) > max(1, len(scen) // 4) or not scen:
        ctx.inconclusive("C19: too many scenarios with failed writes (%d): %s" % (len(failed), jdump(failed[:3])))
    ctx.evals(sum(1 for e in ev if e.get("ev") == "snap"))

    def on_reject(sc, bad, tr, pos):
        faulty = bool(sc["reset"].get("faulty"))
        api = None
        if bad is not None and bad.get("c"):
            st = [e for e in sc["events"] if e.get("ev") == "start" and e.get("c") == bad.get("c")]
            api = st[0].get("api") if st else None
        if bad is not None and bad.get("ev") == "conv":
            sig = {"kind": "syncer-tv", "clause": "converges", "faulty": faulty}
            what = ("consumer %s (%s) did not converge: %d s after the last write its view is %s, which is not the store's final content"
                    % (bad.get("c"), api, 40, jdump(bad.get("view"))))
        elif bad is not None and bad.get("ev") == "snap":
            sig = {"kind": "syncer-tv", "clause": "snapshot", "faulty": faulty}
            what = ("consumer %s (%s) received snapshot %s which is not a content the store had at or after its previous snapshot, or equals "
                    "the previous snapshot" % (bad.get("c"), api, jdump(bad.get("val"))))
        else:
            sig = {"kind": "syncer-tv", "clause": "other", "ev": (bad or {}).get("ev")}
            what = "unexplained event %s" % jdump(bad)
        if tr.inv:
            sig["inv"] = tr.inv
        ctx.violation(sig, "recorded syncer history is not allowed by the contract: %s (scenario %s, %s)"
                      % (what, sc["reset"].get("scen"), "server restart + compaction" if faulty else "no fault"), {"scenario": sc["events"][:pos + 1]})

    ok = validate_scenarios(ctx, "Syncer_Trace", TRACE_CFG, scen, "c19_tlc", on_reject, max_rejects=4)
    ctx.traces(ok)
    nsnap = 0
    faulty_with_snaps = 0
    for sc in scen:
        contents = {jdump(e.get("val")) for e in sc["events"] if e.get("ev") == "snap"}
        nsnap += sum(1 for e in sc["events"] if e.get("ev") == "snap")
        if len(contents) >= 3 or sc["reset"].get("faulty"):
            ctx.nontrivial({"scen": sc["reset"].get("scen"), "contents": len(contents), "faulty": sc["reset"].get("faulty")})
        if sc["reset"].get("faulty") and contents:
            faulty_with_snaps += 1
    ctx.cov["syncer_snapshots"] = nsnap
    ctx.cov["syncer_scenarios"] = {"total": len(scen), "faulty": sum(1 for s in scen if s["reset"].get("faulty")), "dropped_failed_writes": len(failed)}
    # the classes of histories / faults the convergence and "consecutive snapshots differ" clauses are most exposed to
    def has_prefix_consumer(sc):
        return any(e.get("ev") == "start" and e.get("kind") == "prefix" for e in sc["events"])
    endings = {}
    for sc in scen:
        endings[sc["reset"].get("ending")] = endings.get(sc["reset"].get("ending"), 0) + 1
    del_newest = sum(1 for sc in scen if sc["reset"].get("ending") == "del-newest" and has_prefix_consumer(sc))
    heals = [e for sc in scen for e in sc["events"] if e.get("ev") == "heal"]
    outages = sum(e.get("outages_unchanged_3plus", 0) for e in ev if e.get("ev") == "lossy-summary")
    ctx.cov["syncer_history_endings"] = endings
    ctx.cov["syncer_outages"] = {"member_cut_off": len(heals),
                                 "last_writes_while_cut_off": sum(1 for sc in scen for e in sc["all"] if e.get("ev") == "note"), "unchanged_content_3plus_failed_pulls_per_loop": outages,
                                 "long_server_outage_scenarios": sum(1 for sc in scen if sc["reset"].get("long_outage"))}
    ctx.sample({"kind": "syncer-scenario", "events": scen[0]["events"][:12]})
    ctx.log("syncer TV: %d scenarios (%d faulty), %d accepted, %d snapshots" % (len(scen), ctx.cov["syncer_scenarios"]["faulty"], ok, nsnap))
    if (nsnap < 2 * len(scen) or faulty_with_snaps == 0) and not ctx.violations:
        ctx.inconclusive("C19 TV is vacuous: too few snapshots (%d) or no faulty scenario with snapshots" % nsnap)
    # (a code change that breaks the periodic pull also keeps an outage from being counted: vacuity never hides a violation)
    if (del_newest == 0 or outages == 0) and not ctx.violations:
        ctx.inconclusive("C19 TV is vacuous: no prefix consumer saw a history ending with the deletion of the newest key (%d), or no syncer went "
                         "through an outage of 3 or more failed pulls with unchanged content (%d)" % (del_newest, outages))

"""C20 - objects are initialised, inherited and closed exactly once as config changes (DESIGN 5/C20).

Specs: Lifecycle (contract), LifecycleImpl (registry diff / watcher events / handlers, refinement of the
contract), Lifecycle_Gen (all snapshot sequences + predicted callbacks), Lifecycle_Trace (trace validation).
Harnesses: harness/pkg/supervisor/c20_*_test.go (business controllers through Supervisor.handleEvent) and
harness/pkg/object/rawconfigtrafficcontroller/c20_*_test.go (the same plus traffic objects through
RawConfigTrafficController -> TrafficController) and harness/pkg/object/trafficcontroller/c20_apply_test.go (the Apply path of
the TrafficController - ApplyTrafficGate/ApplyPipeline, Delete*, Clean - used by every other owner of traffic objects;
spec LifecycleApply).

Phases (VERIF_PHASES): mc, mca (Apply path model), mcn (negative controls of the model), ambt, atv (package trafficcontroller: Apply path), mbt, tv, tvl, tvs (package supervisor), tmbt, ttv, ttvl, ttvs (package rawconfigtrafficcontroller);
tvl / ttvl = TV with long bursts of snapshots and slow watchers; tvs / ttvs = TV of histories whose first burst of snapshots
arrives while the supervisor is starting (watchers being registered).
"""
import random
import re
from concurrent.futures import ThreadPoolExecutor

from lib.vlib import jdump

SUP = "pkg/supervisor"
RCTC = "pkg/object/rawconfigtrafficcontroller"
TC = "pkg/object/trafficcontroller"

CONTRACT_INV = "INVARIANTS CTypeOK LiveIsSnapshot ExactlyOnce CreatedBeforeEnded\nPROPERTIES PerSnapshot Discharge\n"
IMPL_INV = ("INVARIANTS CTypeOK LiveIsSnapshot NoForbiddenCallback Reconciled NobodyDies RegistryIsSnapshot WatcherViews\n"
            "PROPERTIES PerSnapshot\n")


def sset(xs, model=False):
    return "{" + ", ".join(x if model else '"%s"' % x for x in xs) + "}"


def consts(names, biz, gate, pipe, vers, maxsnaps, model=False):
    return ("CONSTANTS\n  Names = %s\n  BizKinds = %s\n  GateKinds = %s\n  PipeKinds = %s\n  Vers = {%s}\n  MaxSnaps = %d\n"
            % (sset(names, model), sset(biz), sset(gate), sset(pipe), ", ".join(str(v) for v in vers), maxsnaps))


def contract_cfg(names, biz, gate, vers, maxsnaps):
    return "SPECIFICATION CSpec\n" + consts(names, biz, gate, [], vers, maxsnaps) + CONTRACT_INV


def impl_cfg(names, biz, gate, pipe, vers, maxsnaps, watchers, panics, pinned=False, recover=True, cap=10, drop=False,
             atomic_register=True, contract_only=False, skip_empty=False):
    inv = IMPL_INV.replace(" RegistryIsSnapshot WatcherViews", "") if contract_only else IMPL_INV
    return ("SPECIFICATION ISpec\n" + consts(names, biz, gate, pipe, vers, maxsnaps, model=True) +
            "  Watchers = %s\n  MaxPanics = %d\n  KindChangeIsUpdate = %s\n  Recover = %s\n  ChanCap = %d\n  DropWhenFull = %s\n"
            "  AtomicRegister = %s\n  SkipEmpty = %s\nVIEW view\nSYMMETRY NameSym\n"
            % (sset(watchers), panics, "TRUE" if pinned else "FALSE", "TRUE" if recover else "FALSE", cap,
               "TRUE" if drop else "FALSE", "TRUE" if atomic_register else "FALSE", "TRUE" if skip_empty else "FALSE") + inv)


def apply_cfg(names, gate, pipe, vers, maxsnaps, store_on_inherit=True):
    return ("SPECIFICATION ASpec\n" + consts(names, [], gate, pipe, vers, maxsnaps, model=True) +
            "  StoreOnInherit = %s\nVIEW aview\nSYMMETRY NameSym\n" % ("TRUE" if store_on_inherit else "FALSE") +
            "INVARIANTS CTypeOK LiveIsSnapshot NoForbiddenCallback Reconciled\nPROPERTIES PerSnapshot\n")


def gen_cfg(names, nameseq, biz, gate, kindseq, vers, maxsnaps, panics, canonical=True, empty_at=()):
    return ("SPECIFICATION %s\n" % ("GSpec" if canonical else "GSimSpec") + consts(names, biz, gate, [], vers, maxsnaps) +
            "  MaxPanics = %d\n  Canonical = %s\n  EmptyAt = {%s}\n  NameSeq <- %s\n  KindSeq <- %s\nINVARIANTS LiveIsSnapshot\n"
            % (panics, "TRUE" if canonical else "FALSE", ", ".join(str(i) for i in empty_at), nameseq, kindseq))


def trace_cfg(names, biz, gate, vers=(1, 2, 3)):
    return ("SPECIFICATION TSpec\n" + consts(names, biz, gate, [], vers, 100000000) +
            "CONSTRAINT HWM\nPOSTCONDITION Accepted\n" + CONTRACT_INV)


def run(ctx):
    ctx.cov["rule"] = ("behaviours = TLC-generated snapshot sequences (all canonical sequences up to the bound, with scripted "
                       "panics) replayed in lock-step on a real Supervisor (and RawConfigTrafficController/TrafficController) fed "
                       "through the mocked cluster syncer, callbacks and live set compared per step and name with the contract; "
                       "traces = seeded random longer histories (bursts of 1-3 snapshots, and bursts of 14-32 snapshots pushed while "
                       "the handlers are held back by gated / slow callbacks; first burst of 5-8 snapshots pushed while the "
                       "supervisor is being created and its watchers are being registered; panicking callbacks) recorded from the real "
                       "code and validated by TLC against the contract; one snapshot in eight of a history is the empty configuration, "
                       "delivered as a map without any entry, and the families s1 {} s3 / s1 s2 {} s4 are replayed exhaustively; "
                       "the same contract decides the Apply path of a bare TrafficController (all sequences of 4 snapshots of one name over "
                       "gate/pipeline x 3 versions, thorough: all canonical sequences of 3 snapshots over 2 names, sampled longer ones, random 30-40-snapshot histories); non-trivial = distinct behaviours/traces with at least one "
                       "inherit, close or kind change")
    ctx.assumptions += [
        "snapshots are handed to ObjectRegistry through the channel returned by a mocked cluster.Syncer.SyncPrefix "
        "(clustertest.MockedCluster); the etcd-backed syncer itself is C19",
        "callbacks are observed through test-only object kinds registered by the harness (two business-controller kinds, one "
        "traffic-gate-category kind, one pipeline-category kind); two specs of a kind are equal iff their `ver` field is",
        "quiescence is detected by barrier objects (sentinel kinds) pushed with every snapshot that has objects, not by waiting; "
        "a snapshot without any object is delivered as an empty map (no sentinel objects either) and has no barrier of its own: "
        "in a lock-step replay what it causes is compared, together with what the next snapshot causes, at that snapshot's barrier",
        "Apply path: the harness plays the owner of the traffic objects (as the mesh / ingress controllers do): per snapshot it "
        "calls Apply* for every object of the snapshot (an unchanged one is re-applied or left alone), Delete* for every object "
        "that is gone or Clean for a namespace of which nothing is left, in a random order; a change between gate and pipeline "
        "category is a Delete in one map and an Apply in the other; a change of kind inside one category is not generated",
        "a call that panics counts as the call having been made; panics are scripted per (snapshot, name)",
        "the order between Close(old) and Init(new) of a kind change is not fixed by the property text and is left free; "
        "a kind change across watchers (controller <-> traffic object) is never pushed in the middle of a burst",
        "start-up: the business controllers and the traffic objects each begin to be reconciled at some moment before "
        "supervisor.MustNew returns, from the then latest snapshot (earlier snapshots are coalesced into it for that group); "
        "which moment is left free (searched by TLC); from then on every snapshot counts",
        "start-up schedules are widened only through code the supervisor calls anyway while it starts (Init of a test-only "
        "system controller, Category() of the test-only kinds when called by the category filter inside ObjectRegistry.NewWatcher) "
        "and, in package supervisor, by re-doing the statements of MustNew with a pause between newObjectRegistry and NewWatcher; "
        "at most 8 snapshots are pushed during a start-up (the supervisor's handler goroutine only starts at the end of MustNew "
        "and a watcher's channel buffers 10 events)",
    ]
    # three independent strands (model checking / package supervisor / package rawconfigtrafficcontroller)
    # run side by side: TLC and the Go harnesses mostly wait for different things
    ctx._prepare_build()

    def strand(*steps):
        def f():
            for name, fn, arg in steps:
                if ctx.phase(name):
                    fn(ctx, *arg)
        return f

    strands = [strand(("mc", _mc, ())),
               strand(("mca", _mc_apply, ()), ("ambt", _ambt, ())),
               strand(("atv", _atv, ())),
               strand(("mcn", _mc_controls, ())),
               strand(("mbt", _mbt, (SUP,)), ("tv", _tv, (SUP, "std"))),
               strand(("tmbt", _mbt, (RCTC,)), ("ttv", _tv, (RCTC, "std"))),
               strand(("tvl", _tv, (SUP, "long"))),
               strand(("ttvl", _tv, (RCTC, "long"))),
               strand(("tvs", _tv, (SUP, "startup"))),
               strand(("ttvs", _tv, (RCTC, "startup")))]
    with ThreadPoolExecutor(len(strands)) as ex:
        futs = [ex.submit(f) for f in strands]
        errs = []
        for f in futs:
            try:
                f.result()
            except Exception as e:       # noqa: keep the first problem, let the other strands finish
                errs.append(e)
    if errs:
        raise errs[0]


# ------------------------------------------------------------------------------------------------
def _mc(ctx):
    q = ctx.quick
    # the contract's own theorems (the clauses of C20)
    cruns = [("2 names x 3 kinds x 2 versions, 2 snapshots", contract_cfg(["a", "b"], ["K1", "K2"], ["G1"], [1, 2], 2))]
    if not q:
        cruns = [("2 names x 2 kinds x 2 versions, 3 snapshots", contract_cfg(["a", "b"], ["K1"], ["G1"], [1, 2], 3)),
                 ("3 names x 2 kinds x 1 version, 2 snapshots", contract_cfg(["a", "b", "c"], ["K1"], ["G1"], [1], 2))]
    for label, cfg in cruns:
        r = ctx.tlc_mc("Lifecycle", cfg, label="contract: " + label, timeout=1500)
        ctx.log("contract model checked (%s): %d distinct states" % (label, r.distinct))
    # the implementation-shaped layer with the repaired diff refines the contract
    runs = [("sup watcher, 2 names", impl_cfg(["a", "b"], ["K1", "K2"], [], [], [1, 2], 2, ["sup"], 1)),
            ("both watchers, 2 names", impl_cfg(["a", "b"], ["K1"], ["G1"], [], [1, 2], 2, ["sup", "rctc"], 1))]
    if not q:
        runs = [("sup watcher, 3 names", impl_cfg(["a", "b", "c"], ["K1", "K2"], [], [], [1, 2], 2, ["sup"], 1)),
                ("sup watcher, 2 names, 3 snapshots", impl_cfg(["a", "b"], ["K1", "K2"], [], [], [1, 2], 3, ["sup"], 1)),
                ("both watchers, 2 names, pipelines", impl_cfg(["a", "b"], ["K1"], ["G1"], ["P1"], [1, 2], 2, ["sup", "rctc"], 1)),
                ("both watchers, 3 names", impl_cfg(["a", "b", "c"], ["K1"], ["G1"], [], [1], 2, ["sup", "rctc"], 2))]
    # slow watchers: a channel of capacity 1 / 2 is full after one / two unhandled events, so that with 3 snapshots the
    # registry has to wait for room (blocking send, the code's shape)
    runs += [("sup watcher, 2 names, 3 snapshots, channel capacity 1",
              impl_cfg(["a", "b"], ["K1", "K2"], [], [], [1, 2], 3, ["sup"], 0, cap=1)),
             ("both watchers, 2 names, 3 snapshots, channel capacity 1",
              impl_cfg(["a", "b"], ["K1"], ["G1"], [], [1], 3, ["sup", "rctc"], 0, cap=1))]
    if not q:
        runs += [("sup watcher, 2 names, 4 snapshots, channel capacity 2",
                  impl_cfg(["a", "b"], ["K1"], [], [], [1, 2], 4, ["sup"], 0, cap=2))]
    for label, cfg in runs:
        r = ctx.tlc_mc("LifecycleImpl", cfg, label="impl (kind change = delete+create) refines contract: " + label, timeout=1500)
        ctx.log("impl layer refines the contract (%s): %d distinct states" % (label, r.distinct))




def _mc_apply(ctx):
    """the Apply path of the TrafficController (ApplyTrafficGate/ApplyPipeline, Delete*, Clean) refines the contract, too"""
    q = ctx.quick
    aruns = [("2 names x (gate, pipeline) x 2 versions, 3 snapshots", apply_cfg(["a", "b"], ["G1"], ["P1"], [1, 2], 3))]
    if not q:
        aruns += [("2 names x gate x 3 versions, 4 snapshots", apply_cfg(["a", "b"], ["G1"], [], [1, 2, 3], 4)),
                  ("3 names x (gate, pipeline) x 1 version, 3 snapshots", apply_cfg(["a", "b", "c"], ["G1"], ["P1"], [1], 3))]
    for label, cfg in aruns:
        r = ctx.tlc_mc("LifecycleApply", cfg, label="TrafficController Apply path refines contract: " + label, timeout=1500)
        ctx.log("Apply path refines the contract (%s): %d distinct states" % (label, r.distinct))


def _mc_controls(ctx):
    """negative controls: shapes of the implementation layer that TLC must reject"""
    q = ctx.quick
    # the diff as originally pinned (kind change classified as update, finding F18) does not refine the contract: TLC must find that
    # (a lead for the real code, never a verdict; here it also shows that the refinement check is not vacuous)
    r = ctx.tlc_mc("LifecycleImpl", impl_cfg(["a", "b"], ["K1", "K2"], [], [], [1, 2], 2, ["sup"], 0, pinned=True),
                   label="impl with kind change = update (F18 shape)", expect_ok=False, count=False, timeout=600)
    if r.violated:
        ctx.notes.append("TLC: the kind-change-as-update shape of applyConfig (F18) violates %s of the contract" % r.violated)
        ctx.log("model sanity: the kind-change-as-update shape of applyConfig violates %s" % r.violated)
    else:
        ctx.inconclusive("TLC does not reject the kind-change-as-update shape of applyConfig: refinement check is vacuous\n" + r.out[-2000:])
    # a send that gives up when the watcher's channel is full loses the diff for good: TLC must find that, too
    r = ctx.tlc_mc("LifecycleImpl", impl_cfg(["a", "b"], ["K1"], [], [], [1, 2], 3, ["sup"], 0, cap=1, drop=True),
                   label="impl with a non-blocking send to a full watcher channel", expect_ok=False, count=False, timeout=600)
    if r.violated:
        ctx.log("model sanity: dropping the event of a full watcher channel violates %s" % r.violated)
    else:
        ctx.inconclusive("TLC does not reject the dropped watcher event: the slow-watcher part of the refinement check is vacuous\n" + r.out[-2000:])
    # a watcher that takes its first view of the registry under the lock but is added to or.watchers only later misses the
    # snapshots applied in between and is never caught up (the registry only ever sends diffs): TLC must find that, too
    for label, cfg in [("sup watcher", impl_cfg(["a", "b"], ["K1"], [], [], [1, 2], 2, ["sup"], 0, atomic_register=False, contract_only=True)),
                       ("both watchers", impl_cfg(["a", "b"], ["K1"], ["G1"], [], [1], 2, ["sup", "rctc"], 0, atomic_register=False,
                                                         contract_only=True))]:
        r = ctx.tlc_mc("LifecycleImpl", cfg, label="impl with a watcher registered after its first view was taken (%s)" % label,
                       expect_ok=False, count=False, timeout=600)
        if r.violated:
            ctx.log("model sanity: late registration of a watcher (%s) violates %s" % (label, r.violated))
        else:
            ctx.inconclusive("TLC does not reject the late registration of a watcher: the start-up part of the refinement check "
                             "is vacuous\n" + r.out[-2000:])
    # a registry goroutine that ignores a snapshot without any object never closes the last objects: TLC must find that
    r = ctx.tlc_mc("LifecycleImpl", impl_cfg(["a", "b"], ["K1"], [], [], [1, 2], 2, ["sup"], 0, skip_empty=True, contract_only=True),
                   label="impl with a registry that ignores the empty configuration", expect_ok=False, count=False, timeout=600)
    if r.violated:
        ctx.log("model sanity: ignoring the snapshot without any object violates %s" % r.violated)
    else:
        ctx.inconclusive("TLC does not reject the registry that ignores the empty configuration: that part of the refinement check "
                         "is vacuous\n" + r.out[-2000:])
    # an Apply whose inherit branch does not store the new generation keeps the first generation for ever: TLC must find that
    r = ctx.tlc_mc("LifecycleApply", apply_cfg(["a", "b"], ["G1"], [], [1, 2, 3], 3, store_on_inherit=False),
                   label="Apply path without Store on the inherit branch", expect_ok=False, count=False, timeout=600)
    if r.violated:
        ctx.log("model sanity: an Apply that does not store the inherited generation violates %s" % r.violated)
    else:
        ctx.inconclusive("TLC does not reject the Apply path that keeps the first generation: the Apply part of the refinement check "
                         "is vacuous\n" + r.out[-2000:])
    if not q:
        r = ctx.tlc_mc("LifecycleImpl", impl_cfg(["a", "b"], ["K1", "K2"], [], [], [1, 2], 2, ["sup"], 1, recover=False),
                       label="impl without recover()", expect_ok=False, count=False, timeout=600)
        if r.ok:
            ctx.inconclusive("the model does not notice the loss of recover(): panic clause is vacuous")


# ------------------------------------------------------------------------------------------------
def _interesting(beh):
    return any(t in ("update", "disappear", "kindchange") for st in beh for t in st["trans"].values())


def _gen(ctx, pkg):
    """behaviours to replay, per tier and package"""
    q = ctx.quick
    rng = random.Random(ctx.seed * 7919 + (1 if pkg == SUP else 2))
    behs, exhaustive = [], []

    def dump(label, cfg, length):
        recs = ctx.tlc_dump("Lifecycle_Gen", cfg, label=label, timeout=1500)
        full = [b for b in recs if len(b) == length]
        exhaustive.append("%s: %d" % (label, len(full)))
        return full

    def sim(cfg, num):
        # random (not canonical) sequences of 3 snapshots with up to 2 panic marks; `out` of the last state is the history
        return [b[-1] for b in ctx.tlc_simulate("Lifecycle_Gen", cfg, num=num, depth=4, timeout=1500) if b and len(b[-1]) == 3]

    if pkg == SUP:
        # all canonical sequences of 2 snapshots over 3 names x 2 kinds x 2 versions, no panic
        behs += dump("3 names, 2 snapshots, no panic", gen_cfg(["a", "b", "c"], "Names3", ["K1", "K2"], [], "SupKinds", [1, 2], 2, 0), 2)
        # ... and with one scripted panic: exhaustive for 2 names, sampled (quick) / exhaustive (thorough) for 3
        behs += [b for b in dump("2 names, 2 snapshots, <= 1 panic", gen_cfg(["a", "b"], "Names2", ["K1", "K2"], [], "SupKinds", [1, 2], 2, 1), 2)
                 if any(st["pan"] for st in b)]
        # sequences that pass through the EMPTY configuration (a snapshot without any object, delivered as such):
        # all  s1, {}, s3  over 2 names x 2 kinds x 2 versions (thorough: and all  s1, s2, {}, s4  over 2 names x 1 kind x 2 versions)
        behs += dump("2 names, s1 {} s3, no panic", gen_cfg(["a", "b"], "Names2", ["K1", "K2"], [], "SupKinds", [1, 2], 3, 0, empty_at=(2,)), 3)
        if not q:
            behs += dump("2 names, 1 kind, s1 s2 {} s4, no panic", gen_cfg(["a", "b"], "Names2", ["K1"], [], "OneKind", [1, 2], 4, 0, empty_at=(3,)), 4)
        if q:
            behs += sim(gen_cfg(["a", "b", "c"], "Names3", ["K1", "K2"], [], "SupKinds", [1, 2], 3, 2, False), 400)
        else:
            behs += [b for b in dump("2 names, s1 {} s3, <= 1 panic", gen_cfg(["a", "b"], "Names2", ["K1", "K2"], [], "SupKinds", [1, 2], 3, 1, empty_at=(2,)), 3)
                     if any(st["pan"] for st in b)]
            behs += dump("3 names, 1 kind, 1 version, s1 {} s3 {} s5", gen_cfg(["a", "b", "c"], "Names3", ["K1"], [], "OneKind", [1], 5, 0, empty_at=(2, 4)), 5)
            pan3 = [b for b in dump("3 names, 2 snapshots, <= 1 panic", gen_cfg(["a", "b", "c"], "Names3", ["K1", "K2"], [], "SupKinds", [1, 2], 2, 1), 2)
                    if any(st["pan"] for st in b)]
            behs += rng.sample(pan3, min(len(pan3), 8000))
            behs += dump("2 names, 3 snapshots, no panic", gen_cfg(["a", "b"], "Names2", ["K1", "K2"], [], "SupKinds", [1, 2], 3, 0), 3)
            behs += sim(gen_cfg(["a", "b", "c"], "Names3", ["K1", "K2"], [], "SupKinds", [1, 2], 3, 2, False), 8000)
    else:
        behs += dump("2 names, 2 snapshots, controller + gate + pipeline-category kinds, no panic",
                     gen_cfg(["a", "b"], "Names2", ["K1"], ["G1", "P1"], "TrafKinds", [1, 2], 2, 0), 2)
        # ... through the EMPTY configuration (see above)
        behs += dump("2 names, controller + gate + pipeline-category kinds, %s, s1 {} s3, no panic" % ("1 version" if q else "2 versions"),
                     gen_cfg(["a", "b"], "Names2", ["K1"], ["G1", "P1"], "TrafKinds", [1] if q else [1, 2], 3, 0, empty_at=(2,)), 3)
        if q:
            behs += sim(gen_cfg(["a", "b", "c"], "Names3", ["K1"], ["G1", "P1"], "TrafKinds", [1, 2], 3, 2, False), 300)
        else:
            behs += [b for b in dump("2 names, 2 snapshots, <= 1 panic", gen_cfg(["a", "b"], "Names2", ["K1"], ["G1", "P1"], "TrafKinds", [1, 2], 2, 1), 2)
                     if any(st["pan"] for st in b)]
            behs += dump("3 names, 2 snapshots, 1 version, no panic", gen_cfg(["a", "b", "c"], "Names3", ["K1"], ["G1", "P1"], "TrafKinds", [1], 2, 0), 2)
            behs += sim(gen_cfg(["a", "b", "c"], "Names3", ["K1", "K2"], ["G1", "P1"], "TrafKinds4", [1, 2], 3, 2, False), 6000)
    rng.shuffle(behs)
    return behs, exhaustive


def _sig(m, pkg):
    return {"kind": "replay", "pkg": pkg.split("/")[-1], "what": m["what"], "trans": m.get("trans") or "none",
            "got": m.get("gotops", "")}


def _mbt(ctx, pkg):
    behs, exhaustive = _gen(ctx, pkg)
    short = pkg.split("/")[-1]
    nshards = 4 if ctx.quick else 8
    shards = [behs[i::nshards] for i in range(nshards)]
    # warm the build cache once, then replay the shards in parallel processes (each harness process
    # is sequential: one supervisor at a time)
    rc, out = ctx.go_test(pkg, "^TestVerifC20Build$")
    if rc != 0:
        ctx.inconclusive("C20 harness does not run in %s:\n%s" % (pkg, out[-3000:]))

    def one(i):
        inp = ctx.write_ndjson("c20_%s_in_%d.ndjson" % (short, i), shards[i])
        outp = ctx.path("c20_%s_out_%d.ndjson" % (short, i))
        rc, out = ctx.go_test(pkg, "^TestVerifC20Replay$", env={"VERIF_IN": inp, "VERIF_OUT": outp}, timeout=1500)
        return rc, out, ctx.read_ndjson(outp)

    with ThreadPoolExecutor(nshards) as ex:
        results = list(ex.map(one, range(nshards)))
    nbeh = ncb = 0
    stalled = False
    for i, (rc, out, recs) in enumerate(results):
        summ = [x for x in recs if x.get("k") == "summary"]
        if c20_crash(out):
            stalled = True
            ctx.violation({"kind": "crash", "pkg": short},
                          "a scripted panic in a lifecycle callback was not recovered and killed the process "
                          "(the other objects of the snapshot are never reconciled)", out[-4000:])
            continue
        if rc != 0 or not summ:
            ctx.inconclusive("C20 replay harness failed in %s:\n%s" % (pkg, out[-3000:]))
        nbeh += summ[0]["behaviours"]
        ncb += summ[0]["callbacks"]
        for m in recs:
            if m.get("k") == "starved":
                ctx.inconclusive("C20: the harness process of %s did not get CPU time for 30 s (overloaded machine); no observation" % pkg)
            if m.get("k") == "stall":
                stalled = True
                ctx.violation({"kind": "stall", "pkg": short},
                              "a snapshot was not reconciled within 30 s (twice): barrier object never inherited", m)
            elif m.get("k") == "mismatch":
                ctx.violation(_sig(m, pkg),
                              "%s: step %d, name %s (%s): real code %s, contract %s" % (
                                  short, m["step"], m["name"], m.get("trans"), m["got"], m["exp"]), m)
    if stalled:
        return          # the run was cut short by a reported stall / crash
    if nbeh != len(behs):
        ctx.inconclusive("C20: %d of %d behaviours replayed in %s" % (nbeh, len(behs), pkg))
    if ncb == 0:
        ctx.inconclusive("C20: no callback observed in %s" % pkg)
    ctx.evals(len(behs))
    ctx.traces(len(behs))
    for b in behs:
        if _interesting(b):
            ctx.nontrivial({"p": short, "b": [[st["snap"], st["pan"]] for st in b]})
    ctx.sample({"kind": "tlc-behaviour", "pkg": short, "steps": behs[0]})
    ctx.cov.setdefault("exhaustive_sets", []).extend("%s: %s" % (short, e) for e in exhaustive)
    ctx.log("%s: %d behaviours replayed, %d callbacks compared" % (short, len(behs), ncb))


# ------------------------------------------------------------------------------------------------
# the Apply path of the TrafficController (package trafficcontroller)
def _ambt(ctx):
    q = ctx.quick
    short = "trafficcontroller"
    behs, exhaustive = [], []

    def dump(label, cfg, length):
        recs = ctx.tlc_dump("Lifecycle_Gen", cfg, label=label, timeout=1500)
        full = [b for b in recs if len(b) == length]
        exhaustive.append("%s: %d" % (label, len(full)))
        return full

    def sim(cfg, num, length):
        return [b[-1] for b in ctx.tlc_simulate("Lifecycle_Gen", cfg, num=num, depth=length + 1, timeout=1500) if b and len(b[-1]) == length]

    G = ["G1", "P1"]
    # all sequences of 4 snapshots of one name (init, change, change, delete / unchanged / other category ...) over
    # (gate, pipeline) x 3 versions; thorough: all canonical sequences of 3 snapshots over 2 names x (gate, pipeline) x 2 versions
    behs += dump("1 name, 4 snapshots, no panic", gen_cfg(["a"], "Names1", [], G, "ApplyKinds", [1, 2, 3], 4, 0), 4)
    if q:
        behs += sim(gen_cfg(["a", "b", "c"], "Names3", [], G, "ApplyKinds", [1, 2, 3], 6, 2, False), 500, 6)
    else:
        behs += dump("2 names, 3 snapshots, no panic", gen_cfg(["a", "b"], "Names2", [], G, "ApplyKinds", [1, 2], 3, 0), 3)
        behs += [b for b in dump("1 name, 4 snapshots, <= 1 panic", gen_cfg(["a"], "Names1", [], G, "ApplyKinds", [1, 2, 3], 4, 1), 4)
                 if any(st["pan"] for st in b)]
        behs += dump("2 names, gate only, 2 versions, 4 snapshots, no panic", gen_cfg(["a", "b"], "Names2", [], ["G1"], "GateOnly", [1, 2], 4, 0), 4)
        behs += sim(gen_cfg(["a", "b", "c"], "Names3", [], G, "ApplyKinds", [1, 2, 3], 8, 3, False), 6000, 8)
    random.Random(ctx.seed * 7919 + 3).shuffle(behs)
    rc, out = ctx.go_test(TC, "^TestVerifC20Build$")
    if rc != 0:
        ctx.inconclusive("C20 harness does not run in %s:\n%s" % (TC, out[-3000:]))
    inp = ctx.write_ndjson("c20_tc_in.ndjson", behs)
    outp = ctx.path("c20_tc_out.ndjson")
    rc, out = ctx.go_test(TC, "^TestVerifC20ApplyReplay$", env={"VERIF_IN": inp, "VERIF_OUT": outp}, timeout=1500)
    recs = ctx.read_ndjson(outp)
    summ = [x for x in recs if x.get("k") == "summary"]
    if c20_crash(out):
        ctx.violation({"kind": "crash", "pkg": short}, "a scripted panic in a lifecycle callback was not recovered and killed the process "
                      "(the other objects of the snapshot are never reconciled)", out[-4000:])
        return
    if rc != 0 or not summ:
        ctx.inconclusive("C20 Apply replay harness failed in %s:\n%s" % (TC, out[-3000:]))
    for m in recs:
        if m.get("k") == "mismatch":
            ctx.violation(_sig(m, TC), "%s (Apply path): step %d, name %s (%s): real code %s, contract %s" % (
                short, m["step"], m["name"], m.get("trans"), m["got"], m["exp"]), m)
    if summ[0]["behaviours"] != len(behs):
        ctx.inconclusive("C20: %d of %d behaviours replayed in %s" % (summ[0]["behaviours"], len(behs), TC))
    if summ[0]["callbacks"] == 0:
        ctx.inconclusive("C20: no callback observed in %s" % TC)
    # vacuity guard: chains of generations (a name changed at least twice in a row, then deleted)
    chains = sum(1 for b in behs if any(
        [st["trans"][x] for st in b].count("update") >= 2 for x in b[0]["trans"]))
    if chains < 20:
        ctx.inconclusive("C20: only %d behaviours with two successive changes of one name on the Apply path" % chains)
    ctx.evals(len(behs))
    ctx.traces(len(behs))
    for b in behs:
        if _interesting(b):
            ctx.nontrivial({"p": short, "b": [[st["snap"], st["pan"]] for st in b]})
    ctx.sample({"kind": "tlc-behaviour", "pkg": short, "steps": behs[0]})
    ctx.cov.setdefault("exhaustive_sets", []).extend("%s: %s" % (short, e) for e in exhaustive)
    ctx.cov["trafficcontroller_apply"] = {"behaviours": len(behs), "with_two_successive_changes_of_a_name": chains}
    ctx.log("%s (Apply path): %d behaviours replayed, %d callbacks compared" % (short, len(behs), summ[0]["callbacks"]))


def _atv(ctx):
    short = "trafficcontroller"
    n, steps = (30, 30) if ctx.quick else (200, 40)
    tp = ctx.path("c20_tc_trace.ndjson")
    rc, out = ctx.go_test(TC, "^TestVerifC20ApplyTrace$", env={"VERIF_OUT": tp, "VERIF_N": n, "VERIF_STEPS": steps, "VERIF_NAMES": 3,
                                                               "VERIF_SALT": 0}, timeout=1500)
    ev = ctx.read_ndjson(tp)
    if c20_crash(out):
        ctx.violation({"kind": "crash", "pkg": short}, "a scripted panic in a lifecycle callback was not recovered and killed "
                      "the process (the other objects of the snapshot are never reconciled)", out[-4000:])
        return
    if rc != 0 or not ev:
        ctx.inconclusive("C20 Apply trace harness failed in %s:\n%s" % (TC, out[-3000:]))
    ctx.evals(n)
    if sum(1 for e in ev if e.get("ev") == "cb" and e.get("op") == "inherit") < n:
        ctx.inconclusive("C20: Apply traces with hardly any inherit in %s" % TC)
    rounds = 0
    while ev and rounds < (8 if ctx.quick else 30):
        rounds += 1
        p = ctx.write_ndjson("c20_tc_tv_%d.ndjson" % rounds, ev)
        tr = ctx.tlc_trace("Lifecycle_Trace", trace_cfg(["a", "b", "c"], [], ["G1", "P1"]), p, timeout=1200)
        segs = _segments(ev)
        if tr.accepted:
            ctx.traces(len(segs))
            for s, e in segs:
                if any(x.get("op") in ("inherit", "close") for x in ev[s:e]):
                    ctx.nontrivial({"t": [x.get("snap") for x in ev[s:e] if x.get("ev") == "snap"]})
            ctx.sample({"kind": "recorded-trace", "pkg": short, "events": ev[:10]})
            break
        bad = min(tr.hwm, len(ev) - 1)
        s, e = [(s, e) for s, e in segs if s <= bad < e][0]
        seg = ev[s:bad + 1]
        ctx.traces(len([1 for s2, e2 in segs if e2 <= s]))
        ctx.violation(_trace_sig(seg, TC) if not tr.inv else {"kind": "trace", "pkg": short, "inv": tr.inv},
                      "%s (Apply path): recorded history is not a behaviour of the contract (first unexplained event #%d: %s%s)" % (
                          short, bad + 1, jdump({k: v for k, v in ev[bad].items() if k != "seq"}),
                          ", invariant %s" % tr.inv if tr.inv else ""), seg)
        ev = ev[e:]
    ctx.log("%s: TV of the Apply path: %d histories x %d snapshots, %d TLC round(s)" % (short, n, steps, rounds))


def c20_crash(out):
    return "c20 scripted panic" in out and re.search(r"^panic: ", out, re.M) is not None


# ------------------------------------------------------------------------------------------------
def _segments(ev):
    """split a concatenated trace into (start, end) index ranges, one per reset"""
    starts = [i for i, e in enumerate(ev) if e.get("ev") == "reset"]
    return [(s, (starts[j + 1] if j + 1 < len(starts) else len(ev))) for j, s in enumerate(starts)]


def _trace_sig(seg, pkg):
    """signature of a rejected trace: the first unexplained event and what happened to its name"""
    bad = seg[-1]
    sig = {"kind": "trace", "pkg": pkg.split("/")[-1], "ev": bad.get("ev"), "what": "callbacks" if bad.get("ev") == "cb" else "live",
           "trans": "none", "got": bad.get("op", "")}
    def trans(a, b):
        return ("appear" if a["k"] == "none" else "disappear" if b["k"] == "none" else "update" if a["k"] == b["k"] else "kindchange")

    none = {"k": "none", "v": 0}
    snaps = [e for e in seg if e.get("ev") == "snap"]
    name = bad.get("name")
    if bad.get("ev") == "cb" and name and snaps:
        # (classification only) the most recent snapshot that changed that name to (for Close: away from) the
        # spec the callback was made with
        hist = [none] + [s["snap"].get(name, none) for s in snaps]
        spec = {"k": bad.get("k"), "v": bad.get("v")}
        for i in range(len(hist) - 1, 0, -1):
            if hist[i - 1] != hist[i] and (hist[i - 1] if bad.get("op") == "close" else hist[i]) == spec:
                sig["trans"] = trans(hist[i - 1], hist[i])
                break
    elif bad.get("ev") == "quiet" and snaps:
        # (classification only) a name that changed in the last burst without any callback being made for it
        q = [i for i, e in enumerate(seg[:-1]) if e.get("ev") == "quiet"]
        burst = seg[(q[-1] + 1 if q else 0):]
        before = [e for e in seg[:len(seg) - len(burst)] if e.get("ev") == "snap"]
        for n in sorted(snaps[-1]["snap"]):
            hist = [before[-1]["snap"].get(n, none) if before else none] + [e["snap"].get(n, none) for e in burst if e.get("ev") == "snap"]
            ts = [trans(a, b) for a, b in zip(hist, hist[1:]) if a != b]
            if ts and not any(e.get("ev") == "cb" and e.get("name") == n for e in burst):
                sig["trans"], sig["what"] = ts[0], "callbacks"
                break
    return sig


LONG_Q, LONG_T = (14, 40), (120, 40)      # (histories, snapshots per history) of the long-burst group
CHAN = 10                                   # buffer of ObjectEntityWatcher.eventChan


def _long_burst_coverage(ctx, ev, short):
    """vacuity guard of the long-burst group: bursts in which callbacks were really held back while more snapshots that
    change something than a watcher's channel buffers were handed to the registry"""
    full = sleepy = 0
    burst = []
    last = None
    for e in ev:
        if e.get("ev") == "reset":
            burst, last = [], None
        elif e.get("ev") == "snap":
            burst.append(e["snap"] != last)
            last = e["snap"]
        elif e.get("ev") == "quiet":
            burst = []
        elif e.get("ev") == "gate":
            if e["mode"] == "gated" and e["held"] >= 1 and sum(burst) >= CHAN + 2:
                full += 1
            if e["mode"] == "sleepy" and sum(burst) >= CHAN + 2:
                sleepy += 1
    ctx.cov["%s_long_bursts" % short] = {"gated_with_more_effective_snapshots_than_channel": full, "sleepy": sleepy,
                                         "registry_waited_for_room": sum(1 for e in ev if e.get("ev") == "gate" and e["stagnated"])}
    if full < 3:
        ctx.inconclusive("C20: only %d long bursts with held-back callbacks in %s: the slow-watcher class is not exercised" % (full, short))
    ctx.nontrivial({"p": short, "long-bursts": full})


def _empty_coverage(ctx, ev, short, gname):
    """vacuity guard of the empty-configuration class: snapshots without any object that made at least one live name
    disappear and were followed, before the next barrier, by a snapshot with objects (so that the registry gets the empty
    configuration and nothing else in between)"""
    hits = total = 0
    prev = None
    pending = False
    for e in ev:
        if e.get("ev") == "reset":
            prev, pending = None, False
        elif e.get("ev") == "snap":
            empty = all(o["k"] == "none" for o in e["snap"].values())
            had = prev is not None and any(o["k"] != "none" for o in prev.values())
            if empty and had:
                total += 1
                pending = True
            elif not empty and pending:
                hits += 1
                pending = False
            prev = e["snap"]
        elif e.get("ev") == "quiet":
            pending = False
    ctx.cov.setdefault("%s_empty_configurations" % short, {})[gname] = {"last_objects_disappear": total, "followed_within_burst": hits}
    if hits < 2:
        ctx.inconclusive("C20: only %d histories of %s / %s pass through the empty configuration inside a burst" % (hits, short, gname))
    ctx.nontrivial({"p": short, "g": gname, "through-empty": hits})


def _startup_coverage(ctx, ev, short, n):
    """vacuity guard of the start-up group: histories in which a watcher was registered (NewWatcher ran its filter over a
    non-empty registry) while further snapshots were waiting at the syncer channel"""
    notes = [e for e in ev if e.get("ev") == "note"]
    inw = [e for e in notes if e["site"].startswith("NewWatcher<-")]
    sites = {}
    for e in notes:
        c = sites.setdefault(e["site"], {"pauses": 0, "registry_got_on": 0, "registry_stood_still": 0})
        c["pauses"] += 1
        if e["taken"] >= 2:
            c["registry_got_on"] += 1        # a snapshot was applied completely while the caller was in its pause point
        elif e["stagnated"]:
            c["registry_stood_still"] += 1   # ... the caller held the registry's lock
    ctx.cov["%s_startup" % short] = {"histories": n, "sites": sites}
    if len(inw) < max(3, n // 3):
        ctx.inconclusive("C20: only %d of %d start-up histories of %s had a watcher registered over a non-empty registry while "
                         "snapshots were waiting: the start-up class is not exercised" % (len(inw), n, short))
    ctx.nontrivial({"p": short, "startups-with-registration-under-load": len(inw)})


def _tv(ctx, pkg, which):
    long_bursts = which == "long"
    short = pkg.split("/")[-1]
    sup = pkg == SUP
    biz, gate = (["K1", "K2"], []) if sup else (["K1", "K2"], ["G1", "P1"])
    # group A: the kind of a live name never changes; group B: arbitrary histories
    # group C: long bursts (14..32 snapshots back to back) while the handler goroutines are kept busy by gated / slow
    # callbacks, so that many more events are outstanding than a watcher's event channel buffers
    # group D: the first burst (5..8 snapshots) is pushed while the supervisor is being created
    groups = [("same-kind", 0, 0, (10, 20) if ctx.quick else (100, 30), "std"), ("kind-changes", 1, 0, (10, 20) if ctx.quick else (60, 30), "std"),
              ("long-bursts", 1, 1, (LONG_Q if ctx.quick else LONG_T), "long"),
              ("start-up", 1, 0, ((16, 14) if ctx.quick else (160, 20)), "startup")]
    last_group = False
    if which != "std":
        rc, out = ctx.go_test(pkg, "^TestVerifC20Build$")
        if rc != 0:
            ctx.inconclusive("C20 harness does not run in %s:\n%s" % (pkg, out[-3000:]))
    for gname, kc, lb, (n, steps), _w in [g for g in groups if g[4] == which]:
        if last_group:
            break
        su = 1 if which == "startup" else 0
        salt = kc + 2 * lb + 4 * su
        tp = ctx.path("c20_%s_trace_%d.ndjson" % (short, salt))
        for attempt in (1, 2):
            rc, out = ctx.go_test(pkg, "^TestVerifC20Trace$", env={"VERIF_OUT": tp, "VERIF_N": n, "VERIF_STEPS": steps, "VERIF_NAMES": 3,
                                                                  "VERIF_KINDCHANGE": kc, "VERIF_SALT": salt,
                                                                  "VERIF_LONGBURST": lb, "VERIF_STARTUP": su}, timeout=1500)
            ev = ctx.read_ndjson(tp)
            if any(e.get("ev") == "starved" for e in ev):
                ctx.inconclusive("C20: the harness process of %s did not get CPU time for 30 s (overloaded machine); no observation" % pkg)
            if not any(e.get("ev") == "stall" for e in ev):
                break           # a stall is only reported when it reproduces
        if c20_crash(out):
            ctx.violation({"kind": "crash", "pkg": short}, "a scripted panic in a lifecycle callback was not recovered and killed "
                          "the process (the other objects of the snapshot are never reconciled)", out[-4000:])
            return
        if rc != 0 or not ev:
            ctx.inconclusive("C20 trace harness failed in %s:\n%s" % (pkg, out[-3000:]))
        if any(e.get("ev") == "stall" for e in ev):
            ctx.violation({"kind": "stall", "pkg": short}, "a snapshot was not reconciled within 30 s (twice): barrier object never inherited",
                          ev[-30:])
            ev = [e for e in ev if e.get("ev") != "stall"]
            last_group = True       # every further history would only time out again
        ctx.evals(n)
        if sum(1 for e in ev if e.get("ev") == "cb") == 0 and not last_group:
            ctx.inconclusive("C20: trace without callbacks in %s" % pkg)
        if lb and not last_group:
            _long_burst_coverage(ctx, ev, short)
        if su and not last_group:
            _startup_coverage(ctx, ev, short, n)
        if not last_group:
            _empty_coverage(ctx, ev, short, gname)
        # validate; a rejected history is reported, cut out, and the rest validated again
        rounds = 0
        while ev and rounds < (8 if ctx.quick else 30):
            rounds += 1
            p = ctx.write_ndjson("c20_%s_tv_%d_%d.ndjson" % (short, salt, rounds), ev)
            # (long bursts, start-up: every new spec of a name has a fresh version, at most one per snapshot)
            tr = ctx.tlc_trace("Lifecycle_Trace", trace_cfg(["a", "b", "c"], biz, gate, range(1, steps + 2) if lb or su else (1, 2, 3)), p,
                               timeout=1200)
            segs = _segments(ev)
            if tr.accepted:
                ctx.traces(len(segs))
                for s, e in segs:
                    if any(x.get("op") in ("inherit", "close") for x in ev[s:e]):
                        ctx.nontrivial({"t": [x.get("snap") for x in ev[s:e] if x.get("ev") == "snap"]})
                ctx.sample({"kind": "recorded-trace", "pkg": short, "events": ev[:10]})
                break
            bad = min(tr.hwm, len(ev) - 1)
            s, e = [(s, e) for s, e in segs if s <= bad < e][0]
            seg = ev[s:bad + 1]
            ctx.traces(len([1 for s2, e2 in segs if e2 <= s]))
            ctx.violation(_trace_sig(seg, pkg) if not tr.inv else {"kind": "trace", "pkg": short, "inv": tr.inv},
                          "%s: recorded history is not a behaviour of the contract (first unexplained event #%d: %s%s)" % (
                              short, bad + 1, jdump({k: v for k, v in ev[bad].items() if k != "seq"}),
                              ", invariant %s" % tr.inv if tr.inv else ""), seg)
            ev = ev[e:]
        ctx.log("%s: TV group %s: %d histories x %d snapshots, %d TLC round(s)" % (short, gname, n, steps, rounds))

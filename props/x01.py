"""X01 (growth item, DESIGN 9.2) - HTTPServer runtime FSM: model checked, TLC behaviours replayed on a real
HTTPServer object, observations validated by TLC against the model. Not one of the listed properties."""
from lib.vlib import jdump

PKG = "pkg/object/httpserver"
CONSTS = "CONSTANTS\n  Ports = {1, 2}\n  Opts = {0, 1}\n  Rules = {1, 2}\n  Caps = {1, 2}\n  MaxOps = %d\n"
PROPS = ("INVARIANTS TypeOK RunningListens FailedSilent NeverOnBusy MuxFollows\n"
         "PROPERTIES HotReloadKeepsListener StaleServeFailedIgnored NoSpuriousUnbind\n")
TRACE_CFG = "SPECIFICATION TSpec\n" + (CONSTS % 100000) + "CONSTRAINT HWM\nPOSTCONDITION Accepted\n" + PROPS


def _apalache(ctx):
    """thorough extra: Apalache discharges the inductive invariant of the runtime FSM for an unbounded number of operations"""
    import subprocess, tempfile, shutil, os
    wd = tempfile.mkdtemp(prefix="apalache-", dir=ctx.scratch)
    shutil.copy(os.path.join(ctx.specdir, "HttpServerRuntimeInd.tla"), wd)
    res = []
    for init, inv, ln in (("Init", "IndInv", 0), ("IndInit", "IndInv", 1), ("IndInit", "Claims", 0)):
        try:
            p = subprocess.run(["apalache-mc", "check", "--init=" + init, "--inv=" + inv, "--length=%d" % ln, "HttpServerRuntimeInd.tla"], cwd=wd, capture_output=True, text=True, timeout=600)
            out = p.stdout + p.stderr
            r = "ok" if "The outcome is: NoError" in out else ("counterexample" if "The outcome is: Error" in out else "failed")
        except Exception as e:
            r = "failed (%s)" % type(e).__name__
        res.append("%s=>%s@%d %s" % (init, inv, ln, r))
        if r == "counterexample":
            ctx.inconclusive("Apalache refutes the inductive invariant of HttpServerRuntimeInd (%s, %s)" % (init, inv))
    ctx.notes.append("apalache (runtime FSM invariants for an unbounded number of operations): " + "; ".join(res))
    ctx.log("apalache: " + "; ".join(res))


def run(ctx):
    if not ctx.quick:
        _apalache(ctx)
    ctx.cov["rule"] = ("behaviours = TLC -simulate runs of HttpServerRuntime (reload / occupy / free / serve-failed / check-failed / close), "
                       "each replayed on a real HTTPServer object on loopback ports; the observed (state, answering port, routed rules generation, "
                       "survival of an established connection) after every step is validated by TLC; non-trivial = behaviours with a restart or a failure")
    r = ctx.tlc_mc("HttpServerRuntime_Gen", "SPECIFICATION GSpec\n" + (CONSTS % (5 if ctx.quick else 7)) + "VIEW view\n" + PROPS,
                   label="runtime FSM")
    ctx.log("runtime FSM model checked: %d distinct states" % r.distinct)
    nb = 30 if ctx.quick else 300
    behs = ctx.tlc_simulate("HttpServerRuntime_Gen", "SPECIFICATION GSpec\n" + (CONSTS % 12), num=nb, depth=13)
    inp = ctx.path("x01_behs.ndjson")
    with open(inp, "w") as fh:
        for b in behs:
            fh.write(jdump(b) + "\n")
    for attempt in (1, 2):
        tp = ctx.path("x01_trace_%d.ndjson" % attempt)
        rc, out = ctx.go_test(PKG, "^TestVerifX01Replay$", env={"VERIF_IN": inp, "VERIF_OUT": tp}, timeout=1200)
        ev = ctx.read_ndjson(tp)
        if rc != 0 or not ev:
            ctx.inconclusive("X01 harness failed:\n" + out[-3000:])
        tr = ctx.tlc_trace("HttpServerRuntime_Trace", TRACE_CFG, tp)
        if tr.accepted:
            break
        ctx.log("trace rejected at event %d (attempt %d): %s" % (tr.hwm + 1, attempt, jdump(ev[min(tr.hwm, len(ev) - 1)])[:300]))
    ctx.evals(len(behs))
    if tr.accepted:
        ctx.traces(len(behs))
        for b in behs:
            if any(s.get("a") in ("servefailed", "checkfailed") or (s.get("a") == "reload" and not s.get("same")) for s in b[1:]):
                ctx.nontrivial({"b": b})
        ctx.sample({"kind": "replayed-behaviour", "events": ev[:6]})
    else:
        end = min(tr.hwm + 1, len(ev))
        start = max(i for i in range(end) if ev[i].get("ev") == "reset")
        ctx.violation({"kind": "runtime-fsm", "ev": ev[end - 1].get("ev"), "inv": tr.inv or "rejected"},
                      "real HTTPServer runtime leaves the FSM model at event #%d (%s), twice in a row" % (tr.hwm + 1, tr.inv or "observation differs"),
                      ev[start:end])

"""X02 (growth item, DESIGN 9.3) - Proxy memory cache: what may be served from the cache. Not a listed property."""
from lib.vlib import jdump

PKG = "pkg/filters/proxy"
CONSTS = 'CONSTANTS\n  CMethods = {"GET"}\n  CCodes = {200, 404}\n  MaxBytes = 5\n  Expire = 1\n  MaxSteps = %d\n'
PROPS = "INVARIANTS StoredOnlyIfEligible\nPROPERTIES HitOnlyIfAllowed\n"


def run(ctx):
    ctx.cov["rule"] = ("behaviours = TLC -simulate runs of ProxyMemoryCache (request x scripted backend answer sequences, expiry ticks) replayed "
                       "on a real Proxy filter with memoryCache in front of a loopback backend; compared after every request: served from cache?, "
                       "status, identity of the body; non-trivial = behaviours with at least one cache hit")
    r = ctx.tlc_mc("ProxyMemoryCache_Gen", "SPECIFICATION GSpec\n" + (CONSTS % 3) + "VIEW view\n" + PROPS, label="memory cache, 3 steps")
    # the ideal 'a cached response answers the same query' is expected to FAIL on the implementation-shaped key (finding X02-query)
    q = ctx.tlc_mc("ProxyMemoryCache_Gen", "SPECIFICATION GSpec\n" + (CONSTS % 2) + "VIEW view\nPROPERTIES HitSameQuery\n",
                   expect_ok=False, count=False, label="HitSameQuery on the code's key (expected to fail)")
    ctx.cov["model_says_query_ignored"] = (q.violated == "HitSameQuery")
    nb = 150 if ctx.quick else 1500
    behs = ctx.tlc_simulate("ProxyMemoryCache_Gen", "SPECIFICATION GSpec\n" + (CONSTS % 8), num=nb, depth=9)
    inp = ctx.path("x02_behs.ndjson")
    with open(inp, "w") as fh:
        for b in behs:
            fh.write(jdump(b) + "\n")
    outp = ctx.path("x02_out.ndjson")
    rc, out = ctx.go_test(PKG, "^TestVerifX02Replay$", env={"VERIF_IN": inp, "VERIF_OUT": outp}, timeout=1500)
    recs = ctx.read_ndjson(outp)
    summ = [x for x in recs if x.get("k") == "summary"]
    if rc != 0 or not summ:
        ctx.inconclusive("X02 harness failed:\n" + out[-3000:])
    ctx.evals(len(behs))
    ctx.traces(len(behs) - summ[0]["skipped"])
    hits = [x for x in recs if x.get("k") == "hit"]
    for h in hits:
        ctx.nontrivial("beh%d" % h["beh"])
    if len(hits) < 10:
        ctx.inconclusive("X02: fewer than 10 cache hits replayed (vacuous)")
    ctx.cov["cache_hits_replayed"] = len(hits)
    ctx.sample({"kind": "replayed-behaviour", "steps": behs[0][:5]})
    for m in [x for x in recs if x.get("k") == "mismatch"]:
        ctx.violation({"kind": "memcache-replay", "what": m["what"].split(",")[0]},
                      "real Proxy memory cache diverges from the model at step %d: %s" % (m["step"], m["what"]), m)
    # the query-blind key: reproduced on the real code whenever a hit was served for another query
    for h in hits:
        if not h["sameQuery"]:
            ctx.violation({"kind": "memcache-query", "req_q": h["req"]["q"], "from_q": h["from"]["q"]},
                          "a response cached for query %r was served for query %r of the same path" % (h["from"]["q"], h["req"]["q"]), h)
            break

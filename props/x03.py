"""X03 (growth item, DESIGN 9.1) - the request path composed from the subsystem contracts (specs/Easegress.tla),
validated end to end against a real mux + Pipeline (Validator -> RateLimiter -> Proxy with Retry and CircuitBreaker)."""
from lib.vlib import jdump

PKG = "pkg/object/httpserver"
CONSTS = "CONSTANTS\n  Limit = %d\n  MaxAttempts = 2\n  CBPolicy <- X03Policy\n  MaxReqs = %d\n"
PROPS = ("INVARIANTS TypeOK ShortCircuitReachesNoBackend OneRecordPerAdmitted RoundRobin StopsAtSuccess\n"
         "PROPERTIES EarlyRefusalTouchesNothing LimitedReachesNoBackend\n")


def run(ctx):
    ctx.cov["rule"] = ("behaviours = TLC -simulate runs of Easegress.tla (sequences of requests: client class x path x credential x backend script); "
                       "each sequence is sent over HTTP through a real mux and pipeline with two real backends; (status, backends contacted in order) of "
                       "every request validated by TLC against the composed model; non-trivial = sequences in which a request was limited or short-circuited")
    limit = 3
    r = ctx.tlc_mc("Easegress_Gen", "SPECIFICATION GSpec\n" + (CONSTS % (limit, 4 if ctx.quick else 6)) + "VIEW gview\n" + PROPS,
                   label="request path composition")
    ctx.log("composition model checked: %d distinct states" % r.distinct)
    nb = 60 if ctx.quick else 600
    behs = ctx.tlc_simulate("Easegress_Gen", "SPECIFICATION GSpec\n" + (CONSTS % (limit, 12)), num=nb, depth=70)
    inp = ctx.path("x03_behs.ndjson")
    with open(inp, "w") as fh:
        for b in behs:
            fh.write(jdump(b) + "\n")
    tp = ctx.path("x03_trace.ndjson")
    rc, out = ctx.go_test(PKG, "^TestVerifX03Path$", env={"VERIF_IN": inp, "VERIF_OUT": tp, "VERIF_LIMIT": limit}, timeout=1200)
    ev = ctx.read_ndjson(tp)
    if rc != 0 or not ev:
        ctx.inconclusive("X03 harness failed:\n" + out[-3000:])
    tr = ctx.tlc_trace("Easegress_Trace", "SPECIFICATION TSpec\n" + (CONSTS % (limit, 1000000)).replace("CBPolicy <- X03Policy", "CBPolicy <- X03Policy")
                       + "CONSTRAINT HWM\nPOSTCONDITION Accepted\n" + PROPS, tp)
    ctx.evals(len(behs))
    statuses = {}
    for e in ev:
        if e.get("ev") == "resp":
            statuses[e["status"]] = statuses.get(e["status"], 0) + 1
    ctx.cov["status_histogram"] = statuses
    if tr.accepted:
        ctx.traces(len(behs))
        for b in behs:
            if any(s.get("pc") == "done" and s.get("status") in (429, 503) and s.get("req", {}).get("path") == "/svc" for s in b[1:]):
                ctx.nontrivial({"b": [s.get("req") for s in b if s.get("pc") == "filter"]})
        ctx.sample({"kind": "end-to-end trace", "events": ev[:7]})
        if not (statuses.get(429) and statuses.get(503) and statuses.get(200) and statuses.get(403) and statuses.get(400)):
            ctx.inconclusive("X03: some outcome class never observed: %s" % statuses)
    else:
        end = min(tr.hwm + 1, len(ev))
        start = max(i for i in range(end) if ev[i].get("ev") == "reset")
        ctx.violation({"kind": "request-path", "ev": ev[end - 1].get("ev"), "inv": tr.inv or "rejected", "status": ev[end - 1].get("status")},
                      "end-to-end behaviour of mux + pipeline differs from the composed model at event #%d (%s)" % (tr.hwm + 1, jdump(ev[end - 1])[:200]),
                      ev[start:end])

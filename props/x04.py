"""X04 (growth item, DESIGN 9.5) - the custom-data store as a sequential object (specs/CustomData.tla), replayed in
lock-step on a real Store over an embedded etcd. Not a listed property."""
from lib.vlib import jdump

PKG = "pkg/cluster/customdata"
PROPS = "INVARIANTS UniqueIds IdIsField\nPROPERTIES FailedIsNoop OnlyKnownKindsGrow\n"


def run(ctx):
    ctx.cov["rule"] = ("behaviours = TLC -simulate operation sequences over PutKind / DeleteKind / PutData / DeleteData / BatchUpdateData, replayed on a real "
                       "customdata.Store over an embedded etcd; reply and complete content (ListKinds, ListData) compared with the model after every operation; "
                       "non-trivial = sequences containing a batch update or an operation on a deleted kind")
    r = ctx.tlc_mc("CustomData_Gen", "SPECIFICATION GSpec\nCONSTANTS MaxOps = %d\nVIEW view\n" % (3 if ctx.quick else 4) + PROPS, label="custom-data store", timeout=1500)
    ctx.log("custom-data model checked: %d distinct states" % r.distinct)
    nb = 150 if ctx.quick else 1500
    behs = ctx.tlc_simulate("CustomData_Gen", "SPECIFICATION GSpec\nCONSTANTS MaxOps = 14\n", num=nb, depth=15)
    inp = ctx.path("x04_behs.ndjson")
    with open(inp, "w") as fh:
        for b in behs:
            fh.write(jdump(b) + "\n")
    outp = ctx.path("x04_out.ndjson")
    rc, out = ctx.go_test(PKG, "^TestVerifX04Replay$", env={"VERIF_IN": inp, "VERIF_OUT": outp}, timeout=1500)
    recs = ctx.read_ndjson(outp)
    summ = [x for x in recs if x.get("k") == "summary"]
    if rc != 0 or not summ:
        ctx.inconclusive("X04 harness failed:\n" + out[-3000:])
    ctx.evals(len(behs))
    ctx.traces(len(behs))
    for b in behs:
        if any(s.get("step", {}).get("a") == "batch" and s["step"]["ok"] for s in b[1:]):
            ctx.nontrivial({"b": [s["step"] for s in b[1:]]})
    ctx.sample({"kind": "replayed-behaviour", "steps": [s["step"] for s in behs[0][1:6]]})
    for m in [x for x in recs if x.get("k") == "mismatch"]:
        ctx.violation({"kind": "customdata-replay", "op": m["op"], "what": m["what"].split(":")[0]},
                      "real customdata.Store diverges from the model at step %d: %s" % (m["step"], m["what"][:300]), m)

"""X05 (growth item) - the Proxy filter's mirror pool together with the Mock and Fallback filters. Not a listed property.

(a) specs/MirrorPool*.tla: one client request through Proxy.Handle as two threads of control (pipeline goroutine, mirror
    goroutine); contract = MirrorFaithful, OnlyMatchedMirrored, AtMostOnce, MainFaithful, ClientIndependent, NoCrash,
    FireAndForget, NoLeak, Delivered; negative controls CaptureLate / ~StreamGuard / WaitMirror refuted by TLC.
    Bound to the code twice: lock-step replay of TLC behaviours on a real Proxy with a gated transport, and TLC trace
    validation of concurrent requests over a real http.Client and loopback backends.
(b) specs/MockFilter*.tla, (c) specs/FallbackFilter*.tla: decision tables, replayed on real Mock / Fallback objects.
"""
import concurrent.futures as cf

from lib.vlib import jdump

PKG = "pkg/filters/proxy"

MIRROR_CONST = ("CONSTANTS\n  CaptureLate = %s\n  StreamGuard = %s\n  WaitMirror = %s\n  NextKinds = {%s}\n")
MIRROR_INV = ("INVARIANTS TypeOK MirrorFaithful OnlyMatchedMirrored AtMostOnce MainFaithful ClientIndependent NoCrash "
              "FireAndForget NoLeak Delivered\n")
NK_ALL = '"end", "otherNs", "emptyNs"'
NK_GEN = '"end", "otherNs"'          # the harness never replays the crash schedule (it would end the test process)

MOCK_CONST = 'CONSTANTS\n  MaxRules = %d\n  MaxReqs = %d\n  FirstWins = %s\n  CompileRegex = %s\n  Pool = "%s"\n  Cancels = %s\n'
MOCK_INV = "INVARIANTS FirstMatchWins NoneMeansNone MockedIffMatched AnswerIsTheRules LoopIsDeclarative AsDocumented\n"
BOTH = "{FALSE, TRUE}"
FB_CONST = "CONSTANTS\n  MaxReqs = %d\n  KeepOrig = %s\n"
FB_INV = "INVARIANTS ResultDocumented StatusIsMock BodyIsMock MockHeadersSet OrigHeadersKept StreamClosed\n"


def mirror_cfg(late="FALSE", guard="TRUE", wait="FALSE", nk=NK_ALL, inv=MIRROR_INV, spec="Spec", view="view"):
    return "SPECIFICATION %s\n" % spec + MIRROR_CONST % (late, guard, wait, nk) + ("VIEW %s\n" % view if view else "") + inv


def model_checking(ctx):
    """All TLC exhaustive runs, a few at a time (each is small; the JVM start dominates)."""
    two = "tiny" if ctx.quick else "small"
    jobs = [
        # name, module, cfg, must hold?, expected violated invariant
        ("mirror contract", "MirrorPool", mirror_cfg(), True, None),
        ("mirror: request bound late (code's shape) refuted", "MirrorPool", mirror_cfg(late="TRUE", inv="INVARIANTS MirrorFaithful\n"), False, "MirrorFaithful"),
        ("mirror: late binding can crash", "MirrorPool", mirror_cfg(late="TRUE", inv="INVARIANTS NoCrash\n"), False, "NoCrash"),
        ("mirror: late binding breaks nothing else", "MirrorPool",
         mirror_cfg(late="TRUE", inv="INVARIANTS TypeOK OnlyMatchedMirrored AtMostOnce MainFaithful ClientIndependent FireAndForget NoLeak\n"), True, None),
        ("mirror: shared stream refuted", "MirrorPool", mirror_cfg(guard="FALSE", inv="INVARIANTS MainFaithful\n"), False, "MainFaithful"),
        ("mirror: waiting for the mirror refuted", "MirrorPool", mirror_cfg(wait="TRUE", inv="INVARIANTS FireAndForget\n"), False, "FireAndForget"),
        ("mirror vacuity: late schedule reachable", "MirrorPool", mirror_cfg(inv="INVARIANTS NeverLate\n"), False, "NeverLate"),
        ("mirror vacuity: aborted send reachable", "MirrorPool", mirror_cfg(inv="INVARIANTS NeverAborted\n"), False, "NeverAborted"),
        ("mirror vacuity: reply while mirror pending reachable", "MirrorPool", mirror_cfg(inv="INVARIANTS NeverHeldAtRet\n"), False, "NeverHeldAtRet"),
        ("mock: one rule, full universe", "MockFilter", "SPECIFICATION Spec\n" + MOCK_CONST % (1, 1, "TRUE", "TRUE", "full", BOTH) + "VIEW view\n" + MOCK_INV, True, None),
        ("mock: two rules", "MockFilter", "SPECIFICATION Spec\n" + MOCK_CONST % (2, 1, "TRUE", "TRUE", two, "{FALSE}") + "VIEW view\n" + MOCK_INV, True, None),
        ("mock: last match wins refuted", "MockFilter", "SPECIFICATION Spec\n" + MOCK_CONST % (2, 1, "FALSE", "TRUE", "tiny", "{FALSE}") + "VIEW view\nINVARIANTS FirstMatchWins\n", False, "FirstMatchWins"),
        ("mock: uncompiled regex (code's shape) refuted", "MockFilter", "SPECIFICATION Spec\n" + MOCK_CONST % (1, 1, "TRUE", "FALSE", "full", "{FALSE}") + "VIEW view\nINVARIANTS AsDocumented\n", False, "AsDocumented"),
        ("mock: uncompiled regex keeps the rest", "MockFilter",
         "SPECIFICATION Spec\n" + MOCK_CONST % (1 if ctx.quick else 2, 1, "TRUE", "FALSE", "tiny", "{FALSE}") + "VIEW view\nINVARIANTS FirstMatchWins NoneMeansNone MockedIffMatched AnswerIsTheRules LoopIsDeclarative\n", True, None),
        ("mock vacuity: second rule fires", "MockFilter", "SPECIFICATION Spec\n" + MOCK_CONST % (2, 1, "TRUE", "TRUE", "tiny", "{FALSE}") + "VIEW view\nINVARIANTS NeverSecond\n", False, "NeverSecond"),
        ("mock vacuity: regex decides", "MockFilter", "SPECIFICATION Spec\n" + MOCK_CONST % (1, 1, "TRUE", "TRUE", "full", "{FALSE}") + "VIEW view\nINVARIANTS NeverRegex\n", False, "NeverRegex"),
        ("mock vacuity: no rule / delay", "MockFilter", "SPECIFICATION Spec\n" + MOCK_CONST % (1, 1, "TRUE", "TRUE", "tiny", BOTH) + "VIEW view\nINVARIANTS NeverNone\n", False, "NeverNone"),
        ("mock vacuity: delay", "MockFilter", "SPECIFICATION Spec\n" + MOCK_CONST % (1, 1, "TRUE", "TRUE", "tiny", BOTH) + "VIEW view\nINVARIANTS NeverWaits\n", False, "NeverWaits"),
        ("fallback contract", "FallbackFilter", "SPECIFICATION Spec\n" + FB_CONST % (2, "TRUE") + "VIEW view\n" + FB_INV, True, None),
        ("fallback: header map replaced refuted", "FallbackFilter", "SPECIFICATION Spec\n" + FB_CONST % (2, "FALSE") + "VIEW view\nINVARIANTS OrigHeadersKept\n", False, "OrigHeadersKept"),
    ]

    if ctx.quick:
        # the quick tier leaves the reachability ("vacuity") runs and the secondary controls to the thorough tier: the replay
        # phases guard the same situations on the generated behaviours (late schedules, aborted sends, second rule, delay ...)
        keep = ("mirror contract", "mirror: request bound late (code's shape) refuted", "mirror: shared stream refuted",
                "mirror: waiting for the mirror refuted", "mock: one rule, full universe", "mock: two rules", "mock: last match wins refuted",
                "mock: uncompiled regex (code's shape) refuted", "fallback contract", "fallback: header map replaced refuted")
        jobs = [j for j in jobs if j[0] in keep]

    def one(j):
        name, mod, cfg, hold, _ = j
        return ctx.tlc_mc(mod, cfg, workers=4, timeout=1500, expect_ok=False, count=False, coverage=(name in ("mirror contract", "fallback contract")), label=name)

    with cf.ThreadPoolExecutor(max_workers=4) as ex:
        res = list(ex.map(one, jobs))
    for (name, mod, _cfg, hold, want), r in zip(jobs, res):
        if hold and not r.ok:
            ctx.inconclusive("TLC did not verify %s (%s): %s\n%s" % (mod, name, r.error, r.out[-2500:]))
        if not hold and r.violated != want:
            ctx.inconclusive("negative control / vacuity run %r of %s: expected %s to be refuted, got ok=%s violated=%s\n%s"
                             % (name, mod, want, r.ok, r.violated, r.out[-1500:]))
        if r.coverage_zero:
            ctx.inconclusive("%s: actions never taken: %s" % (name, r.coverage_zero))
        if hold:
            ctx.cov["states"] += r.distinct
            ctx.cov["transitions"] += r.generated
    ctx.cov["model_says_code_shape_refuted"] = {"mirror_late_binding": True, "mock_uncompiled_regex": True}
    ctx.log("model checking: %d runs, %d distinct states in the runs that must hold" % (len(jobs), ctx.cov["states"]))


def write_behs(ctx, name, behs):
    p = ctx.path(name)
    with open(p, "w") as fh:
        for b in behs:
            fh.write(jdump(b) + "\n")
    return p


def mirror_replay(ctx):
    n_gen, n_match, n_late = (60, 110, 50) if ctx.quick else (500, 1200, 400)
    gen = mirror_cfg(nk=NK_GEN, inv="", spec="GSpec", view=None)
    with cf.ThreadPoolExecutor(max_workers=3) as ex:
        f1 = ex.submit(ctx.tlc_simulate, "MirrorPool_Gen", gen, n_gen, 14, 900, ctx.seed)
        f2 = ex.submit(ctx.tlc_simulate, "MirrorPool_Gen", gen + "CONSTRAINT GenMatched\n", n_match, 14, 900, ctx.seed + 1000)
        f3 = ex.submit(ctx.tlc_simulate, "MirrorPool_Gen", gen + "CONSTRAINT GenMatched\nACTION_CONSTRAINT GenLate\n", n_late, 14, 900, ctx.seed + 2000)
        behs = f1.result() + f2.result() + f3.result()
    # only complete behaviours (the request has ended and the mirror goroutine is gone)
    behs = [b for b in behs if b[-1].get("obs", {}).get("cancelled") and b[-1]["obs"]["pcM"] in ("none", "done")]
    if len(behs) < (n_gen + n_match + n_late) * 0.9:
        ctx.inconclusive("X05: TLC produced too few complete mirror behaviours (%d)" % len(behs))
    inp = write_behs(ctx, "x05_mirror_behs.ndjson", behs)
    outp = ctx.path("x05_mirror_out.ndjson")
    rc, out = ctx.go_test(PKG, "^TestVerifX05MirrorReplay$", env={"VERIF_IN": inp, "VERIF_OUT": outp}, timeout=1500)
    recs = ctx.read_ndjson(outp)
    summ = [x for x in recs if x.get("k") == "summary"]
    if rc != 0 or not summ:
        ctx.inconclusive("X05 mirror replay harness failed:\n" + out[-3000:])
    s = summ[0]
    ctx.evals(len(behs))
    ctx.traces(len(behs))
    ctx.cov["mirror_replay"] = {k: s[k] for k in ("behaviours", "steps", "late", "lateDelivered", "stuck")}
    for b in behs:
        steps = [x["a"] for x in b[1:]]
        if "msend" in steps:
            ctx.nontrivial({"orig": b[0]["orig"], "cfg": b[0]["cfg"], "steps": steps})
    ctx.sample({"kind": "mirror behaviour", "orig": behs[0][0]["orig"], "cfg": behs[0][0]["cfg"], "steps": [x["a"] for x in behs[0][1:]]})
    mism = [x for x in recs if x.get("k") == "mismatch"]
    for m in mism:
        if m["kind"] == "stuck":
            continue
        ctx.violation({"kind": "mirror-replay", "what": m["kind"], "sched": "late" if m["late"] else "gated",
                       "next": m["cfg"]["next"], "mirB": m["cfg"]["mirB"] if m["kind"] in ("leak", "blocked") else "*"},
                      "real Proxy with a mirror pool diverges from the model: %s" % m["what"][:400], m)
    if s["stuck"]:
        ctx.defer_inconclusive("X05: %d mirror behaviours wedged at a barrier: %s" % (s["stuck"], [m["what"] for m in mism if m["kind"] == "stuck"][:2]))
    # vacuity: every mirror-backend behaviour seen with a delivered request, every outcome class observed
    seen = s["classes"]
    need = ["mir=%s/" % b for b in ("ok", "e500", "slow", "never", "broken", "refused")]
    missing = [n for n in need if not any(k.startswith(n) and ("recv1" in k or n.startswith("mir=refused")) for k in seen)]
    for frag in ("/cancelled/", "/aborted/", "/answered/", "/refused/", "main=refused", "main=e500", "main=ok", "late=true/recv1", "late=false/recv1",
                 "body=stream/recv1", "body=big/recv1", "body=empty/recv1", "body=small/recv1"):
        if not any(frag in k for k in seen):
            missing.append(frag)
    if missing and not mism:
        ctx.inconclusive("X05: mirror replay never exercised %s" % missing)
    if s["late"] < 5 and not mism:
        ctx.inconclusive("X05: fewer than 5 late-binding schedules replayed")


def mirror_tv(ctx):
    tp = ctx.path("x05_tv.ndjson")
    rc, out = ctx.go_test(PKG, "^TestVerifX05MirrorTV$", env={"VERIF_OUT": tp}, timeout=1500)
    ev = ctx.read_ndjson(tp)
    if rc != 0 or not ev:
        ctx.inconclusive("X05 mirror TV harness failed:\n" + out[-3000:])
    if any(e["ev"] == "stuck" for e in ev) or ev[-1]["ev"] != "end":
        ctx.defer_inconclusive("X05 mirror TV: quiescence barrier not reached: %s" % [e for e in ev if e["ev"] == "stuck"])
        return
    ev.sort(key=lambda e: e["seq"])
    ctx.write_ndjson("x05_tv_sorted.ndjson", ev)
    tr = ctx.tlc_trace("MirrorPool_Trace", "SPECIFICATION TSpec\nCONSTRAINT HWM\nPOSTCONDITION Accepted\n", ctx.path("x05_tv_sorted.ndjson"))
    nreq = sum(1 for e in ev if e["ev"] == "req")
    nmir = sum(1 for e in ev if e["ev"] == "mirrecv")
    ctx.evals(nreq)
    ctx.cov["mirror_tv"] = {"requests": nreq, "mirrored": nmir, "events": len(ev)}
    if tr.accepted:
        ctx.traces(1)
        byid = {}
        for e in ev:
            if "id" in e:
                byid.setdefault(e["id"], []).append(e["ev"])
        for i, seq in byid.items():
            if "mirrecv" in seq and seq.index("mirrecv") > seq.index("resp"):
                ctx.nontrivial("tv-mirror-after-resp-%d" % i)
        if nmir < 10:
            ctx.inconclusive("X05 mirror TV: fewer than 10 mirrored requests")
        ctx.sample({"kind": "tv events", "events": [{k: v for k, v in e.items() if k != "seq"} for e in ev[1:5]]})
    else:
        e = ev[min(tr.hwm, len(ev) - 1)]
        rid = e.get("id")
        hist = [x for x in ev[:tr.hwm + 1] if x.get("id") == rid] if rid is not None else ev[-3:]
        rq = next((x for x in hist if x["ev"] == "req"), {})
        ctx.violation({"kind": "mirror-tv", "ev": e["ev"], "mirB": rq.get("cfg", {}).get("mirB", "*"), "body": rq.get("orig", {}).get("body", "*")},
                      "concurrent requests over the real network: event #%d is not allowed by the mirror-pool contract: %s" % (tr.hwm + 1, jdump(e)[:300]), hist)


def expected_rule_has_regex(m):
    h = m["handle"]
    if h["rule"] <= 0:
        return False
    r = m["rules"][h["rule"] - 1]
    return r["xa"]["regex"] != "" or r["xb"]["regex"] != ""


def mock_fallback_replay(ctx):
    nb = 70 if ctx.quick else 700
    mcfg = "SPECIFICATION GSpec\n" + MOCK_CONST % (3, 22, "TRUE", "TRUE", "full", BOTH)
    fcfg = "SPECIFICATION GSpec\n" + FB_CONST % (4, "TRUE")
    with cf.ThreadPoolExecutor(max_workers=2) as ex:
        f1 = ex.submit(ctx.tlc_simulate, "MockFilter_Gen", mcfg, nb, 27, 900)
        f2 = ex.submit(ctx.tlc_simulate, "FallbackFilter_Gen", fcfg, 80 if ctx.quick else 400, 6, 900)
        mbehs, fbehs = f1.result(), f2.result()
    mbehs = [b for b in mbehs if any(s.get("a") == "handle" for s in b)]
    mi, fi = write_behs(ctx, "x05_mock_behs.ndjson", mbehs), write_behs(ctx, "x05_fb_behs.ndjson", fbehs)
    mo, fo = ctx.path("x05_mock_out.ndjson"), ctx.path("x05_fb_out.ndjson")
    rc, out = ctx.go_test(PKG, "^TestVerifX05(Mock|Fallback)Replay$",
                          env={"VERIF_IN_MOCK": mi, "VERIF_OUT_MOCK": mo, "VERIF_IN_FB": fi, "VERIF_OUT_FB": fo}, timeout=1500)
    mrec, frec = ctx.read_ndjson(mo), ctx.read_ndjson(fo)
    ms, fs = [x for x in mrec if x.get("k") == "summary"], [x for x in frec if x.get("k") == "summary"]
    errs = [x for x in mrec + frec if x.get("k") == "error"]
    if rc != 0 or not ms or not fs or errs:
        ctx.inconclusive("X05 mock/fallback harness failed: %s\n%s" % (errs[:2], out[-3000:]))
    ms, fs = ms[0], fs[0]
    ctx.evals(ms["handles"] + fs["handles"])
    ctx.traces(len(mbehs) + len(fbehs))
    ctx.cov["mock_replay"] = {k: ms[k] for k in ("behaviours", "handles", "fired", "none", "waited", "cancelled")}
    ctx.cov["fallback_replay"] = {k: fs[k] for k in ("behaviours", "handles", "seen")}
    for b in mbehs:
        for s in b:
            if s.get("a") == "handle" and s["rule"] >= 2:
                ctx.nontrivial({"mock": s["req"], "rule": s["rule"]})
    ctx.sample({"kind": "mock handle", "step": next(s for s in mbehs[0] if s.get("a") == "handle")})
    for m in [x for x in mrec if x.get("k") == "mismatch"]:
        ctx.violation({"kind": "mock-replay", "what": m["kind"], "expectedRuleUsesRegex": expected_rule_has_regex(m)},
                      "real Mock filter diverges from the decision table: %s" % m["what"][:300], m)
    for m in [x for x in frec if x.get("k") == "mismatch"]:
        ctx.violation({"kind": "fallback-replay", "what": m["kind"], "inp": m["handle"]["inp"]},
                      "real Fallback filter diverges from the decision table: %s" % m["what"][:300], m)
    if not (ms["fired"] >= 20 and ms["none"] >= 20 and ms["waited"] >= 3 and ms["cancelled"] >= 3) and not ms["mismatches"]:
        ctx.inconclusive("X05: mock replay too thin: %s" % ms)
    if not all(fs["seen"].get(k, 0) >= 5 for k in ("none", "plain", "stream")):
        ctx.inconclusive("X05: fallback replay too thin: %s" % fs)


def run(ctx):
    ctx.cov["rule"] = ("behaviours = (a) TLC -simulate total orders of the steps of the pipeline goroutine and the mirror goroutine for one client request "
                       "(request class x mirror filter x main / mirror backend behaviour x what the pipeline does next), replayed in lock-step on a real "
                       "Proxy with a gated transport - backend-received requests, client reply, mirror-goroutine existence compared after every step; "
                       "(a') one TLC-validated event log of concurrent requests through real Proxies over the real network; (b), (c) TLC -simulate "
                       "configurations + requests replayed on real Mock / Fallback objects; non-trivial = behaviours in which the mirror backend was "
                       "contacted, mirror deliveries after the client's reply, Mock requests answered by a rule other than the first")
    ctx.assumptions += [
        "mirror contract reading: a matched request is handed to the mirror pool once, bound to the client request's context (an unanswered mirror call "
        "is abandoned when the client's request ends); a streamed body is never given to the mirror - it receives the fixed text %r instead" % "cannot send a stream body to mirror",
        "the two backends of the lock-step replay are played through the package's transport hook fnSendRequest; the trace-validation phase uses the real http.Client",
        "Mock: `empty` is satisfied by an absent header; requests with a present-but-empty header value are outside the replayed domain",
        "Fallback: the body is replaced also by an empty mockBody and Content-Length describes the new body (the doc's 'if specified' is read as the code does)",
    ]
    if ctx.phase("mc"):
        model_checking(ctx)
    if ctx.phase("mirror"):
        mirror_replay(ctx)
    if ctx.phase("tv"):
        mirror_tv(ctx)
    if ctx.phase("mock"):
        mock_fallback_replay(ctx)

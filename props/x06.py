"""X06 (growth item) - the CORSAdaptor filter as a decision table (specs/CorsAdaptor.tla, every case replayed on a real
filter) and the HeaderLookup filter as cache + store + syncer + watcher (specs/HeaderLookup*.tla; TLC-generated schedules
executed on a real filter over an embedded etcd, the log judged by TLC against the contract). Not a listed property."""
import re

from lib.vlib import Inconclusive, jdump, _parse_out_file

CORS_PKG = "pkg/filters/corsadaptor"
HL_PKG = "pkg/filters/headerlookup"
PIPE_PKG = "pkg/object/pipeline"

CORS_INV = ("INVARIANTS DisallowedOriginGetsNothing AcaoIsStarOrEcho PreflightedOnlyPreflight PreflightAlwaysEnds NonCorsUntouched "
            "GrantOnlyIfAllowed ExtrasOnlyWithOrigin ActualGrantReachesClient PreflightNeverReachesBackend\n")
CORS_CLASSES = ["pass", "preflight-granted", "preflight-no-origin", "preflight-bad-origin", "preflight-bad-method", "preflight-bad-headers",
                "actual-granted", "actual-no-origin", "actual-bad-origin", "actual-bad-method"]

HL_CONSTS = ('CONSTANTS\n  MaxOps = %d\n  CacheCap = %d\n  Invalidate = "%s"\n  Fill = "%s"\n  HVs = %s\n  PCs = %s\n  Regexes = %s\n  Pfxs = %s\n  PutClasses = %s\n')
HL_INV = "INVARIANTS TypeOK OnlyFoundItemsCached QuiescentCoherent FloorIsDelivered\nPROPERTIES Fresh MissingPassesUntouched\n"


# ------------------------------------------------------------------------------------------ CORS
def _s(v):
    """a specification string (sequence of one-character strings) as a Python string"""
    return v if isinstance(v, str) else "".join(v)


def _cors_case(rec):
    c, r, e = rec["cfg"], rec["req"], rec["exp"]
    cfg = {"origins": [_s(x) for x in c["origins"]], "methods": [_s(x) for x in c["methods"]], "headers": [_s(x) for x in c["headers"]],
           "exposed": [_s(x) for x in c["exposed"]], "cred": c["cred"], "maxAge": c["maxAge"], "support": c["support"]}
    req = {k: _s(r[k]) for k in ("method", "origin", "acrm", "acrh")}
    h = e["resp"]["h"]
    exp = {"res": e["res"], "hasResp": e["hasResp"],
           "resp": {"status": e["resp"]["status"], "vary": list(e["resp"]["vary"]),
                    "h": {"acao": _s(h["acao"]), "acam": _s(h["acam"]), "acah": _s(h["acah"]), "aceh": _s(h["aceh"]),
                          "acac": h["acac"], "acma": h["acma"]}}}
    sv = rec["sees"]
    sees = {"backend": sv["backend"], "status": sv["status"], "vary": list(sv["vary"]),
            "h": {"acao": _s(sv["h"]["acao"]), "acam": _s(sv["h"]["acam"]), "acah": _s(sv["h"]["acah"]), "aceh": _s(sv["h"]["aceh"]),
                  "acac": sv["h"]["acac"], "acma": sv["h"]["acma"]}}
    return cfg, {"req": req, "exp": exp, "sees": sees, "cls": rec["cls"]}


def cors(ctx):
    full = "FALSE" if ctx.quick else "TRUE"
    consts = "CONSTANTS\n  CheckOrigin = %s\n  Full = %s\n  ResponderReplaces = %s\n"
    # negative control: an adaptor that does not check the origin must be refuted
    neg = ctx.tlc_mc("CorsAdaptor_Gen", "SPECIFICATION GSpec\n" + consts % ("FALSE", "FALSE", "FALSE") + "INVARIANTS DisallowedOriginGetsNothing\n",
                     expect_ok=False, count=False, label="CORS without origin check (must be refuted)", timeout=900)
    if neg.violated != "DisallowedOriginGetsNothing":
        ctx.inconclusive("CorsAdaptor: the negative control (CheckOrigin = FALSE) was not refuted: %s" % (neg.error or neg.out[-500:]))
    # the composition as the code has it (a later filter replaces the adaptor's response object): refuted
    neg2 = ctx.tlc_mc("CorsAdaptor_Gen", "SPECIFICATION GSpec\n" + consts % ("TRUE", "FALSE", "TRUE") + "INVARIANTS ActualGrantReachesClient\n",
                      expect_ok=False, count=False, label="CORS headers of an actual request behind a response-producing filter (refuted)", timeout=900)
    ctx.cov["model_says_actual_cors_headers_replaced"] = (neg2.violated == "ActualGrantReachesClient")
    # the decision table: contract invariants checked on every case, every case exported
    recs = ctx.tlc_dump("CorsAdaptor_Gen", "SPECIFICATION GSpec\n" + consts % ("TRUE", full, "FALSE") + CORS_INV, timeout=1500, label="CORS decision table")
    recs = [r for r in recs if "exp" in r]
    groups = {}
    for r in recs:
        cfg, case = _cors_case(r)
        groups.setdefault(jdump(cfg), (cfg, []))[1].append(case)
    ctx.log("CORS decision table: %d cases in %d configurations" % (len(recs), len(groups)))
    inp = ctx.path("x06_cors_in.ndjson")
    with open(inp, "w") as fh:
        for key in sorted(groups):
            cfg, cases = groups[key]
            fh.write(jdump({"cfg": cfg, "cases": cases}) + "\n")
    outp = ctx.path("x06_cors_out.ndjson")
    rc, out = ctx.go_test(CORS_PKG, "^TestVerifX06Cors$", env={"VERIF_IN": inp, "VERIF_OUT": outp}, timeout=1500)
    res = ctx.read_ndjson(outp)
    summ = [x for x in res if x.get("k") == "summary"]
    if rc != 0 or not summ:
        ctx.inconclusive("X06 CORS harness failed:\n" + out[-3000:])
    summ = summ[0]
    errs = [x for x in res if x.get("k") == "specerror"]
    if errs:
        ctx.inconclusive("X06 CORS: a model configuration was rejected by the real filter's validation: %s" % jdump(errs[0])[:400])
    if summ["cases"] != len(recs):
        ctx.inconclusive("X06 CORS: %d of %d cases replayed" % (summ["cases"], len(recs)))
    missing = [c for c in CORS_CLASSES if not summ["classes"].get(c)]
    if missing or not summ["viaInherit"]:
        ctx.inconclusive("X06 CORS: decision classes never replayed: %s" % missing)
    ctx.evals(len(recs))
    ctx.traces(len(groups))
    ctx.cov["cors_classes"] = summ["classes"]
    for key in groups:
        ctx.nontrivial("cors:" + key)
    mid = _cors_case(recs[len(recs) // 2])
    ctx.sample({"kind": "cors-case", "cfg": mid[0], "case": mid[1]})
    for m in [x for x in res if x.get("k") == "mismatch"]:
        ctx.violation({"kind": "cors-decision", "cls": m["cls"], "field": m["field"], "support": m["cfg"]["support"]},
                      "real CORSAdaptor differs from the decision table (%s of a %s case, %d cases): got %r, the model says %r" % (
                          m["field"], m["cls"], m["count"], m["got"], m["want"]), m)
    # ---- composition: the supportCORSRequest half of the table through a real Pipeline [CORSAdaptor, Mock]
    pin = ctx.path("x06_pipe_in.ndjson")
    npipe = 0
    with open(pin, "w") as fh:
        for key in sorted(groups):
            cfg, cases = groups[key]
            if cfg["support"] or cfg["maxAge"]:        # all supporting configurations, and half of the others
                fh.write(jdump({"cfg": cfg, "cases": cases}) + "\n")
                npipe += len(cases)
    pout = ctx.path("x06_pipe_out.ndjson")
    rc, out = ctx.go_test(PIPE_PKG, "^TestVerifX06CorsPipeline$", env={"VERIF_IN": pin, "VERIF_OUT": pout}, timeout=1500)
    res = ctx.read_ndjson(pout)
    summ = [x for x in res if x.get("k") == "summary"]
    if rc != 0 or not summ or summ[0]["cases"] != npipe or [x for x in res if x.get("k") == "specerror"]:
        ctx.inconclusive("X06 CORS pipeline harness failed:\n" + out[-3000:])
    ctx.evals(npipe)
    ctx.cov["cors_pipeline_classes"] = summ[0]["classes"]
    for m in [x for x in res if x.get("k") == "mismatch"]:
        ctx.violation({"kind": "cors-pipeline", "cls": m["cls"], "field": m["field"], "support": m["cfg"]["support"],
                       "how": "adaptor-headers-replaced" if m["lostOnly"] else "other"},
                      "Pipeline [CORSAdaptor, responder]: the client does not get what the model says (%s of a %s case, %d cases): got %r, the model says %r" % (
                          m["field"], m["cls"], m["count"], m["got"], m["want"]), m)


def run(ctx):
    ctx.cov["rule"] = ("CORSAdaptor: cases = every (configuration, request) pair of the TLC-enumerated decision table, each run on a real filter, "
                       "result / response presence / status / complete header set / untouched request compared with the model's decision; "
                       "HeaderLookup: behaviours = TLC -simulate schedules (store writes, snapshot deliveries, plain and gated requests, reloads) "
                       "executed on a real filter over an embedded etcd, the log validated by TLC against the contract (freshness floor); "
                       "non-trivial = configurations (CORS) and schedules with a request overlapping a delivery or a hit after an update (HeaderLookup)")
    # the two filters are independent: an inconclusive half must not hide a violation found in the other one
    for name, fn in (("cors", cors), ("hl", headerlookup)):
        if ctx.phase(name):
            try:
                fn(ctx)
            except Inconclusive as ex:
                ctx.defer_inconclusive(str(ex))


def _hl_consts(maxops, cap, inval, fill, hvs, pcs, regexes, pfxs, classes=("full", "partial", "bad")):
    def st(xs):
        return "{" + ", ".join(('"%s"' % x) if isinstance(x, str) else ("TRUE" if x else "FALSE") for x in xs) + "}"
    return HL_CONSTS % (maxops, cap, inval, fill, st(hvs), st(pcs), st(regexes), st(pfxs), st(classes))


def _counterexample(ctx, r, name):
    """the behaviour (list of `out` records) of a counterexample that TLC printed"""
    p = ctx.path("x06_cx_%s.txt" % name)
    with open(p, "w") as fh:
        fh.write(r.out)
    return _parse_out_file(p)


def headerlookup(ctx):
    small = (["u1"], [], [False], ["slash"], ["full"])
    # 1. the ideal (atomic fill) satisfies the contract with both invalidation rules, evictions included (capacity 1)
    n = 5 if ctx.quick else 6
    variants = (("flush", "atomic"), ("flush", "guarded")) + (() if ctx.quick else (("precise", "atomic"), ("precise", "guarded")))
    for inval, fill in variants:
        r = ctx.tlc_mc("HeaderLookup_Gen", "SPECIFICATION GSpec\n" + _hl_consts(n - 1 if fill == "guarded" else n, 1, inval, fill, ["u1"], ["a"], [True], ["slash"]) + "VIEW view\n" + HL_INV,
                       label="HeaderLookup, fill %s, invalidation %s" % (fill, inval), timeout=1500)
        ctx.log("HeaderLookup (fill %s, invalidation %s): %d distinct states" % (fill, inval, r.distinct))
    # every action taken (the code's shape; only the invariants that do not depend on the fill being atomic)
    r = ctx.tlc_mc("HeaderLookup_Gen", "SPECIFICATION GSpec\n" + _hl_consts(3, 1, "flush", "twostep", ["u1"], ["a"], [True], ["slash"]) + "VIEW view\n"
                   "INVARIANTS TypeOK OnlyFoundItemsCached FloorIsDelivered\nPROPERTIES MissingPassesUntouched\n", coverage=True,
                   label="HeaderLookup code shape, coverage", timeout=1500)
    dead = [a for a in r.coverage_zero if a in ("Write", "Deliver", "Req", "ReqStart", "ReqFill", "Reload")]
    if dead:
        ctx.inconclusive("HeaderLookup: actions never taken in the model: %s" % dead)
    # 2. negative controls; TLC's counterexamples are schedules for the real code
    neg1 = ctx.tlc_mc("HeaderLookup_Gen", "SPECIFICATION GSpec\n" + _hl_consts(7, 2, "none", "atomic", *small) + "VIEW view\nPROPERTIES Fresh\n",
                      expect_ok=False, count=False, label="cache without invalidation (must be refuted)", timeout=1500)
    if neg1.violated != "Fresh":
        ctx.inconclusive("HeaderLookup: a cache without invalidation was not refuted: %s" % (neg1.error or neg1.out[-400:]))
    neg2 = ctx.tlc_mc("HeaderLookup_Gen", "SPECIFICATION GSpec\n" + _hl_consts(8, 2, "flush", "twostep", *small) + "VIEW view\nPROPERTIES Fresh\n",
                      expect_ok=False, count=False, label="the code's two-step fill (refuted: fill races invalidation)", timeout=1500)
    ctx.cov["model_says_fill_races_invalidation"] = (neg2.violated == "Fresh")
    behs = []
    for tag, r in (("noinval", neg1), ("race", neg2)):
        if r.violated == "Fresh":
            b = _counterexample(ctx, r, tag)
            if len(b) >= 3 and b[0].get("a") == "init":
                b[0]["tag"] = tag
                behs.append(b)
    # 3. schedules
    nb = 200 if ctx.quick else 1500
    pcs = ["a"] if ctx.quick else ["a", "b"]
    sim = ctx.tlc_simulate("HeaderLookup_Gen", "SPECIFICATION GSimSpec\n" + _hl_consts(18, 128, "flush", "twostep", ["u1", "u2"], pcs, [True, False], ["slash", "lead"]),
                           num=nb, depth=19)
    sim += ctx.tlc_simulate("HeaderLookup_Gen", "SPECIFICATION GSimSpec\n" + _hl_consts(8, 128, "flush", "twostep", ["u1"], ["a"], [True, False], ["noslash"]),
                            num=4 if ctx.quick else 20, depth=9, seed=ctx.seed + 7)
    for b in sim:
        b[0]["tag"] = "sim"
    behs += sim
    inp = ctx.path("x06_hl_behs.ndjson")
    with open(inp, "w") as fh:
        for b in behs:
            fh.write(jdump(b) + "\n")
    outp = ctx.path("x06_hl_log.ndjson")
    rc, out = ctx.go_test(HL_PKG, "^TestVerifX06HeaderLookup$", env={"VERIF_IN": inp, "VERIF_OUT": outp}, timeout=2400)
    log = ctx.read_ndjson(outp)
    summ = [x for x in log if x.get("k") == "summary"]
    if rc != 0 or not summ:
        ctx.inconclusive("X06 HeaderLookup harness failed:\n" + out[-3000:])
    stalls = [x for x in log if x.get("k") == "stall"]
    if stalls:
        ctx.inconclusive("X06 HeaderLookup: %d barrier(s) not reached (first: %s)" % (len(stalls), jdump(stalls[0])[:300]))
    ev = [x for x in log if "ev" in x]
    tp = ctx.write_ndjson("x06_hl_trace.ndjson", ev)
    tr = ctx.tlc_trace("HeaderLookup_Trace", "SPECIFICATION TSpec\nCONSTRAINT HWM\nPOSTCONDITION Accepted\nINVARIANTS FloorBelowCurrent\n", tp, timeout=2400)
    if not tr.accepted:
        ctx.inconclusive("X06 HeaderLookup: the log is not a well-formed trace (event #%d %s, invariant %s)" % (
            tr.hwm + 1, jdump(ev[min(tr.hwm, len(ev) - 1)])[:200], tr.inv))
    ctx.evals(len(behs))
    ctx.traces(len(behs))
    bad = {}
    for m in re.finditer(r'"VERIF_BAD",\s*(\d+),\s*(-?\d+),\s*(-?\d+),\s*(TRUE|FALSE)', tr.out):
        bad[int(m.group(1))] = (int(m.group(2)), int(m.group(3)), m.group(4) == "TRUE")
    # ---- bookkeeping over the log: per behaviour the events, classes for the vacuity guard
    cfgs, tags, per = {}, {}, {}
    for i, e in enumerate(ev):
        per.setdefault(e["beh"], []).append((i + 1, e))
        if e["ev"] == "reset":
            cfgs[e["beh"]], tags[e["beh"]] = e, e.get("tag", "")
    seen = {k: 0 for k in ("hit", "miss-found", "partial", "bad-or-missing", "pre-replaced", "pre-kept", "no-header", "regex-key", "deliver",
                           "reload", "delete", "overlap", "update-seen", "gated")}
    for b, evs in per.items():
        open_req, lastval = {}, {}
        for ln, e in evs:
            if e["ev"] == "req":
                open_req[e["id"]] = {"req": e, "delivered": False}
                seen["gated"] += e["id"] != 3
            elif e["ev"] == "deliver":
                seen["deliver"] += 1
                for o in open_req.values():
                    o["delivered"] = True
            elif e["ev"] in ("reload", "del"):
                seen["reload" if e["ev"] == "reload" else "delete"] += 1
            elif e["ev"] == "done":
                o = open_req.pop(e["id"])
                q = o["req"]
                e["_req"], e["_overlap"] = q, o["delivered"]
                if o["delivered"]:
                    seen["overlap"] += 1
                    ctx.nontrivial("hl-overlap:%d" % b)
                if q["hv"] == "":
                    seen["no-header"] += 1
                    continue
                val = e["h2"]["t"] == "val"
                seen["hit"] += val and not e["read"]
                seen["miss-found"] += val and e["read"]
                seen["bad-or-missing"] += (not val) and e["read"]
                seen["partial"] += val and e["h1"]["t"] != "val"
                seen["pre-replaced"] += q["pre"] and e["h1"]["t"] == "val"
                seen["pre-kept"] += q["pre"] and e["h1"]["t"] == "old"
                seen["regex-key"] += val and cfgs[b]["regex"] and q["pc"] != "none"
                key = (q["hv"], q["pc"] if cfgs[b]["regex"] else "")
                if val and key in lastval and lastval[key] != e["h2"]["n"]:
                    seen["update-seen"] += 1
                    ctx.nontrivial("hl-update:%d" % b)
                if val:
                    lastval[key] = e["h2"]["n"]
    ctx.cov["hl_classes"] = seen
    # how well the implementation-shaped model predicts hit / miss (a note, no verdict: the contract does not fix the cache's shape)
    agree = disagree = 0
    for x in ev:
        if x["ev"] == "done" and x["beh"] < len(behs) and x["step"] < len(behs[x["beh"]]):
            st = behs[x["beh"]][x["step"]]
            if behs[x["beh"]][0].get("tag") == "sim" and behs[x["beh"]][0]["cfg"]["pfx"] != "noslash" and st.get("a") in ("req", "reqfill") and st.get("rv", -1) >= 0:
                if st["hit"] == (not x["read"]):
                    agree += 1
                else:
                    disagree += 1
    ctx.cov["hl_model_hit_miss_agree"], ctx.cov["hl_model_hit_miss_disagree"] = agree, disagree
    # ---- verdicts: every `done` that TLC flagged
    for ln in sorted(bad):
        e = ev[ln - 1]
        floor0, obs, isver = bad[ln]
        b = e["beh"]
        q = e.get("_req", {})
        if e["other"]:
            cause = "other-headers-touched"
        elif q.get("hv") == "":
            cause = "no-header-not-untouched"
        elif obs < 0:
            cause = "not-found"
        elif not isver:
            cause = "foreign-key"
        elif obs < floor0:
            cause = "stale"
        else:
            cause = "headers"
        sig = {"kind": "hl-contract", "cause": cause, "pfx": cfgs[b]["pfx"], "regex": cfgs[b]["regex"]}
        if cause == "stale":
            # was the stale entry put into the cache by a request that overlapped a delivery?
            how = "kept-after-delivery"
            for ln2, e2 in per[b]:
                if ln2 >= ln:
                    break
                if e2["ev"] == "done" and e2.get("read") and e2.get("_overlap") and obs in (e2["h1"].get("n"), e2["h2"].get("n")):
                    how = "fill-overlaps-delivery"
            sig["how"] = how
        clean = [{k: v for k, v in x.items() if not k.startswith("_")} for _, x in per[b] if _ <= ln]
        ctx.violation(sig, "HeaderLookup breaks its contract (%s): request %s got h1=%s h2=%s; floor at its start %d (behaviour %d, tag %s)" % (
            cause, jdump({k: q.get(k) for k in ("hv", "pc", "pre")}), jdump(e["h1"]), jdump(e["h2"]), floor0, b, tags.get(b)), clean)
    # the two counterexample schedules: what did the real code do with them?
    for b, tag in tags.items():
        if tag in ("race", "noinval"):
            lines = [ln for ln, e in per[b] if e["ev"] == "done"]
            ctx.cov["hl_schedule_%s_reproduced" % tag] = bool(lines) and lines[-1] in bad
    ctx.sample({"kind": "headerlookup-log", "events": [{k: v for k, v in x.items() if not k.startswith("_")} for x in ev[:8]]})
    # ---- vacuity
    need = ["hit", "miss-found", "bad-or-missing", "partial", "pre-replaced", "pre-kept", "no-header", "regex-key", "deliver", "reload", "delete",
            "overlap", "update-seen", "gated"]
    missing = [k for k in need if not seen[k]]
    if missing or "race" not in tags.values() or "noinval" not in tags.values():
        ctx.defer_inconclusive("X06 HeaderLookup: classes never exercised on the real code: %s (schedules: %s)" % (missing, sorted(set(tags.values()))))

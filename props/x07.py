"""X07 (growth item) - MQTT proxy: keep-alive expiry, will, protocol replies of one connection (specs/MqttConn*.tla) and the
session-delete watcher (specs/MqttWatch*.tla), validated against a real Broker driven by raw paho `packets` clients.
Not a listed property."""
import os
import subprocess
import time
from concurrent.futures import ThreadPoolExecutor

from lib.vlib import jdump, REPO

PKG = "pkg/object/mqttproxy"
SLACK_S = 8
GOOD = {"GraceTicks": "3", "Rearm": "TRUE", "WillOnDisc": "FALSE", "WillTwice": "FALSE", "Grant": '"header"', "SPRule": '"clean"',
        "MaxTick": "4", "MaxPubs": "2"}
CONN_INV = "INVARIANTS WillAtMostOnce WillIsTheConnects NoWillWhileOpen WillIffAbnormalEnd NoWillAfterDisconnect NoEarlyExpiry\n"
CONN_PROPS = "PROPERTIES RearmedByPacket ReplyDiscipline ClosedIsFinal\n"
WATCH_PROPS = "INVARIANTS WTypeOK OnlyDeletedAreClosed NoSessionNoConnection\nPROPERTIES RewatchClosesOnlyDeleted\n"


BIG = {}          # thorough tier: larger bounds for exhaustive checking (set in run)


def conn_cfg(spec, over=None, extra="", gen=True):
    c = dict(GOOD)
    if spec in ("GSpec", "PSpec"):
        c.update(BIG)
    c.update(over or {})
    txt = "SPECIFICATION %s\nCONSTANTS\n" % spec + "".join("  %s = %s\n" % kv for kv in sorted(c.items()))
    if gen:
        txt += "  MaxSteps = 11\n  MaxTicksTotal = 7\n"
    return txt + extra


def watch_cfg(spec, key='"full"', rec="TRUE", gap="TRUE", steps=9, extra="", focus="FALSE", gen=True):
    txt = "SPECIFICATION %s\nCONSTANTS\n  Clients = {%s}\n  KeyRule = %s\n  Reconcile = %s\n" % (
        spec, "1, 2, 3, 4" if BIG and spec == "MCSpec" else "1, 2, 3", key, rec)
    if gen:
        txt += "  MaxSteps = %d\n  Gap = %s\n  Focus = %s\n" % (steps, gap, focus)
    return txt + extra


# ------------------------------------------------------------------------------------------ model checking
def model_check(ctx):
    r = ctx.tlc_mc("MqttConn_Gen", conn_cfg("GSpec", extra="VIEW gview\nINVARIANTS TypeOK ExpiryIsForced\n" + CONN_INV + CONN_PROPS),
                   coverage=True, label="connection state machine", timeout=900)
    if r.coverage_zero:
        ctx.inconclusive("MqttConn: actions never taken: %s" % r.coverage_zero)
    ctx.log("MqttConn model checked: %d distinct states (%d generated)" % (r.distinct, r.generated))
    # vacuity: the antecedents of the invariants / action properties are reachable (a probe that is never reached fails the post-condition)
    ctx.tlc_mc("MqttConn_Gen", conn_cfg("PSpec", extra="VIEW gview\nACTION_CONSTRAINT ReachNote\nPOSTCONDITION AllReached\n"), workers=1, count=False,
               label="reachability of the contract's antecedents", timeout=900)
    ctx.tlc_mc("MqttWatch_Gen", watch_cfg("MCSpec", extra="CONSTRAINT WReachNote\nPOSTCONDITION WAllReached\n"), workers=1, count=False,
               label="reachability of the watcher contract's antecedents")
    controls = [
        ({"GraceTicks": "2"}, "", "NoEarlyExpiry", "timer of one keep-alive period"),
        ({"Rearm": "FALSE"}, "", "NoEarlyExpiry", "timer armed once, not by every packet"),
        ({"WillOnDisc": "TRUE"}, "", "WillIffAbnormalEnd", "will survives DISCONNECT"),
        ({"WillTwice": "TRUE"}, "", "NoWillWhileOpen", "will processed at the takeover and at the end"),
        ({}, "MqttGrantNotAboveRequest", "MqttGrantNotAboveRequest", "deviation: SUBACK grants the header QoS (1) for a requested 0"),
        ({}, "MqttSessionPresent", "MqttSessionPresent", "deviation: session-present copies the clean-session flag"),
    ]
    def control(c):
        over, prop, want, what = c
        extra = "VIEW gview\n" + CONN_INV + CONN_PROPS.rstrip("\n") + (" " + prop if prop else "") + "\n"
        return c, ctx.tlc_mc("MqttConn_Gen", conn_cfg("GSpec", over, extra), expect_ok=False, count=False, label="negative control: " + what, timeout=600, workers=2)

    def wcontrol(c):
        key, rec, want, what = c
        return c, ctx.tlc_mc("MqttWatch_Gen", watch_cfg("MCSpec", key, rec, extra="VIEW gview\n" + WATCH_PROPS), expect_ok=False, count=False,
                             label="negative control: " + what, workers=2)
    wcontrols = [('"bare"', "TRUE", "OnlyDeletedAreClosed", "reconciliation looks full store keys up by bare client ids"),
                 ('"full"', "FALSE", "NoSessionNoConnection", "watch comes back without reconciliation")]
    with ThreadPoolExecutor(max_workers=8) as ex:
        f1 = [ex.submit(control, c) for c in controls]
        f2 = [ex.submit(wcontrol, c) for c in wcontrols]
        f3 = ex.submit(ctx.tlc_mc, "MqttConn_Gen", conn_cfg("GSpec", {"Grant": '"capped"', "SPRule": '"mqtt"'},
                       "VIEW gview\nINVARIANTS TypeOK\n" + CONN_INV + CONN_PROPS.rstrip("\n") + " MqttGrantNotAboveRequest MqttSessionPresent\n"),
                       label="MQTT 3.1.1 variant of the replies", count=False, workers=2)
        for f in f1 + f2:
            c, rr = f.result()
            if rr.violated != c[2]:
                ctx.inconclusive("negative control not refuted as expected (%s): violated=%s error=%s" % (c[3], rr.violated, rr.error))
        f3.result()
    r = ctx.tlc_mc("MqttWatch_Gen", watch_cfg("MCSpec", extra="VIEW gview\n" + WATCH_PROPS), coverage=True, label="session watcher")
    if r.coverage_zero:
        ctx.inconclusive("MqttWatch: actions never taken: %s" % r.coverage_zero)
    ctx.log("MqttWatch model checked: %d distinct states" % r.distinct)


# ------------------------------------------------------------------------------------------ harness runs
def build(ctx):
    binp = ctx.path("mqttproxy_x07.test")
    if not os.path.exists(binp):
        rc, out = ctx.go_test(PKG, "^$", extra=["-c", "-o", binp], timeout=1500)
        if rc != 0 or not os.path.exists(binp):
            ctx.inconclusive("harness build failed for %s:\n%s" % (PKG, out[-3000:]))
    return binp


def run_bin(ctx, binp, run, env, timeout):
    e = ctx.go_env()
    e.update({"VERIF_SEED": str(ctx.seed), "VERIF_TIER": ctx.tier})
    e.update({k: str(v) for k, v in env.items()})
    t0 = time.time()
    try:
        p = subprocess.run([binp, "-test.run", run, "-test.count=1", "-test.timeout=%ds" % timeout], cwd=os.path.join(REPO, PKG), env=e,
                           capture_output=True, text=True, timeout=timeout + 60)
        rc, out = p.returncode, p.stdout + p.stderr
    except subprocess.TimeoutExpired:
        rc, out = None, "timeout"
    ctx.cov["go_runs"].append({"pkg": PKG, "run": run, "rc": rc, "race": False, "wall_s": round(time.time() - t0, 1)})
    if rc is None:
        ctx.inconclusive("harness %s timed out" % run)
    if "no tests to run" in out:
        ctx.inconclusive("harness test %s not found" % run)
    return rc, out


def split_traces(ev):
    starts = [i for i, e in enumerate(ev) if e.get("ev") == "reset"]
    return [(s, (starts[k + 1] if k + 1 < len(starts) else len(ev))) for k, s in enumerate(starts)]


def validate(ctx, module, cfg, ev, name, on_reject, max_rounds=8):
    """Validates concatenated traces; a rejected trace is reported and cut out, the rest validated again.
    Returns the index ranges (in the original list) of the accepted traces."""
    accepted, base, rounds = [], 0, 0
    while ev:
        rounds += 1
        path = ctx.write_ndjson("%s_%d.ndjson" % (name, rounds), ev)
        tr = ctx.tlc_trace(module, cfg, path, timeout=900)
        ranges = split_traces(ev)
        if tr.accepted:
            accepted += [(base + s, base + e) for s, e in ranges]
            break
        bad = min(tr.hwm, len(ev) - 1)
        k = max(i for i, (s, e) in enumerate(ranges) if s <= bad)
        s, e = ranges[k]
        on_reject(ev[s:bad + 1], ev[s:e], tr)
        accepted += [(base + s2, base + e2) for s2, e2 in ranges[:k]]
        ev, base = ev[e:], base + e
        if rounds >= max_rounds:
            ctx.notes.append("%s: stopped re-validating after %d rejected traces (%d events left unvalidated)" % (name, rounds, len(ev)))
            break
    return accepted


def run_conn_scripts(ctx, binp, behs, tag):
    inp = ctx.path("x07_%s_in.ndjson" % tag)
    with open(inp, "w") as fh:
        for b in behs:
            fh.write(jdump(b) + "\n")
    outp = ctx.path("x07_%s_out.ndjson" % tag)
    budget = 120 if ctx.quick else 240
    rc, out = run_bin(ctx, binp, "^TestVerifX07Conn$", {"VERIF_IN": inp, "VERIF_OUT": outp, "VERIF_SLACK_S": SLACK_S, "VERIF_BUDGET_S": budget,
                                                         "VERIF_PAR": 24 if ctx.quick else 32}, timeout=1500)
    ev = ctx.read_ndjson(outp)
    if rc != 0 or not ev:
        ctx.inconclusive("X07 connection harness failed:\n" + out[-3000:])
    probs = [e for e in ev if e.get("ev") == "problem"]
    if probs:
        ctx.inconclusive("X07 connection harness could not carry out %d script(s): %s" % (len(probs), probs[0].get("what")))
    return ev


def label(seg):
    """Class of the event TLC could not explain (for the signature only: the verdict is TLC's)."""
    ka, st, will = 0, "new", 0
    for e in seg[:-1]:
        if e.get("ev") == "step" and e["p"]["t"] == "connect" and st == "new" and not e["closed"]:
            ka, st, will = e["p"]["k"], "up", e["p"]["w"]
        elif e.get("ev") == "takeover":
            st = "zombie"
    e = seg[-1]
    grace = 3
    late = grace + (2 * SLACK_S) // ka if ka else None
    sig = {"kind": "conn", "ev": e.get("ev"), "st": st}
    if e.get("ev") == "expire":
        sig["cls"] = "no-keepalive-but-expired" if ka == 0 else ("expired-before-K" if e["ic"] < 2 else "expired-before-1.5K" if e["ic"] < grace else "will-at-expiry")
        return sig
    if e.get("ev") == "step":
        sig["p"] = e["p"]["t"]
        normal = e["p"]["t"] in ("ping", "sub", "unsub", "pub", "puback")
        if st != "new" and not e["closed"] and late is not None and e["ib"] >= late:
            sig["cls"] = "alive-after-expiry-time"
        elif st == "up" and normal and e["closed"]:
            sig["cls"] = "closed-without-cause" if (ka == 0 or e["ic"] < grace) else "closed"
        elif e["closed"] and (len(e["wills"]) != (1 if will and st != "new" and e["p"]["t"] != "disc" else 0)):
            sig["cls"] = "will"
        elif not e["closed"] and e["wills"]:
            sig["cls"] = "will-while-open"
        elif e["closed"] != (st == "zombie" or e["p"]["t"] not in ("ping", "sub", "unsub", "pub", "puback") or (st == "new" and (e["p"]["t"] != "connect" or e["p"]["v"] != "ok"))):
            sig["cls"] = "closed" if e["closed"] else "not-closed"
        else:
            sig["cls"] = "reply"
        return sig
    if e.get("ev") == "drop":
        sig["cls"] = "will"
    return sig


def conn_classes(ev, ranges):
    """Outcome classes observed in accepted traces (vacuity guard)."""
    seen = {}

    def hit(k):
        seen[k] = seen.get(k, 0) + 1
    for s, e in ranges:
        ka, st, will, since = 0, "new", 0, 0
        for x in ev[s:e]:
            if x["ev"] == "step":
                t = x["p"]["t"]
                if st == "new":
                    if t != "connect":
                        hit("first-not-connect")
                    elif x["closed"]:
                        hit("connect-refused")
                    else:
                        ka, st, will = x["p"]["k"], "up", x["p"]["w"]
                        hit("connected-k%d" % ka)
                    continue
                if x["closed"]:
                    if x["rep"] == [] and x["ic"] >= 3 and ka > 0 and t in ("ping", "sub", "unsub", "pub", "puback") and st == "up":
                        hit("expired-under-a-packet")
                    elif st == "zombie":
                        hit("zombie-ended" + ("+will" if x["wills"] else ""))
                    elif t == "disc":
                        hit("disconnect" + ("+willflag-no-will" if will else ""))
                    elif t == "connect":
                        hit("second-connect" + ("+will" if x["wills"] else ""))
                    else:
                        hit("protocol-error" + ("+will" if x["wills"] else ""))
                    continue
                since += x["ib"]
                if ka > 0 and x["ib"] >= 2:
                    hit("alive-after-K")
                if ka > 0 and since >= 3:
                    hit("alive-beyond-1.5K-after-connect")
                if ka == 0 and x["ib"] >= 3:
                    hit("k0-silent-alive")
                if t == "sub":
                    hit("suback-%d" % len(x["rep"][0]["rc"]) if x["rep"] else "subscribe-rejected")
                    if x["rep"] and any(f["q"] == 0 for f in x["p"]["fs"]) and any(c > f["q"] for c, f in zip(x["rep"][0]["rc"], x["p"]["fs"])):
                        hit("deviation:granted-above-request")
                elif t == "unsub":
                    hit("unsuback")
                elif t == "pub":
                    hit("publish-q%d" % x["p"]["q"])
                elif t == "ping":
                    hit("pingresp")
            elif x["ev"] == "expire":
                if st == "zombie" and (ka == 0 or x["ic"] < 3):
                    hit("zombie-ended-by-itself")
                else:
                    hit("expired" + ("+will" if x["wills"] else "") + ("-zombie" if st == "zombie" else ""))
                    hit("expired-k%d" % ka)
            elif x["ev"] == "drop":
                hit("drop" + ("+will" if x["wills"] else ""))
            elif x["ev"] == "takeover":
                st = "zombie"
                hit("takeover")
        for x in ev[s:e]:
            if x["ev"] == "step" and x["p"]["t"] == "connect" and x["rep"] and x["rep"][0]["t"] == "connack" and x["rep"][0]["id"] == 1:
                hit("deviation:session-present-on-clean")
                break
    return seen


NEEDED = ["first-not-connect", "connect-refused", "connected-k0", "connected-k1", "connected-k2", "expired+will", "expired", "expired-k1", "expired-k2",
          "alive-after-K", "alive-beyond-1.5K-after-connect", "k0-silent-alive", "disconnect+willflag-no-will", "drop+will", "drop",
          "second-connect+will", "protocol-error+will", "takeover", "zombie-ended+will", "suback-1", "suback-2", "subscribe-rejected", "unsuback",
          "publish-q0", "publish-q1", "publish-q2", "pingresp"]


def conn_phase(ctx, binp):
    nb = 200 if ctx.quick else 3000
    behs = ctx.tlc_simulate("MqttConn_Gen", conn_cfg("GSimSpec"), num=nb, depth=13)
    ev = run_conn_scripts(ctx, binp, behs, "conn")
    ctx.evals(len(behs))
    tcfg = conn_cfg("TSpec", extra="  SlackSec = %d\nCONSTRAINT HWM\nPOSTCONDITION Accepted\n" % SLACK_S + CONN_INV + "PROPERTIES RearmedByPacket ReplyDiscipline\n", gen=False)
    ranges_all = split_traces(ev)
    script_of = {s: ev[s].get("script") for s, _ in ranges_all}
    late_scripts = []

    def on_reject(seg, whole, tr):
        sig = label(seg)
        if tr.inv:
            sig["inv"] = tr.inv
        if sig.get("cls") == "alive-after-expiry-time":
            late_scripts.append((whole[0].get("script"), sig, seg))
            return
        ctx.violation(sig, "connection behaviour of the real broker is not a behaviour of MqttConn: %s (event %s)" % (sig.get("cls"), jdump(seg[-1])[:300]),
                      {"script": behs[whole[0].get("script")] if whole[0].get("script") is not None else None, "events": seg})
    acc = validate(ctx, "MqttConn_Trace", tcfg, ev, "x07_conn", on_reject)
    ctx.traces(len(acc))
    if late_scripts:
        # "still alive long after 1.5 x K" cannot be decided at a barrier: believed only when it happens again
        idx = sorted({i for i, _, _ in late_scripts})
        ctx.log("expiry not observed in %d script(s); running them again" % len(idx))
        ev2 = run_conn_scripts(ctx, binp, [behs[i] for i in idx], "late")
        again = []
        validate(ctx, "MqttConn_Trace", tcfg, ev2, "x07_late", lambda seg, whole, tr: again.append((label(seg), seg)))
        rep = [(sg, seg) for sg, seg in again if sg.get("cls") == "alive-after-expiry-time"]
        if rep:
            sg, seg = rep[0]
            ctx.violation(sg, "a silent connection with keep-alive K is still served %d s after 1.5 x K (reproduced on a re-run): %s" % (SLACK_S, jdump(seg[-1])[:300]),
                          {"events": seg})
        else:
            ctx.defer_inconclusive("an expiry was observed late once and not again (machine too slow?)")
    seen = conn_classes(ev, acc)
    ctx.cov["conn_classes"] = seen
    for k in seen:
        ctx.nontrivial("conn:" + k)
    devs = sorted(k for k in seen if k.startswith("deviation:"))
    if devs:
        ctx.notes.append("deviations from MQTT 3.1.1 observed and accepted as documented behaviour of the code: " + ", ".join(devs))
    for s, e in acc[:2]:
        ctx.sample({"kind": "validated connection trace", "events": [{k: v for k, v in x.items() if k != "seq"} for x in ev[s:min(e, s + 5)]]})
    missing = [k for k in NEEDED if k not in seen]
    if missing and not ctx.violations:
        ctx.defer_inconclusive("X07: outcome classes never observed in an accepted trace: %s" % missing)
    ctx.log("connection scripts: %d executed, %d traces accepted, classes %s" % (len(behs), len(acc), len(seen)))


def watch_phase(ctx, binp):
    fam = []
    for tag, gap, focus, n in (("watch_plain", "FALSE", "FALSE", 12 if ctx.quick else 100), ("watch_gap", "TRUE", "FALSE", 24 if ctx.quick else 250),
                               ("watch_gapdel", "TRUE", "TRUE", 16 if ctx.quick else 150)):
        behs = ctx.tlc_simulate("MqttWatch_Gen", watch_cfg("GSpec", gap=gap, focus=focus, steps=9), num=n, depth=11, seed=ctx.seed + len(fam) * 7)
        fam.append((tag, behs))
    tcfg = watch_cfg("TSpec", extra="CONSTRAINT HWM\nPOSTCONDITION Accepted\n" + WATCH_PROPS.split("PROPERTIES")[0], gen=False)
    seen = {}
    for tag, behs in fam:
        inp = ctx.path("x07_%s_in.ndjson" % tag)
        with open(inp, "w") as fh:
            for b in behs:
                fh.write(jdump(b) + "\n")
        outp = ctx.path("x07_%s_out.ndjson" % tag)
        rc, out = run_bin(ctx, binp, "^TestVerifX07Watch$", {"VERIF_IN": inp, "VERIF_OUT": outp, "VERIF_BUDGET_S": 120 if ctx.quick else 240}, timeout=1500)
        ev = ctx.read_ndjson(outp)
        if rc != 0 or not ev:
            ctx.inconclusive("X07 watcher harness failed:\n" + out[-3000:])
        probs = [e for e in ev if e.get("ev") == "problem"]
        if probs:
            ctx.inconclusive("X07 watcher harness could not carry out %d script(s): %s" % (len(probs), probs[0].get("what")))
        ctx.evals(len(behs))

        def on_reject(seg, whole, tr, behs=behs):
            b = behs[whole[0]["script"]]
            step = b[len(seg) - 1]                   # seg = reset + events; b = init + steps
            want, got = set(step.get("conn", [])), set(seg[-1].get("alive", []))
            cls = "closed-undeleted" if want - got else "not-closed" if got - want else "other"
            sig = {"kind": "watch", "a": seg[-1].get("a"), "cls": cls}
            if tr.inv:
                sig["inv"] = tr.inv
            ctx.violation(sig, "session watcher: after `%s` the clients still served are %s, the model says %s (stored sessions: %s)" % (
                seg[-1].get("a"), sorted(got), sorted(want), step.get("store")), {"script": b, "events": seg})
        acc = validate(ctx, "MqttWatch_Trace", tcfg, ev, "x07_" + tag, on_reject, max_rounds=6 if ctx.quick else 10)
        ctx.traces(len(acc))
        for s, e in acc:
            down, before = False, set()
            for x in ev[s + 1:e]:
                a = x["a"]
                if a == "delete":
                    k = "delete-in-gap" if down else ("delete-while-watching-closes" if x["c"] in before else "delete-while-watching")
                    seen[k] = seen.get(k, 0) + 1
                elif a == "lose":
                    down = True
                elif a == "rewatch":
                    down = False
                    k = "rewatch-closes-some" if before - set(x["alive"]) else ("rewatch-keeps-all" if before else "rewatch-nobody-connected")
                    seen[k] = seen.get(k, 0) + 1
                before = set(x["alive"])
        if acc:
            s, e = acc[0]
            ctx.sample({"kind": "validated watcher trace", "events": [{k: v for k, v in x.items() if k != "seq"} for x in ev[s:min(e, s + 6)]]})
    ctx.cov["watch_classes"] = seen
    for k in seen:
        ctx.nontrivial("watch:" + k)
    if "delete-while-watching-closes" not in seen and not ctx.violations:
        ctx.defer_inconclusive("X07: no admin delete under a live watch in an accepted trace")
    hit = "watcher-reconnect-closes-every-client" in ctx.known_hits
    if not hit and not ctx.violations and not ("rewatch-closes-some" in seen and "rewatch-keeps-all" in seen):
        ctx.defer_inconclusive("X07: watcher reconnect classes never observed in an accepted trace: %s" % seen)
    ctx.log("watcher scripts: classes %s" % seen)


def run(ctx):
    ctx.cov["rule"] = ("scripts = TLC -simulate behaviours of MqttConn_Gen (one MQTT connection: CONNECT variants, packets, silent ticks of half a keep-alive "
                       "period, expiry, half-close, takeover) and MqttWatch_Gen (connect / leave / admin delete / watch lost / watch back for three clients); "
                       "each script is executed against a real Broker over loopback TCP with raw paho-packets clients; the event log (replies, closed, whole "
                       "ticks since the last answered packet, wills and PUBLISHes handed to the Publish pipeline; clients still served) is validated by TLC "
                       "against the model; non-trivial = distinct outcome classes observed in accepted traces")
    ctx.assumptions += [
        "keep-alive: a connection ended by the timer must show >= 3 whole half-periods (1.5 x K, [MQTT-3.1.2-24]) between the client starting to write "
        "its last answered packet and seeing the close - slowness can only lengthen that; 'still served %d s after 1.5 x K' counts only when reproduced" % SLACK_S,
        "will = hand-over of the CONNECT's will to the Publish pipeline (this proxy publishes to a backend, not to subscribers); a taken-over connection's "
        "will is processed when that connection finally ends (the broker does not close its socket at the takeover)",
        "SUBACK codes and the session-present flag are accepted in the code's variant (header QoS = 1; copy of clean-session) and in MQTT 3.1.1's",
        "every client id connects once per script; watcher scripts use cleanSession=false clients and wait until the session is in the store",
    ]
    if not ctx.quick:
        BIG.update({"MaxTick": "6", "MaxPubs": "3"})
    if ctx.phase("mc"):
        model_check(ctx)
    if ctx.phase("conn") or ctx.phase("watch"):
        binp = build(ctx)
        if ctx.phase("conn"):
            conn_phase(ctx, binp)
        if ctx.phase("watch"):
            watch_phase(ctx, binp)

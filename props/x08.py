"""X08 (growth item) - the TrafficController as a sequential and as a concurrent object (specs/TrafficCtl.tla).

phases (VERIF_PHASES=mc,neg,mbt,ctv):
  mc   exhaustive check of the contract (all invariants / action properties), every action taken, witnesses reachable
  neg  negative controls: update without disposing of the previous generation, update that also closes what it handed
       to Inherit, create-on-existing without closing the replaced generation (what the code does) - all refuted by TLC
  mbt  TLC -simulate operation sequences replayed in lock-step on a real TrafficController managing recording kinds
  ctv  concurrent histories of a real TrafficController linearised by TLC (TrafficCtl_CTrace)
"""
import re

from lib.vlib import jdump

PKG = "pkg/object/trafficcontroller"

CONSTS = ("CONSTANTS\n  NS = {\"\", \"n1\", \"n2\"}\n  Names = {%s}\n  Vers = {%s}\n  MaxOps = %d\n"
          "  UpdateMode = \"%s\"\n  CreateMode = \"%s\"\n")
INVS = ("INVARIANTS TypeOK UniqueSlot NsIffNonEmpty LiveIntact NoLeak DisposedOnce MapperCurrent Lineage HandlerSound "
        "HandlerComplete StaleResolvesNothing\n")
TINVS = INVS.replace("NsIffNonEmpty", "TNsIffNonEmpty")
INVS_LENIENT = TINVS.replace(" NoLeak", "")
PROPS = "PROPERTIES FailedIsNoop ReadOnly Isolated DisposedWhenRemoved InheritsLatest ApplyEqualIsNoop ListExact\n"
AB = "\"a\", \"b\""

# classes of replayed steps that must all have been exercised on the real controller
NEED = ["create-new", "create-existing", "create-refused", "update-existing", "update-refused", "apply-new", "apply-unchanged",
        "apply-existing", "apply-refused", "delete-ok", "delete-miss", "clean-ok", "clean-miss", "get-ok", "get-miss",
        "handler-ok", "handler-miss", "walk-lim0", "walk-lim1", "walk-lim9", "list", "status", "regen", "closeall"]


def consts(names=AB, vers="1, 2", maxops=4, upd="inherit", cre="replace_close"):
    return CONSTS % (names, vers, maxops, upd, cre)


def run(ctx):
    ctx.cov["rule"] = ("behaviours = TLC -simulate call sequences over Create / Update / Apply / Delete (gates and pipelines), Clean, Close, Inherit of the "
                       "controller, Get / List / Walk / Status / GetHandler in 3 namespaces (one invalid), replayed in lock-step on a real TrafficController "
                       "managing recording object kinds: reply, returned generation, Init / Inherit / Close callbacks compared with the model's step and the "
                       "complete projected state (every slot, lists, namespaces, GetHandler through the mapper of every generation ever installed) with the "
                       "model's state after every call; traces = those behaviours + concurrent histories (3 goroutines) linearised by TLC; non-trivial = "
                       "behaviours in which a namespace was removed and created again, or histories with overlapping mutating calls on one namespace")
    ctx.assumptions.append("Create on an existing name is read as: the entry is replaced by a freshly initialised object and the replaced generation is closed "
                           "(life-cycle rule: every generation is handed to Inherit or closed exactly once when it leaves the table)")
    ctx.assumptions.append("ObjectEntity.Generation() is not part of the contract (it is 1 after every Update: the new entity starts at 0); the harness "
                           "checks the lineage through the recording objects instead")
    if ctx.phase("mc"):
        _mc(ctx)
    if ctx.phase("neg"):
        _neg(ctx)
    if ctx.phase("mbt"):
        _mbt(ctx)
    if ctx.phase("ctv"):
        _ctv(ctx)


def _mc(ctx):
    r = ctx.tlc_mc("TrafficCtl", "SPECIFICATION Spec\n" + consts(maxops=4) + "VIEW view\n" + INVS + PROPS, coverage=True,
                   label="contract, 4 mutating calls", timeout=1500)
    if r.coverage_zero:
        ctx.inconclusive("TrafficCtl: actions never taken: %s" % r.coverage_zero)
    ctx.log("contract model checked: %d distinct states (%d generated)" % (r.distinct, r.generated))
    if not ctx.quick:
        r = ctx.tlc_mc("TrafficCtl", "SPECIFICATION Spec\n" + consts(maxops=5) + "VIEW view\n" + INVS + PROPS,
                       label="contract, 5 mutating calls", timeout=2400)
        ctx.log("contract model checked, 5 mutating calls: %d distinct states (%d generated)" % (r.distinct, r.generated))
    # antecedents reachable: an inherited generation, a stale mapper, a second incarnation, all in one state
    w = ctx.tlc_mc("TrafficCtl", "SPECIFICATION Spec\n" + consts(names="\"a\"", maxops=5) + "VIEW view\nINVARIANTS NoWitness\n",
                   expect_ok=False, count=False, label="witness")
    if w.violated != "NoWitness":
        ctx.inconclusive("TrafficCtl: the witness state (inherited generation + stale mapper + second incarnation) is not reachable: %s" % w.error)


def _neg(ctx):
    for upd, cre, inv in (("reinit", "replace_close", "NoLeak"), ("inherit_close", "replace_close", "DisposedOnce"),
                          ("inherit", "replace_leak", "NoLeak")):
        r = ctx.tlc_mc("TrafficCtl", "SPECIFICATION Spec\n" + consts(names="\"a\"", maxops=3, upd=upd, cre=cre) + "VIEW view\nINVARIANTS %s\n" % inv,
                       expect_ok=False, count=False, label="negative control %s/%s" % (upd, cre))
        if r.violated != inv:
            ctx.inconclusive("negative control UpdateMode=%s CreateMode=%s not refuted by %s (%s)" % (upd, cre, inv, r.error))
    ctx.log("negative controls refuted: update without disposal, update closing the inherited generation, create replacing without close")


def _mbt(ctx):
    nb = 150 if ctx.quick else 1500
    behs = ctx.tlc_simulate("TrafficCtl_Gen", "SPECIFICATION GSpec\n" + consts(maxops=14), num=nb, depth=30, timeout=1500)
    inp = ctx.path("x08_behs.ndjson")
    with open(inp, "w") as fh:
        for b in behs:
            fh.write(jdump(b) + "\n")
    outp = ctx.path("x08_out.ndjson")
    rc, out = ctx.go_test(PKG, "^TestVerifX08Replay$", env={"VERIF_IN": inp, "VERIF_OUT": outp}, timeout=1500)
    recs = ctx.read_ndjson(outp)
    summ = [x for x in recs if x.get("k") == "summary"]
    if rc != 0 or not summ:
        ctx.inconclusive("X08 replay harness failed:\n" + out[-3000:])
    summ = summ[0]
    ctx.evals(summ["steps"])
    mism = [x for x in recs if x.get("k") == "mismatch"]
    badb = {m["beh"] for m in mism}
    ctx.traces(len(behs) - len(badb))
    ctx.cov["x08_replay"] = {"behaviours": len(behs), "steps": summ["steps"], "classes": summ["classes"],
                             "generation_field_after_update": summ.get("generation_field_after_update")}
    for b in behs:
        if any(r.get("inc", 0) >= 2 for s in b[1:] for r in s.get("tbl", [])):
            ctx.nontrivial({"b": [s["step"] for s in b[1:]]})
    ctx.sample({"kind": "replayed-behaviour", "steps": [s["step"] for s in behs[0][1:5]]})
    for m in mism:
        sig = {"kind": "replay", "op": m["op"], "class": m["class"], "existed": bool(m.get("existed")),
               "missing": m.get("missing", ""), "extra": m.get("extra", "")}
        ctx.violation(sig, "real TrafficController diverges from the model at step %d (%s): %s" % (m["step"], m["op"], m["what"][:400]),
                      {"what": m["what"], "behaviour": m.get("behaviour")})
    ctx.log("replay: %d behaviours, %d steps, %d mismatches (%d of them a missing/extra Close only)"
            % (len(behs), summ["steps"], summ["mismatches"], summ.get("soft", 0)))
    if ctx.violations:
        return
    missing = [c for c in NEED if not summ["classes"].get(c)]
    stale = sum(1 for b in behs for s in b[1:] if s["step"]["a"] == "handler" and not s["step"]["ok"]
                and not any(r["id"] == s["step"]["o"] for r in s.get("tbl", [])))
    if missing or not stale or not ctx._nontrivial:
        ctx.inconclusive("X08 replay: classes never exercised: %s; lookups through the mapper of a disposed generation: %d; namespace re-created: %d"
                         % (missing, stale, len(ctx._nontrivial)))


TRACE_CFG = ("SPECIFICATION TSpec\n" + CONSTS % (AB, "1, 2, 3", 100000000, "inherit", "%s") +
             "  Procs = {\"g0\", \"g1\", \"g2\", \"g3\"}\nCONSTRAINT HWM\nPOSTCONDITION TraceAccepted\nVIEW tview\n")


def _segments(ev):
    segs = []
    for i, e in enumerate(ev):
        if e.get("ev") == "reset":
            segs.append([i, []])
        segs[-1][1].append(e)
    return segs


def _overlap(seg):
    """number of mutating calls invoked while a mutating call of another goroutine on the same namespace was pending"""
    mut = {"create", "update", "apply", "delete", "clean", "closeall"}
    pend, n = {}, 0
    for e in seg:
        if e.get("ev") == "inv":
            if e["a"] in mut and any(o["a"] in mut and (o["ns"] == e["ns"] or "closeall" in (o["a"], e["a"])) for o in pend.values()):
                n += 1
            pend[e["p"]] = e
        elif e.get("ev") == "ret":
            pend.pop(e["p"], None)
    return n


def _ctv(ctx):
    n = 40 if ctx.quick else 400
    tp = ctx.path("x08_ctrace.ndjson")
    rc, out = ctx.go_test(PKG, "^TestVerifX08Conc$", env={"VERIF_OUT": tp, "VERIF_N": n}, race=not ctx.quick, timeout=1500)
    if "DATA RACE" in out or "fatal error: concurrent map" in out:
        ctx.violation({"kind": "race"}, "data race / concurrent map access in concurrent calls of one TrafficController", out[-4000:])
        return
    ev = ctx.read_ndjson(tp)
    if rc != 0 or not ev:
        ctx.inconclusive("X08 concurrent harness failed:\n" + out[-3000:])
    dl = [e for e in ev if e.get("ev") == "deadlock"]
    if dl:
        ctx.violation({"kind": "conc", "class": "deadlock"}, "concurrent calls of one TrafficController dead-lock on tc.mutex", dl[0])
        ev = [e for e in ev if e.get("ev") != "deadlock"]
        # the unfinished trace is not in the file; validate the rest
    segs = _segments(ev)
    ctx.evals(sum(1 for e in ev if e.get("ev") == "inv"))
    over = [_overlap(s[1]) for s in segs]
    ctx.cov["x08_concurrent"] = {"traces": len(segs), "calls": sum(1 for e in ev if e.get("ev") == "inv"),
                                 "overlapping_mutations": sum(over)}
    if sum(1 for x in over if x) < len(segs) // 4:
        ctx.inconclusive("X08 concurrent: only %d of %d histories have overlapping mutating calls on one namespace" % (sum(1 for x in over if x), len(segs)))
    panics = [e for e in ev if e.get("ev") == "inv" and e.get("r", {}).get("panic")]
    for e in panics[:3]:
        ctx.violation({"kind": "conc", "class": "panic", "op": e["a"]}, "a concurrent %s panicked: %s" % (e["a"], e["r"]["panic"][:300]), e)
    # pass 1: the contract plus the one known deviation (create on an existing name may leave the replaced generation open)
    flat, cur = ev, segs
    accepted = False
    for rnd in range(6):
        p = ctx.write_ndjson("x08_ct_%d.ndjson" % rnd, flat)
        tr = ctx.tlc_trace("TrafficCtl_CTrace", (TRACE_CFG % "replace_any") + INVS_LENIENT, p, timeout=1500)
        if tr.accepted:
            accepted = True
            break
        st, seg = _seg_at(cur, tr.hwm)
        e = seg[min(tr.hwm - st, len(seg) - 1)]
        pend = _pending(seg, tr.hwm - st)
        ctx.violation({"kind": "conc", "class": "no-linearisation", "inv": tr.inv or "", "ops": sorted({x["a"] for x in pend})},
                      "concurrent history of the real TrafficController has no linearisation the contract allows; calls pending at the first "
                      "unexplained return (event #%d): %s%s" % (tr.hwm + 1, jdump([_brief(x) for x in pend])[:900],
                                                               ", invariant %s" % tr.inv if tr.inv else ""), seg)
        flat = [x for s0, sg in cur if s0 != st for x in sg]
        cur = _segments(flat)
        if not flat:
            break
    if not accepted:
        if not ctx.violations:
            ctx.inconclusive("X08 concurrent: traces rejected in 6 rounds")
        return
    good = len(cur)
    # pass 2: the strict contract.  Pass 1 has shown that every history is explained by the contract plus that deviation,
    # so a rejection here is that deviation.
    tr2 = ctx.tlc_trace("TrafficCtl_CTrace", (TRACE_CFG % "replace_close") + TINVS, p, timeout=1500)
    if not tr2.accepted:
        st, seg = _seg_at(cur, tr2.hwm)
        pend = _pending(seg, tr2.hwm - st)
        ctx.violation({"kind": "conc", "class": "create-existing-not-closed"},
                      "concurrent history explained only if Create on an existing name leaves the replaced generation open (neither closed nor "
                      "inherited); calls pending at event #%d: %s" % (tr2.hwm + 1, jdump([_brief(x) for x in pend])[:900]), seg)
    ctx.traces(good)
    for (s0, sg), o in zip(cur, [_overlap(s[1]) for s in cur]):
        if o:
            ctx.nontrivial({"conc": [_brief(x) for x in sg if x.get("ev") == "inv"]})
    ctx.sample({"kind": "concurrent-history", "events": [_brief(x) if x.get("ev") == "inv" else x for x in cur[0][1][:8]] if cur else []})
    ctx.log("concurrent histories: %d linearised (%d calls, %d overlapping mutations); strict contract %s"
            % (good, sum(1 for e in flat if e.get("ev") == "inv"), sum(over), "accepted" if tr2.accepted else "rejected (known deviation)"))


def _seg_at(segs, i):
    cur = segs[0]
    for s in segs:
        if s[0] <= i:
            cur = s
    return cur


def _pending(seg, idx):
    pend = {}
    for e in seg[:idx + 1]:
        if e.get("ev") == "inv":
            pend[e["p"]] = e
        elif e.get("ev") == "ret" and e is not seg[min(idx, len(seg) - 1)]:
            pend.pop(e["p"], None)
    return list(pend.values())


def _brief(e):
    r = e.get("r", {})
    return {"p": e.get("p"), "a": e.get("a"), "ns": e.get("ns"), "cat": e.get("cat"), "name": e.get("name"), "ver": e.get("ver"),
            "ok": r.get("ok"), "ret": r.get("ret"), "cbs": ["%s%d" % (c["cb"], c["id"]) for c in r.get("cbs", [])]}

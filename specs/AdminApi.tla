------------------------------ MODULE AdminApi ------------------------------
(* C18, implementation-shaped layer of the admin API's object mutations: pkg/api/object.go       *)
(* (createObject / updateObject / deleteObject / getObject / listObjects), pkg/api/cluster.go     *)
(* (_getObject, _putObject, _deleteObject, _getVersion, _plusOneVersion) and pkg/api/server.go    *)
(* (Lock / Unlock on the cluster mutex "/config/lock"; one handle per api.Server, i.e. the        *)
(* configuration (A) of ClusterMutex, whose contract -- at most one holder over all members --    *)
(* is what `holder` stands for here).  One action per etcd operation:                            *)
(*                                                                                              *)
(*   mutation:  Lock -> _getObject(name) -> 409 / 404 / 400 and Unlock, or                        *)
(*              _putObject / _deleteObject -> _getVersion -> Put(version+1), header := version+1 *)
(*              -> Unlock -> reply                                                                *)
(*   get/list:  one unlocked etcd read                                                           *)
(*                                                                                              *)
(* The object and the version are two keys written by two requests: the mutation is atomic only  *)
(* because of the lock.  UseLock = FALSE removes the lock (used to show that the refinement      *)
(* check is not vacuous).  (The middleware that stamps the current version on every reply --      *)
(* successful mutations overwrite it -- is not modelled: the property is silent about it.)        *)
(*                                                                                              *)
(* Object names are not independent in the store: the key of object n is /config/objects/<n>,    *)
(* so a store operation on the *prefix* of that key also reaches every object whose name extends *)
(* n ("sv" -> "svc", "svc-canary").  The name universe of the configurations, of the generator    *)
(* and of the harness therefore contains names that are proper string prefixes of one another     *)
(* (ProperPrefixes); the contract knows nothing of this: a request touches its own name only.     *)
(* DelPrefix = TRUE replaces the exact-key delete by a prefix delete (used to show that the       *)
(* refinement check sees collateral deletions).                                                   *)
(*                                                                                              *)
(* A mutation is successful or not by its reply, not by what it changes in the store: an update  *)
(* that re-sends the stored spec (a client writes the same content twice: Mk(c) is the client's   *)
(* number) is a successful mutation like any other - version + 1, a version of its own.           *)
(* SkipSamePut = TRUE models the alternative (the put is skipped when the stored content is       *)
(* identical, and so is the bump; the reply is 200 with the version the middleware stamped, i.e.  *)
(* the current one) to show that the refinement check sees it.                                    *)
EXTENDS Integers, FiniteSets, TLC

CONSTANTS Clients,    \* request goroutines, numbered 1..N (0 = nobody)
          Names, Kinds,
          MaxOps,     \* requests per client (bounds the model)
          UseLock,    \* BOOLEAN
          DelPrefix,  \* BOOLEAN: FALSE = the code (_deleteObject deletes the exact key); TRUE = delete by key prefix
          SkipSamePut \* BOOLEAN: FALSE = the code (every accepted create / update writes the object and bumps the version);
                      \*          TRUE = a put whose content equals the stored one is skipped together with its version bump

None == [k |-> "none", mk |-> 0]
NoObjs == [n \in Names |-> None]
(* <<x, y>>: name x is a proper string prefix of name y (TLC strings are atomic: the relation is listed) *)
ProperPrefixes == {<<"sv", "svc">>, <<"sv", "svc-canary">>, <<"svc", "svc-canary">>}
(* the names whose keys a delete of n's key reaches *)
Reached(n) == IF DelPrefix THEN {x \in Names : x = n \/ <<n, x>> \in ProperPrefixes} ELSE {n}
NoOp  == [t |-> "none", n |-> "-", k |-> "none", mk |-> 0]
NoRep == [st |-> "none", ver |-> 0, k |-> "none", mk |-> 0, all |-> NoObjs]
Rep(st, v, o, all) == [st |-> st, ver |-> v, k |-> o.k, mk |-> o.mk, all |-> all]

VARIABLES objs,    \* etcd: /config/objects/<name>
          ver,     \* etcd: /config/version
          holder,  \* the cluster mutex /config/lock: 0 or the client (request goroutine) holding it
          pc,      \* per client: "idle" | "lock" | "read" | "put" | "del" | "vread" | "vwrite" | "unlock" | "ret" | "gread"
          op,      \* per client: the request being served
          v,       \* per client: version read by _getVersion
          rep,     \* per client: reply being built
          nops,    \* per client: requests issued
          linver   \* ghost, per client: the abstract version right after the client's object write

vars == <<objs, ver, holder, pc, op, v, rep, nops, linver>>

(* the abstract version: a client that has written its object but not yet the version key has    *)
(* already "happened"                                                                            *)
AbsVer == ver + Cardinality({c \in Clients : pc[c] \in {"vread", "vwrite"}})

Mk(c) == c      \* content marker = the client's number: writes of different clients differ

OpsOf(c) == [t : {"create", "update"}, n : Names, k : Kinds, mk : {Mk(c)}]
            \cup [t : {"delete", "get"}, n : Names, k : {"none"}, mk : {0}]
            \cup {[t |-> "list", n |-> "-", k |-> "none", mk |-> 0]}

Init ==
    /\ objs = NoObjs /\ ver = 0 /\ holder = 0
    /\ pc = [c \in Clients |-> "idle"] /\ op = [c \in Clients |-> NoOp]
    /\ v = [c \in Clients |-> 0] /\ rep = [c \in Clients |-> NoRep]
    /\ nops = [c \in Clients |-> 0] /\ linver = [c \in Clients |-> 0]

Start(c, o) ==
    /\ pc[c] = "idle" /\ nops[c] < MaxOps
    /\ op' = [op EXCEPT ![c] = o] /\ nops' = [nops EXCEPT ![c] = @ + 1]
    /\ pc' = [pc EXCEPT ![c] = IF o.t \in {"get", "list"} THEN "gread" ELSE "lock"]
    /\ UNCHANGED <<objs, ver, holder, v, rep, linver>>

(* s.Lock(): granted only while nobody holds (contract of the cluster mutex) *)
AcquireLock(c) ==
    /\ pc[c] = "lock"
    /\ IF UseLock THEN holder = 0 /\ holder' = c ELSE UNCHANGED holder
    /\ pc' = [pc EXCEPT ![c] = "read"]
    /\ UNCHANGED <<objs, ver, op, v, rep, nops, linver>>

(* existedSpec := s._getObject(name) and the checks that follow *)
Read(c) ==
    /\ pc[c] = "read"
    /\ LET cur == objs[op[c].n]
           refuse(st) == /\ rep' = [rep EXCEPT ![c] = Rep(st, 0, None, NoObjs)]
                         /\ pc' = [pc EXCEPT ![c] = "unlock"]
           go(to) == /\ pc' = [pc EXCEPT ![c] = to] /\ UNCHANGED rep
       IN CASE op[c].t = "create" -> IF cur.k # "none" THEN refuse("conflict") ELSE go("put")
            [] op[c].t = "update" -> IF cur.k = "none" THEN refuse("other")
                                     ELSE IF cur.k # op[c].k THEN refuse("badreq") ELSE go("put")
            [] op[c].t = "delete" -> IF cur.k = "none" THEN refuse("other") ELSE go("del")
    /\ UNCHANGED <<objs, ver, holder, op, v, nops, linver>>

PutObj(c) ==
    /\ pc[c] = "put"
    /\ IF SkipSamePut /\ objs[op[c].n] = [k |-> op[c].k, mk |-> op[c].mk]
       THEN /\ rep' = [rep EXCEPT ![c] = Rep("ok", ver, None, NoObjs)]
            /\ pc' = [pc EXCEPT ![c] = "unlock"]
            /\ UNCHANGED <<objs, linver>>
       ELSE /\ objs' = [objs EXCEPT ![op[c].n] = [k |-> op[c].k, mk |-> op[c].mk]]
            /\ linver' = [linver EXCEPT ![c] = AbsVer + 1]
            /\ pc' = [pc EXCEPT ![c] = "vread"]
            /\ UNCHANGED rep
    /\ UNCHANGED <<ver, holder, op, v, nops>>

DelObj(c) ==
    /\ pc[c] = "del"
    /\ objs' = [x \in Names |-> IF x \in Reached(op[c].n) THEN None ELSE objs[x]]
    /\ linver' = [linver EXCEPT ![c] = AbsVer + 1]
    /\ pc' = [pc EXCEPT ![c] = "vread"]
    /\ UNCHANGED <<ver, holder, op, v, rep, nops>>

(* _plusOneVersion: read ... *)
VRead(c) ==
    /\ pc[c] = "vread"
    /\ v' = [v EXCEPT ![c] = ver]
    /\ pc' = [pc EXCEPT ![c] = "vwrite"]
    /\ UNCHANGED <<objs, ver, holder, op, rep, nops, linver>>

(* ... and write; the new value goes into the X-Config-Version header *)
VWrite(c) ==
    /\ pc[c] = "vwrite"
    /\ ver' = v[c] + 1
    /\ rep' = [rep EXCEPT ![c] = Rep("ok", v[c] + 1, None, NoObjs)]
    /\ pc' = [pc EXCEPT ![c] = "unlock"]
    /\ UNCHANGED <<objs, holder, op, v, nops, linver>>

(* deferred s.Unlock() *)
Unlock(c) ==
    /\ pc[c] = "unlock"
    /\ IF UseLock THEN holder = c /\ holder' = 0 ELSE UNCHANGED holder
    /\ pc' = [pc EXCEPT ![c] = "ret"]
    /\ UNCHANGED <<objs, ver, op, v, rep, nops, linver>>

(* getObject / listObjects: "No need to lock." *)
GRead(c) ==
    /\ pc[c] = "gread"
    /\ rep' = [rep EXCEPT ![c] = IF op[c].t = "get"
                                 THEN Rep(IF objs[op[c].n].k = "none" THEN "other" ELSE "ok", 0, objs[op[c].n], NoObjs)
                                 ELSE Rep("ok", 0, None, objs)]
    /\ pc' = [pc EXCEPT ![c] = "ret"]
    /\ UNCHANGED <<objs, ver, holder, op, v, nops, linver>>

(* the reply reaches the client *)
Ret(c) ==
    /\ pc[c] = "ret"
    /\ pc' = [pc EXCEPT ![c] = "idle"] /\ op' = [op EXCEPT ![c] = NoOp] /\ rep' = [rep EXCEPT ![c] = NoRep]
    /\ v' = [v EXCEPT ![c] = 0] /\ linver' = [linver EXCEPT ![c] = 0]
    /\ UNCHANGED <<objs, ver, holder, nops>>

Next == \E c \in Clients :
           \/ \E o \in OpsOf(c) : Start(c, o)
           \/ AcquireLock(c) \/ Read(c) \/ PutObj(c) \/ DelObj(c) \/ VRead(c) \/ VWrite(c) \/ Unlock(c) \/ GRead(c) \/ Ret(c)

Spec == Init /\ [][Next]_vars

-----------------------------------------------------------------------------
TypeOK == /\ ver >= 0
          /\ holder \in Clients \cup {0}
          /\ \A n \in Names : objs[n].k \in Kinds \cup {"none"}

(* at most one request inside the locked section *)
OneInside == UseLock => Cardinality({c \in Clients : pc[c] \in {"read", "put", "del", "vread", "vwrite", "unlock"}}) <= 1

(* refinement of the contract: a refused request takes effect at its read, a successful one at   *)
(* its object write; the version write is a stuttering step                                      *)
AbsSt == [c \in Clients |-> CASE pc[c] = "idle" -> "idle"
                              [] pc[c] \in {"lock", "read", "put", "del", "gread"} -> "pend"
                              [] OTHER -> "done"]
AbsRep == [c \in Clients |-> CASE pc[c] \in {"vread", "vwrite"} -> Rep("ok", linver[c], None, NoObjs)
                               [] pc[c] \in {"unlock", "ret"} -> rep[c]
                               [] OTHER -> NoRep]
K == INSTANCE AdminApiContract WITH objs <- objs, ver <- AbsVer, cst <- AbsSt, cop <- op, crep <- AbsRep,
                                   MaxMk <- Cardinality(Clients)
Refines == K!CSpec
=============================================================================

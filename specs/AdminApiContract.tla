-------------------------- MODULE AdminApiContract --------------------------
(* C18, contract layer of the admin API's object mutations (pkg/api/object.go).                  *)
(*                                                                                              *)
(* What the property says: concurrent create / update / delete requests are serialised.  Every   *)
(* request takes effect atomically at one instant between its invocation and its reply (Lin);    *)
(* every successful mutation bumps the config version by exactly one and returns the new value   *)
(* (X-Config-Version): versions of successes are distinct and gap-free; creating an existing     *)
(* name is refused with 409 ("conflict"), updating with another kind with 400 ("badreq"), and a  *)
(* refused request modifies nothing; the stored objects are the fold of the successes in version *)
(* order (they are, by construction: only Lin steps of successes change `objs`).                 *)
(* Where the text is silent the contract is free: updating or deleting a name that does not      *)
(* exist may be refused with any error class or treated as a success (put / no-op + version).    *)
(* get / list are reads of the stored objects at one instant.  Any request may also be answered  *)
(* with a server error (5xx: e.g. the cluster lock was not obtained in time); by the property's  *)
(* last clause only successful requests modify the store, so such a request has no effect.       *)
EXTENDS Integers, FiniteSets

CONSTANTS Clients, Names, Kinds,
          MaxMk      \* content markers 1..MaxMk (only bounds CNext for model checking)

None == [k |-> "none", mk |-> 0]          \* absent object; `mk` identifies the content written
NoObjs == [n \in Names |-> None]
FailSt == {"conflict", "badreq", "other"}  \* 409, 400, any other 4xx (404 in the code)

VARIABLES objs,   \* [Names -> [k, mk]]  stored objects
          ver,    \* config version
          cst,    \* per client: "idle" | "pend" (invoked) | "done" (took effect, reply not yet delivered)
          cop,    \* per client: the request [t, n, k, mk]
          crep    \* per client: the reply [st, ver, k, mk, all]

cvars == <<objs, ver, cst, cop, crep>>

NoOp  == [t |-> "none", n |-> "-", k |-> "none", mk |-> 0]
NoRep == [st |-> "none", ver |-> 0, k |-> "none", mk |-> 0, all |-> NoObjs]

Rep(st, v, o, all) == [st |-> st, ver |-> v, k |-> o.k, mk |-> o.mk, all |-> all]
Put(o, op) == [o EXCEPT ![op.n] = [k |-> op.k, mk |-> op.mk]]
Del(o, op) == [o EXCEPT ![op.n] = None]

(* all allowed outcomes [rep, objs, ver] of request op in state (o, v) *)
Outcomes(op, o, v) ==
    LET cur  == o[op.n]
        okPut == [rep |-> Rep("ok", v + 1, None, NoObjs), objs |-> Put(o, op), ver |-> v + 1]
        fail(S) == {[rep |-> Rep(s, 0, None, NoObjs), objs |-> o, ver |-> v] : s \in S}
    IN fail({"error"}) \cup
       CASE op.t = "create" -> IF cur.k # "none" THEN fail({"conflict"}) ELSE {okPut}
         [] op.t = "update" -> IF cur.k = "none" THEN fail(FailSt) \cup {okPut}
                               ELSE IF cur.k # op.k THEN fail({"badreq"}) ELSE {okPut}
         [] op.t = "delete" -> IF cur.k = "none"
                               THEN fail(FailSt) \cup {[rep |-> Rep("ok", v + 1, None, NoObjs), objs |-> o, ver |-> v + 1]}
                               ELSE {[rep |-> Rep("ok", v + 1, None, NoObjs), objs |-> Del(o, op), ver |-> v + 1]}
         [] op.t = "get"    -> {[rep |-> Rep(IF cur.k = "none" THEN "other" ELSE "ok", 0, cur, NoObjs), objs |-> o, ver |-> v]}
         [] op.t = "list"   -> {[rep |-> Rep("ok", 0, None, o), objs |-> o, ver |-> v]}

CInit == /\ objs = NoObjs /\ ver = 0
         /\ cst = [c \in Clients |-> "idle"] /\ cop = [c \in Clients |-> NoOp] /\ crep = [c \in Clients |-> NoRep]

Invoke(c, op) == /\ cst[c] = "idle"
                 /\ cst' = [cst EXCEPT ![c] = "pend"] /\ cop' = [cop EXCEPT ![c] = op]
                 /\ UNCHANGED <<objs, ver, crep>>

(* the instant at which the request takes effect *)
Lin(c) == /\ cst[c] = "pend"
          /\ \E oc \in Outcomes(cop[c], objs, ver) :
                /\ objs' = oc.objs /\ ver' = oc.ver
                /\ crep' = [crep EXCEPT ![c] = oc.rep]
          /\ cst' = [cst EXCEPT ![c] = "done"]
          /\ UNCHANGED cop

Return(c) == /\ cst[c] = "done"
             /\ cst' = [cst EXCEPT ![c] = "idle"] /\ cop' = [cop EXCEPT ![c] = NoOp] /\ crep' = [crep EXCEPT ![c] = NoRep]
             /\ UNCHANGED <<objs, ver>>

AllOps == [t : {"create", "update"}, n : Names, k : Kinds, mk : 1..MaxMk]
          \cup [t : {"delete", "get"}, n : Names, k : {"none"}, mk : {0}]
          \cup {[t |-> "list", n |-> "-", k |-> "none", mk |-> 0]}

CNext == \E c \in Clients : (\E op \in AllOps : Invoke(c, op)) \/ Lin(c) \/ Return(c)
CSpec == CInit /\ [][CNext]_cvars

(* the clauses as action properties of the contract *)
Mutating(c) == cst[c] = "pend" /\ cst'[c] = "done"
SuccessBumpsByOne  == [][\A c \in Clients : (Mutating(c) /\ crep'[c].st = "ok" /\ cop[c].t \in {"create", "update", "delete"})
                                              => (ver' = ver + 1 /\ crep'[c].ver = ver')]_cvars
RefusedChangesNothing == [][\A c \in Clients : (Mutating(c) /\ crep'[c].st # "ok") => (objs' = objs /\ ver' = ver)]_cvars
CreateExisting409  == [][\A c \in Clients : (Mutating(c) /\ cop[c].t = "create" /\ objs[cop[c].n].k # "none") => crep'[c].st \in {"conflict", "error"}]_cvars
UpdateOtherKind400 == [][\A c \in Clients : (Mutating(c) /\ cop[c].t = "update" /\ objs[cop[c].n].k \notin {"none", cop[c].k})
                                              => crep'[c].st \in {"badreq", "error"}]_cvars
Bounded == ver <= 3     \* state constraint for model checking the contract on its own
VersionOnlyBySuccess == [][ver' # ver => \E c \in Clients : Mutating(c) /\ crep'[c].st = "ok"]_cvars
=============================================================================

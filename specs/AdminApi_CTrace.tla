--------------------------- MODULE AdminApi_CTrace --------------------------
(* Trace validation for C18 (admin API).  Concurrent clients issue create / update / delete /    *)
(* get / list requests against the real api.Server(s) of one or two members; the harness logs     *)
(* every request at invocation and every reply (status class, X-Config-Version, body) with a      *)
(* global sequence number.  TLC searches for a linearisation allowed by AdminApiContract: each    *)
(* request takes effect at a silent Lin step between `inv` and `ret`, and the reply must be the   *)
(* contract's -- in particular the versions of the successes must be ver0+1, ver0+2, ... in       *)
(* linearisation order.  A `final` event (taken at quiescence) carries the stored objects and     *)
(* version: they must equal the contract's, i.e. the fold of the successes in version order.      *)
EXTENDS AdminApiContract, Sequences, Json, TLC, IOUtils

TLog == ndJsonDeserialize(IOEnv.VERIF_TRACE)

VARIABLES l,
          exp     \* per client: status class of the reply that was observed for the pending request (copied by
                  \* the driver from the `ret` event onto the `inv` event): prunes the search, nothing else
tvars == <<cvars, l, exp>>

IsEvent(e) == l <= Len(TLog) /\ TLog[l].ev = e /\ l' = l + 1
Ev == TLog[l]

TReset == /\ IsEvent("reset")
          /\ objs' = NoObjs /\ ver' = Ev.ver
          /\ cst' = [c \in Clients |-> "idle"] /\ cop' = [c \in Clients |-> NoOp] /\ crep' = [c \in Clients |-> NoRep]
          /\ exp' = [c \in Clients |-> "none"]

TInv(c) == /\ IsEvent("inv") /\ Ev.p = c
           /\ Invoke(c, [t |-> Ev.op, n |-> Ev.n, k |-> Ev.k, mk |-> Ev.mk])
           /\ exp' = [exp EXCEPT ![c] = Ev.r_st]

IsMutation(t) == t \in {"create", "update", "delete"}

TRet(c) == /\ IsEvent("ret") /\ Ev.p = c /\ cst[c] = "done"
           /\ crep[c].st = Ev.st
           /\ (IsMutation(cop[c].t) /\ Ev.st = "ok") => crep[c].ver = Ev.ver
           /\ (cop[c].t = "get" /\ Ev.st = "ok") => (crep[c].k = Ev.k /\ crep[c].mk = Ev.mk)
           /\ (cop[c].t = "list") => crep[c].all = Ev.objs
           /\ Return(c)
           /\ UNCHANGED exp

TLin(c) == Lin(c) /\ crep'[c].st = exp[c] /\ UNCHANGED <<l, exp>>

TFinal == /\ IsEvent("final")
          /\ \A c \in Clients : cst[c] = "idle"
          /\ objs = Ev.objs /\ ver = Ev.ver
          /\ UNCHANGED <<cvars, exp>>

TNext == TReset \/ TFinal \/ \E c \in Clients : TInv(c) \/ TLin(c) \/ TRet(c)

TInit == l = 1 /\ CInit /\ exp = [c \in Clients |-> "none"]
TSpec == TInit /\ [][TNext]_tvars

ASSUME TLCSet(1, 0)
HWM == TLCSet(1, IF l - 1 > TLCGet(1) THEN l - 1 ELSE TLCGet(1))
Accepted == /\ PrintT(<<"VERIF_HWM", TLCGet(1), Len(TLog)>>)
            /\ TLCGet(1) = Len(TLog)
=============================================================================

---------------------------- MODULE AdminApi_Gen ----------------------------
(* Behaviour generator for C18 (admin API): sequential histories of the contract.  Each step is  *)
(* one request taking effect (Invoke; Lin; Return of AdminApiContract in one step); `out` is the *)
(* JSON description of the request, the reply the contract predicts and the stored objects and   *)
(* version afterwards.  Where the contract is free (update / delete of a missing name) the       *)
(* generator follows the refusing branch and marks the step `free`: a real server that takes the *)
(* other allowed branch ends the replay of that behaviour without a mismatch.                    *)
EXTENDS AdminApiContract, Json

VARIABLES out, steps
gvars == <<cvars, out, steps>>

(* the content of a create / update is new (marker m = number of the step) or the very content stored under   *)
(* that name now (its marker): requests that re-send the stored spec - an update that changes nothing in the  *)
(* store is a successful mutation like any other, a create of the same thing a conflict                      *)
GenOps(m) == {o \in [t : {"create", "update"}, n : Names, k : Kinds, mk : {m} \cup {objs[n].mk : n \in Names}] :
                 o.mk = m \/ (o.mk # 0 /\ o.mk = objs[o.n].mk)}
             \cup [t : {"delete", "get"}, n : Names, k : {"none"}, mk : {0}]
             \cup {[t |-> "list", n |-> "-", k |-> "none", mk |-> 0]}

IsFree(op) == op.t \in {"update", "delete"} /\ objs[op.n].k = "none"
(* the request leaves the stored content as it is although it succeeds *)
IsSame(op) == op.t = "update" /\ objs[op.n] = [k |-> op.k, mk |-> op.mk]

GInit == CInit /\ steps = 0 /\ out = ToJson([t |-> "init", ver |-> 0])

GStep == /\ steps' = steps + 1
         /\ \E op \in GenOps(steps + 1) :
              \E oc \in Outcomes(op, objs, ver) :
                 /\ oc.rep.st # "error"
                 /\ IsFree(op) => oc.rep.st = "other"
                 /\ objs' = oc.objs /\ ver' = oc.ver
                 /\ out' = ToJson([t |-> op.t, n |-> op.n, k |-> op.k, mk |-> op.mk, free |-> IsFree(op), same |-> IsSame(op),
                                   st |-> oc.rep.st, rver |-> oc.rep.ver, rk |-> oc.rep.k, rmk |-> oc.rep.mk, rall |-> oc.rep.all,
                                   objs |-> oc.objs, ver |-> oc.ver])
         /\ UNCHANGED <<cst, cop, crep>>

GSpec == GInit /\ [][GStep]_gvars

(* the clauses on sequential histories (trivially inherited; checked to keep the generator honest) *)
VersionCountsSuccesses == ver <= steps
=============================================================================

--------------------------- MODULE CircuitBreaker ---------------------------
(* C08.  Contract of easegress' circuit breaker (pkg/util/circuitbreaker), one action per      *)
(* critical section of the code (AcquirePermission, RecordResult are each one locked section).  *)
(*                                                                                              *)
(* Time is an integer number of ticks of 500 ms; Sec(t) = t \div 2 is the wall-clock second     *)
(* a tick lies in (the code buckets a time window by truncated seconds).  All durations of a    *)
(* policy are given in ticks.                                                                   *)
(*                                                                                              *)
(* The abstract window `win` is the sequence of results the property talks about ("the last N   *)
(* calls, or the calls of the last N seconds"), not the code's ring of buckets.                 *)
EXTENDS Integers, Sequences, FiniteSets

CONSTANTS Policies,     \* set of policy records to explore
          MaxNow,       \* bound on the clock (model checking only)
          MaxCalls      \* bound on admitted calls (model checking only)

(* How a call completed.  The property names success / failure / slow; a completion has two      *)
(* attributes, though - did it fail, and how long did it take - so a fourth class exists: the     *)
(* call that failed AND took at least slowCallDurationThreshold ("failslow": a backend time-out    *)
(* is the typical one).  Such a call is a failure - it counts for the failure rate like any other  *)
(* failed call; whether it is counted for the slow-call rate as well is left open by the text      *)
(* (the pinned code does not, resilience4j does), and so by the contract.                           *)
Results == {"ok", "slow", "fail", "failslow"}

(* policy record: [failT, slowT \in 1..100, wt \in {"count","time"}, wsize, minCalls, permitted,
                   waitOpen, maxWaitHO]  (the two durations in ticks)                           *)

VARIABLES pol,      \* the policy (constant along a behaviour)
          state,    \* "closed" | "open" | "halfopen"
          epoch,    \* the code's stateID: bumped on every transition
          transit,  \* tick of the last transition
          win,      \* abstract sliding window: sequence of [s |-> second, r |-> result]
          trials,   \* calls admitted in the current half-open state
          now,      \* clock in ticks
          pend,     \* sequence of epochs of admitted, not yet recorded calls (oldest first)
          calls,    \* number of calls admitted so far (bounds the model)
          last      \* description of the step just taken (observation; excluded from VIEW)

vars == <<pol, state, epoch, transit, win, trials, now, pend, calls, last>>
view == <<pol, state, epoch, transit, win, trials, now, pend, calls>>

Sec(t) == t \div 2
Min(a, b) == IF a < b THEN a ELSE b

Count(w, r) == Cardinality({i \in 1..Len(w) : w[i].r = r})

RECURSIVE DropWhileOld(_, _)
DropWhileOld(w, lim) == IF w # <<>> /\ Head(w).s <= lim THEN DropWhileOld(Tail(w), lim) ELSE w

LastN(w, n) == IF Len(w) <= n THEN w ELSE SubSeq(w, Len(w) - n + 1, Len(w))

(* the window after recording result r at time `now` in the current state *)
Pushed(r) ==
    LET e == [s |-> Sec(now), r |-> r] IN
    IF state = "halfopen" THEN LastN(Append(win, e), pol.permitted)
    ELSE IF pol.wt = "count" THEN LastN(Append(win, e), pol.wsize)
    ELSE Append(DropWhileOld(win, Sec(now) - pol.wsize), e)

Failed(w) == Count(w, "fail") + Count(w, "failslow")

(* a rate is at or above its threshold whichever way failed-and-slow calls are counted for the slow rate *)
MustOpen(w) ==
    LET tot == Len(w) IN
    \/ 100 * Failed(w) >= pol.failT * tot
    \/ 100 * Count(w, "slow") >= pol.slowT * tot

(* ... for at least one of the two ways *)
MayOpen(w) ==
    LET tot == Len(w) IN
    \/ MustOpen(w)
    \/ 100 * (Count(w, "slow") + Count(w, "failslow")) >= pol.slowT * tot

(* the rates as they would be if a failed-and-slow call were a slow call only (not a failure): a    *)
(* reading the text excludes; used to mark the steps on which it shows (`dec`, observation only)    *)
SlowOnlyReading(w) ==
    LET tot == Len(w) IN
    \/ 100 * Count(w, "fail") >= pol.failT * tot
    \/ 100 * (Count(w, "slow") + Count(w, "failslow")) >= pol.slowT * tot

Init ==
    /\ pol \in Policies
    /\ state = "closed" /\ epoch = 1 /\ transit = 0 /\ win = <<>> /\ trials = 0
    /\ now = 0 /\ pend = <<>> /\ calls = 0
    /\ last = [a |-> "init"]

Tick(d) ==
    /\ now + d <= MaxNow
    /\ now' = now + d
    /\ last' = [a |-> "tick", d |-> d]
    /\ UNCHANGED <<pol, state, epoch, transit, win, trials, pend, calls>>

(* ---- AcquirePermission ---- *)
AcqClosed ==
    /\ state = "closed"
    /\ pend' = Append(pend, epoch) /\ calls' = calls + 1
    /\ last' = [a |-> "acq", ok |-> TRUE, ep |-> epoch, st |-> state]
    /\ UNCHANGED <<pol, state, epoch, transit, win, trials, now>>

AcqOpenReject ==
    /\ state = "open" /\ now - transit < pol.waitOpen
    /\ last' = [a |-> "acq", ok |-> FALSE, ep |-> epoch, st |-> state]
    /\ UNCHANGED <<pol, state, epoch, transit, win, trials, now, pend, calls>>

(* open -> half-open, and the first trial is admitted in the same step *)
AcqOpenToHalf ==
    /\ state = "open" /\ now - transit >= pol.waitOpen
    /\ state' = "halfopen" /\ epoch' = epoch + 1 /\ transit' = now /\ win' = <<>>
    /\ IF pol.permitted > 0
       THEN /\ trials' = 1 /\ pend' = Append(pend, epoch + 1) /\ calls' = calls + 1
            /\ last' = [a |-> "acq", ok |-> TRUE, ep |-> epoch + 1, st |-> "halfopen"]
       ELSE /\ trials' = 0 /\ UNCHANGED <<pend, calls>>
            /\ last' = [a |-> "acq", ok |-> FALSE, ep |-> epoch + 1, st |-> "halfopen"]
    /\ UNCHANGED <<pol, now>>

AcqHalfTrial ==
    /\ state = "halfopen" /\ trials < pol.permitted
    /\ trials' = trials + 1 /\ pend' = Append(pend, epoch) /\ calls' = calls + 1
    /\ last' = [a |-> "acq", ok |-> TRUE, ep |-> epoch, st |-> state]
    /\ UNCHANGED <<pol, state, epoch, transit, win, now>>

AcqHalfReject ==
    /\ state = "halfopen" /\ trials >= pol.permitted
    /\ ~(pol.maxWaitHO > 0 /\ now - transit > pol.maxWaitHO)
    /\ last' = [a |-> "acq", ok |-> FALSE, ep |-> epoch, st |-> state]
    /\ UNCHANGED <<pol, state, epoch, transit, win, trials, now, pend, calls>>

AcqHalfStalled ==
    /\ state = "halfopen" /\ trials >= pol.permitted
    /\ pol.maxWaitHO > 0 /\ now - transit > pol.maxWaitHO
    /\ state' = "open" /\ epoch' = epoch + 1 /\ transit' = now
    /\ last' = [a |-> "acq", ok |-> FALSE, ep |-> epoch + 1, st |-> "open"]
    /\ UNCHANGED <<pol, win, trials, now, pend, calls>>

Acquire == AcqClosed \/ AcqOpenReject \/ AcqOpenToHalf \/ AcqHalfTrial \/ AcqHalfReject \/ AcqHalfStalled

(* ---- RecordResult(stateID of the i-th outstanding call, r) ---- *)
RemoveAt(s, i) == SubSeq(s, 1, i - 1) \o SubSeq(s, i + 1, Len(s))

RecStale(i, r) ==
    /\ i \in 1..Len(pend) /\ pend[i] # epoch
    /\ pend' = RemoveAt(pend, i)
    /\ last' = [a |-> "rec", i |-> i, r |-> r, st |-> state, stale |-> TRUE, free |-> FALSE, alt |-> state, dec |-> FALSE]
    /\ UNCHANGED <<pol, state, epoch, transit, win, trials, now, calls>>

(* `free`: the text leaves the outcome of this step open (both successor states are contract steps, *)
(* `alt` is the other one); `dec`: the step opens the breaker because a failed-and-slow call is a     *)
(* failure, and would not if it were only slow.                                                        *)
RecLive(i, r) ==
    /\ i \in 1..Len(pend) /\ pend[i] = epoch
    /\ pend' = RemoveAt(pend, i)
    /\ LET w == Pushed(r)
           minc == IF state = "halfopen" THEN Min(pol.minCalls, pol.permitted) ELSE pol.minCalls
           enough == Len(w) >= minc
           free == enough /\ MayOpen(w) /\ ~MustOpen(w)
           quiet == IF enough /\ state = "halfopen" THEN "closed" ELSE state     \* the state when it does not open
       IN  \/ /\ enough /\ MayOpen(w)
              /\ state' = "open" /\ epoch' = epoch + 1 /\ transit' = now /\ win' = w
              /\ UNCHANGED trials
              /\ last' = [a |-> "rec", i |-> i, r |-> r, st |-> "open", stale |-> FALSE, free |-> free,
                          alt |-> IF free THEN quiet ELSE "open",
                          dec |-> (r = "failslow" /\ ~free /\ ~SlowOnlyReading(w))]
           \/ /\ ~(enough /\ MustOpen(w))
              /\ IF enough /\ state = "halfopen"
                 THEN /\ state' = "closed" /\ epoch' = epoch + 1 /\ transit' = now /\ win' = <<>>
                      /\ UNCHANGED trials
                 ELSE /\ win' = w /\ UNCHANGED <<state, epoch, transit, trials>>
              /\ last' = [a |-> "rec", i |-> i, r |-> r, st |-> quiet, stale |-> FALSE, free |-> free,
                          alt |-> IF free THEN "open" ELSE quiet, dec |-> FALSE]
    /\ UNCHANGED <<pol, now, calls>>

Record(i, r) == RecStale(i, r) \/ RecLive(i, r)

Next ==
    \/ \E d \in 1..3 : Tick(d)
    \/ (calls < MaxCalls /\ Acquire)
    \/ \E i \in 1..Len(pend), r \in Results : Record(i, r)

Spec == Init /\ [][Next]_vars

-----------------------------------------------------------------------------
(* The clauses of C08 as invariants / action properties of the contract.                        *)

TypeOK ==
    /\ state \in {"closed", "open", "halfopen"}
    /\ trials \in 0..pol.permitted
    /\ \A i \in 1..Len(pend) : pend[i] <= epoch

(* closed admits all: an acquire in closed is permitted *)
ClosedAdmitsAll == [][(last'.a = "acq" /\ state = "closed") => last'.ok]_vars

(* open short-circuits until waitOpen elapsed *)
OpenRejectsUntilWait == [][(last'.a = "acq" /\ state = "open" /\ now - transit < pol.waitOpen) => ~last'.ok]_vars

(* half-open: never more than `permitted` calls of the current half-open epoch outstanding or recorded *)
HalfOpenAdmitsAtMostPermitted == state = "halfopen" => trials <= pol.permitted

(* results of calls admitted in an earlier state are ignored *)
StaleResultsIgnored ==
    [][(last'.a = "rec" /\ last'.stale) => UNCHANGED <<state, epoch, win, transit>>]_vars

(* the breaker opens by a record only with enough calls at or above a threshold *)
OpensOnlyAtOrAboveThreshold ==
    [][(last'.a = "rec" /\ state # "open" /\ state' = "open") =>
          (MayOpen(win') /\ Len(win') >= (IF state = "halfopen" THEN Min(pol.minCalls, pol.permitted) ELSE pol.minCalls))]_vars

(* ... and must open when it is *)
MustOpenAtThreshold ==
    [][(last'.a = "rec" /\ ~last'.stale /\ state' # "open") =>
          ~(MustOpen(win') /\ Len(win') >= pol.minCalls /\ state' = state /\ win' # <<>>)]_vars

(* closes only from half-open *)
ClosesOnlyFromHalfOpen == [][(last'.a # "init" /\ state # "closed" /\ state' = "closed") => state = "halfopen"]_vars

(* every transition bumps the epoch *)
EpochBumps == [][(last'.a # "init" /\ state' # state) => epoch' = epoch + 1]_vars

(* a stalled half-open breaker reopens when asked after maxWaitHO *)
MaxWaitReopens ==
    [][(last'.a = "acq" /\ state = "halfopen" /\ trials >= pol.permitted /\ pol.maxWaitHO > 0
          /\ now - transit > pol.maxWaitHO) => state' = "open"]_vars

=============================================================================

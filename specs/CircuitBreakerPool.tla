-------------------------- MODULE CircuitBreakerPool --------------------------
(* C08, pool-level clause: "the Proxy reports a short-circuited call as 503 with result          *)
(* shortCircuited without contacting any server" - and, for an admitted request, the breaker      *)
(* records exactly one result however many transport calls (retries) the request contained.       *)
(*                                                                                              *)
(* The breaker is the contract of CircuitBreaker.tla, unchanged.  A client request through        *)
(* ServerPool.handle is (pkg/resilience/circuitbreaker.go: circuitBreakerWrapper.Wrap)             *)
(*   Arrive   AcquirePermission                                   (one breaker step: Acquire)      *)
(*   Reject   not permitted: ErrShortCircuited -> 503 / shortCircuited, no transport call, no      *)
(*            RecordResult                                                                         *)
(*   Serve    permitted: k >= 1 transport calls (retry loop inside the breaker), then one          *)
(*            RecordResult(failure iff the request finally failed)  (one breaker step: Record)     *)
(* Requests are served one at a time here (the concurrent behaviour of the breaker itself is C08's *)
(* main part).                                                                                     *)
EXTENDS CircuitBreaker

CONSTANT MaxAttempts     \* bound on transport calls per request (retry policy's maxAttempts)

VARIABLES ph,      \* 0: no request in progress, 1: admitted, 2: rejected
          sent,    \* transport calls made so far
          obs      \* what the client saw of the last finished request

pvars == <<vars, ph, sent, obs>>
pview == <<view, ph>>

PInit == Init /\ ph = 0 /\ sent = 0 /\ obs = [res |-> "none", st |-> 0, k |-> 0]

PTick(d) == ph = 0 /\ Tick(d) /\ UNCHANGED <<ph, sent, obs>>

Arrive ==
    /\ ph = 0 /\ Acquire
    /\ ph' = IF last'.ok THEN 1 ELSE 2
    /\ UNCHANGED <<sent, obs>>

Reject ==
    /\ ph = 2 /\ ph' = 0
    /\ obs' = [res |-> "shortCircuited", st |-> 503, k |-> 0]
    /\ UNCHANGED <<vars, sent>>

(* r: "ok" | "slow" | "fail" - the single result recorded for the whole request *)
Serve(k, r) ==
    /\ ph = 1 /\ ph' = 0 /\ k \in 1..MaxAttempts
    /\ Record(Len(pend), r)                      \* the permit of this request is the newest one
    /\ sent' = sent + k
    /\ obs' = [res |-> IF r = "fail" THEN "failed" ELSE "passed", st |-> 0, k |-> k]

PNext ==
    \/ \E d \in 1..2 : PTick(d)
    \/ (calls < MaxCalls /\ Arrive)
    \/ Reject
    \/ \E k \in 1..MaxAttempts, r \in Results : Serve(k, r)

PSpec == PInit /\ [][PNext]_pvars

-----------------------------------------------------------------------------
(* a short-circuited request contacts no server, records nothing, and is reported as 503/shortCircuited *)
ShortCircuitedUntouched ==
    [][ph = 2 => (sent' = sent /\ win' = win /\ state' = state /\ epoch' = epoch /\ pend' = pend
                  /\ obs'.res = "shortCircuited" /\ obs'.st = 503 /\ obs'.k = 0)]_pvars

(* short-circuited exactly when the breaker refuses permission *)
RejectedIffRefused == [][(ph = 0 /\ ph' # 0) => ((ph' = 2) <=> ~last'.ok)]_pvars

(* an admitted request: at least one transport call, exactly one result handed to the breaker *)
OneRecordPerRequest ==
    [][ph = 1 => (sent' > sent /\ Len(pend') = Len(pend) - 1 /\ last'.a = "rec")]_pvars

(* nothing is in flight between requests *)
NoLeak == ph = 0 => pend = <<>>
=============================================================================

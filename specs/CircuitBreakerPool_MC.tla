------------------------- MODULE CircuitBreakerPool_MC -------------------------
(* Policies for the exhaustive check of the pool-level clause.                                    *)
EXTENDS CircuitBreakerPool

PP(ft, ws, mc, pm, wo) ==
    [failT |-> ft, slowT |-> 100, wt |-> "count", wsize |-> ws, minCalls |-> mc, permitted |-> pm,
     waitOpen |-> wo, maxWaitHO |-> 0]

PoolPolicies == { PP(50, 3, 2, 2, 2), PP(100, 2, 1, 1, 3), PP(34, 3, 3, 2, 2),
                  [failT |-> 50, slowT |-> 50, wt |-> "time", wsize |-> 2, minCalls |-> 2, permitted |-> 1,
                   waitOpen |-> 2, maxWaitHO |-> 2] }
=============================================================================

----------------------- MODULE CircuitBreakerPool_Trace -----------------------
(* Trace validation of the pool-level clause of C08: sequences of client requests sent through a  *)
(* real Proxy whose pool carries a real CircuitBreakerPolicy (and, in some traces, a real          *)
(* RetryPolicy), buffered and streamed bodies, transport scripted.  Events:                        *)
(*   reset  pol                      a fresh Proxy with that breaker policy                        *)
(*   tick   d                        the harness slept at least d ticks of real time               *)
(*   req    res, st, k, fail, tot, s   one client request: result string, status code, transport    *)
(*                                   calls made, did the request finally fail, the breaker's own   *)
(*                                   window total and state after the request                      *)
(* A recording made on two pools that name the same circuitBreakerPolicy (req events carry `pool`)  *)
(* is validated pool by pool: the driver hands this module, as one trace each, the requests of one  *)
(* pool together with all the ticks (CircuitBreakerPools.tla: one breaker per pool, one clock).      *)
(* A request is two contract steps (Arrive; Reject or Serve): `half` marks the event as half done.  *)
EXTENDS CircuitBreakerPool, Json, TLC, IOUtils

TLog == ndJsonDeserialize(IOEnv.VERIF_TRACE)

VARIABLE l
tvars == <<pvars, l>>

Cur(e) == l <= Len(TLog) /\ TLog[l].ev = e

TReset ==
    /\ Cur("reset") /\ ph = 0 /\ l' = l + 1
    /\ pol' = TLog[l].pol
    /\ state' = "closed" /\ epoch' = 1 /\ transit' = 0 /\ win' = <<>> /\ trials' = 0
    /\ now' = 0 /\ pend' = <<>> /\ calls' = 0 /\ last' = [a |-> "init"]
    /\ sent' = 0 /\ obs' = [res |-> "none", st |-> 0, k |-> 0] /\ ph' = 0

TTick == Cur("tick") /\ ph = 0 /\ l' = l + 1 /\ Tick(TLog[l].d) /\ UNCHANGED <<ph, sent, obs>>

(* first half of a request: the breaker decides *)
TArrive == Cur("req") /\ Arrive /\ UNCHANGED l

(* second half: what the client and the transport saw must be what the decision implies *)
TReject ==
    /\ Cur("req") /\ Reject /\ l' = l + 1
    /\ TLog[l].res = "shortCircuited" /\ TLog[l].st = 503 /\ TLog[l].k = 0
    /\ TLog[l].tot = Len(win) /\ TLog[l].s = state

TServe ==
    /\ Cur("req") /\ l' = l + 1
    /\ TLog[l].res # "shortCircuited"
    /\ Serve(TLog[l].k, IF TLog[l].fail THEN "fail" ELSE "ok")
    /\ TLog[l].tot = Len(win') /\ TLog[l].s = state'

Explained == TReset \/ TTick \/ TArrive \/ TReject \/ TServe

RECURSIVE NextReset(_)
NextReset(j) == IF j > Len(TLog) \/ TLog[j].ev = "reset" THEN j ELSE NextReset(j + 1)

(* an observation no contract step explains: report it and go on with the next trace *)
TBad ==
    /\ l <= Len(TLog) /\ ~ENABLED Explained
    /\ PrintT(<<"VERIF_REJECT", l>>)
    /\ l' = NextReset(l + 1) /\ ph' = 0
    /\ UNCHANGED <<vars, sent, obs>>

TNext == Explained \/ TBad

TInit ==
    /\ l = 1 /\ ph = 0 /\ sent = 0 /\ obs = [res |-> "none", st |-> 0, k |-> 0]
    /\ pol = [failT |-> 50, slowT |-> 100, wt |-> "count", wsize |-> 1, minCalls |-> 1, permitted |-> 1,
              waitOpen |-> 1, maxWaitHO |-> 0]
    /\ state = "closed" /\ epoch = 1 /\ transit = 0 /\ win = <<>> /\ trials = 0
    /\ now = 0 /\ pend = <<>> /\ calls = 0 /\ last = [a |-> "init"]

TSpec == TInit /\ [][TNext]_tvars

ASSUME TLCSet(1, 0)
HWM == TLCSet(1, IF l - 1 > TLCGet(1) THEN l - 1 ELSE TLCGet(1))
TraceAccepted == /\ PrintT(<<"VERIF_HWM", TLCGet(1), Len(TLog)>>)
                 /\ TLCGet(1) = Len(TLog)
=============================================================================

-------------------------- MODULE CircuitBreakerPools --------------------------
(* C08, two server pools that name ONE circuitBreakerPolicy: the main pool and a candidate pool   *)
(* of a Proxy, or the pools of two Proxy filters of one pipeline (the pipeline hands every filter  *)
(* the same policy objects; ServerPool.InjectResiliencePolicy calls policy.CreateWrapper() once     *)
(* per pool).  A policy is a description; the breaker is per pool: the contract of C08 is stated    *)
(* about a breaker and *its* call history ("every call passes while CLOSED", "opens when the rate   *)
(* of the calls in its window ..."), so the history of each pool - its own requests and the time    *)
(* that passes for everybody - must be a behaviour of CircuitBreakerPool on its own.  Here: two     *)
(* instances of that contract, requests of pool "a" and pool "b" interleaved, one clock.            *)
(*                                                                                              *)
(* Shared = FALSE  is the code: CreateWrapper builds a breaker for every pool.                     *)
(* Shared = TRUE   a negative control: the wrapper is built once per policy object and handed to    *)
(*                 every pool, so the requests of both pools go through one breaker and one window  *)
(*                 (instance A); TLC must find the pool that is short-circuited although all of its *)
(*                 own calls passed, and the window that holds more results than the pool recorded.  *)
EXTENDS Integers, Sequences, FiniteSets

CONSTANTS Policies, MaxNow, MaxCalls, MaxAttempts, Shared

VARIABLES polA, stateA, epochA, transitA, winA, trialsA, nowA, pendA, callsA, lastA, phA, sentA, obsA,
          polB, stateB, epochB, transitB, winB, trialsB, nowB, pendB, callsB, lastB, phB, sentB, obsB,
          who,     \* the pool whose request is in progress / was served last
          bad,     \* bad[x]: own requests of pool x that were recorded as failed or slow
          rec      \* rec[x]: own requests of pool x that handed a result to the breaker

avars == <<polA, stateA, epochA, transitA, winA, trialsA, nowA, pendA, callsA, lastA, phA, sentA, obsA>>
bvars == <<polB, stateB, epochB, transitB, winB, trialsB, nowB, pendB, callsB, lastB, phB, sentB, obsB>>
allvars == <<avars, bvars, who, bad, rec>>
allview == <<polA, stateA, epochA, transitA, winA, trialsA, nowA, pendA, callsA, phA,
             polB, stateB, epochB, transitB, winB, trialsB, nowB, pendB, callsB, phB, who, bad, rec>>

A == INSTANCE CircuitBreakerPool WITH pol <- polA, state <- stateA, epoch <- epochA, transit <- transitA, win <- winA,
        trials <- trialsA, now <- nowA, pend <- pendA, calls <- callsA, last <- lastA, ph <- phA, sent <- sentA, obs <- obsA
B == INSTANCE CircuitBreakerPool WITH pol <- polB, state <- stateB, epoch <- epochB, transit <- transitB, win <- winB,
        trials <- trialsB, now <- nowB, pend <- pendB, calls <- callsB, last <- lastB, ph <- phB, sent <- sentB, obs <- obsB

Pools == {"a", "b"}
BreakerOf(x) == IF Shared THEN "a" ELSE x

Init ==
    /\ A!PInit /\ B!PInit /\ polA = polB            \* one policy: the same parameters for both breakers
    /\ who = "a" /\ bad = [x \in Pools |-> 0] /\ rec = [x \in Pools |-> 0]

Idle == phA = 0 /\ phB = 0

(* time passes for both pools *)
Tick(d) == Idle /\ A!PTick(d) /\ B!PTick(d) /\ UNCHANGED <<who, bad, rec>>

(* a step of the breaker instance y, the other instance untouched *)
On(y, stepA, stepB) == IF y = "a" THEN stepA /\ UNCHANGED bvars ELSE stepB /\ UNCHANGED avars

Arrive(x) ==
    /\ Idle /\ who' = x
    /\ On(BreakerOf(x), callsA < MaxCalls /\ A!Arrive, callsB < MaxCalls /\ B!Arrive)
    /\ UNCHANGED <<bad, rec>>

Reject ==
    /\ ~Idle
    /\ On(BreakerOf(who), A!Reject, B!Reject)
    /\ UNCHANGED <<who, bad, rec>>

Serve(k, r) ==
    /\ ~Idle
    /\ On(BreakerOf(who), A!Serve(k, r), B!Serve(k, r))
    /\ rec' = [rec EXCEPT ![who] = @ + 1]
    /\ bad' = [bad EXCEPT ![who] = IF r = "ok" THEN @ ELSE @ + 1]
    /\ UNCHANGED who

Next ==
    \/ \E d \in 1..2 : Tick(d)
    \/ \E x \in Pools : Arrive(x)
    \/ Reject
    \/ \E k \in 1..MaxAttempts, r \in A!Results : Serve(k, r)

Spec == Init /\ [][Next]_allvars

-----------------------------------------------------------------------------
StateOf(y) == IF y = "a" THEN stateA ELSE stateB
WinOf(y)   == IF y = "a" THEN winA ELSE winB
PhOf(y)    == IF y = "a" THEN phA ELSE phB

(* a pool all of whose own calls passed is never short-circuited: its breaker is CLOSED *)
OwnHistory ==
    [][(PhOf(BreakerOf(who)) = 2 /\ PhOf(BreakerOf(who))' = 0) => bad[who] > 0]_allvars

(* the window of a pool's breaker holds results of the pool's own calls only *)
OwnWindow == \A x \in Pools : Len(WinOf(BreakerOf(x))) <= rec[x]

(* a request of one pool leaves the other pool's breaker as it was *)
Independent ==
    [][(who' = "a" /\ nowA' = nowA) => UNCHANGED <<stateB, epochB, winB, trialsB, pendB>>]_allvars

(* the clauses of the single-breaker contract hold for both *)
TypeOK == A!TypeOK /\ B!TypeOK /\ A!NoLeak /\ B!NoLeak
=============================================================================

------------------------- MODULE CircuitBreakerPools_MC -------------------------
(* Policies for the exhaustive check of two pools naming one circuitBreakerPolicy.               *)
EXTENDS CircuitBreakerPools

PP(ft, st, ws, mc, pm, wo) ==
    [failT |-> ft, slowT |-> st, wt |-> "count", wsize |-> ws, minCalls |-> mc, permitted |-> pm,
     waitOpen |-> wo, maxWaitHO |-> 0]

TwoPoolPolicies == { PP(50, 100, 2, 2, 1, 2), PP(100, 50, 2, 1, 1, 1) }
=============================================================================

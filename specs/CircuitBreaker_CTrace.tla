------------------------ MODULE CircuitBreaker_CTrace -----------------------
(* Concurrent trace validation for C08: goroutines call AcquirePermission / RecordResult        *)
(* concurrently; the harness logs invocation and return of every call with a global sequence    *)
(* number.  TLC searches for a linearisation: each pending call takes effect at a silent Lin     *)
(* step somewhere between its inv and its ret, and the reply must be the contract's.             *)
EXTENDS CircuitBreaker, Json, TLC, IOUtils

TLog == ndJsonDeserialize(IOEnv.VERIF_TRACE)
Procs == {"g0", "g1", "g2", "g3", "g4", "g5", "g6", "g7"}

VARIABLES l, emap,
          pc,     \* per goroutine: "idle" | "acqP" | "acqD" | "recP" | "recD"
          arg,    \* result to record
          held,   \* contract epoch of the goroutine's admitted, unrecorded call (0 = none)
          res     \* contract's reply to the pending acquire

tvars == <<vars, l, emap, pc, arg, held, res>>

IsEvent(e) == l <= Len(TLog) /\ TLog[l].ev = e /\ l' = l + 1

Bind(id, ep) ==
    IF id \in DOMAIN emap THEN emap[id] = ep /\ UNCHANGED emap
    ELSE /\ \A k \in DOMAIN emap : emap[k] # ep
         /\ emap' = [k \in DOMAIN emap \cup {id} |-> IF k = id THEN ep ELSE emap[k]]

Fresh == /\ state' = "closed" /\ epoch' = 1 /\ transit' = 0 /\ win' = <<>> /\ trials' = 0
         /\ now' = 0 /\ pend' = <<>> /\ calls' = 0 /\ last' = [a |-> "init"]
         /\ emap' = <<>> /\ pc' = [p \in Procs |-> "idle"] /\ arg' = [p \in Procs |-> "ok"]
         /\ held' = [p \in Procs |-> 0] /\ res' = [p \in Procs |-> [ok |-> FALSE, ep |-> 0]]

TReset == IsEvent("reset") /\ pol' = TLog[l].pol /\ Fresh

TTick == /\ IsEvent("tick") /\ \A p \in Procs : pc[p] = "idle"
         /\ Tick(TLog[l].d) /\ UNCHANGED <<emap, pc, arg, held, res>>

TInv(p) ==
    /\ IsEvent("inv") /\ TLog[l].p = p /\ pc[p] = "idle"
    /\ pc' = [pc EXCEPT ![p] = TLog[l].op \o "P"]
    /\ arg' = [arg EXCEPT ![p] = IF TLog[l].op = "rec" THEN TLog[l].r ELSE @]
    /\ UNCHANGED <<vars, emap, held, res>>

LinAcq(p) ==
    /\ pc[p] = "acqP"
    /\ Acquire
    /\ res' = [res EXCEPT ![p] = [ok |-> last'.ok, ep |-> last'.ep]]
    /\ held' = [held EXCEPT ![p] = IF last'.ok THEN last'.ep ELSE @]
    /\ pc' = [pc EXCEPT ![p] = "acqD"]
    /\ UNCHANGED <<l, emap, arg>>

LinRec(p) ==
    /\ pc[p] = "recP"
    /\ \E i \in 1..Len(pend) : pend[i] = held[p] /\ Record(i, arg[p])
    /\ held' = [held EXCEPT ![p] = 0]
    /\ pc' = [pc EXCEPT ![p] = "recD"]
    /\ UNCHANGED <<l, emap, arg, res>>

TRet(p) ==
    /\ IsEvent("ret") /\ TLog[l].p = p
    /\ \/ /\ pc[p] = "acqD" /\ TLog[l].op = "acq"
          /\ res[p].ok = TLog[l].ok
          /\ Bind(TLog[l].id, res[p].ep)
       \/ /\ pc[p] = "recD" /\ TLog[l].op = "rec" /\ UNCHANGED emap
    /\ pc' = [pc EXCEPT ![p] = "idle"]
    /\ UNCHANGED <<vars, arg, held, res>>

TNext == TReset \/ TTick \/ \E p \in Procs : TInv(p) \/ LinAcq(p) \/ LinRec(p) \/ TRet(p)

TInit ==
    /\ l = 1 /\ emap = <<>>
    /\ pol = [failT |-> 50, slowT |-> 100, wt |-> "count", wsize |-> 1, minCalls |-> 1, permitted |-> 1,
              waitOpen |-> 1, maxWaitHO |-> 0]
    /\ state = "closed" /\ epoch = 1 /\ transit = 0 /\ win = <<>> /\ trials = 0
    /\ now = 0 /\ pend = <<>> /\ calls = 0 /\ last = [a |-> "init"]
    /\ pc = [p \in Procs |-> "idle"] /\ arg = [p \in Procs |-> "ok"]
    /\ held = [p \in Procs |-> 0] /\ res = [p \in Procs |-> [ok |-> FALSE, ep |-> 0]]

TSpec == TInit /\ [][TNext]_tvars

ASSUME TLCSet(1, 0)
HWM == TLCSet(1, IF l - 1 > TLCGet(1) THEN l - 1 ELSE TLCGet(1))
Accepted == /\ PrintT(<<"VERIF_HWM", TLCGet(1), Len(TLog)>>)
            /\ TLCGet(1) = Len(TLog)
=============================================================================

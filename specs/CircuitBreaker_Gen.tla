------------------------- MODULE CircuitBreaker_Gen -------------------------
(* Behaviour generator / model-checking wrapper for CircuitBreaker: adds `out`, the JSON        *)
(* description of the step just taken (action, arguments, predicted observation).               *)
EXTENDS CircuitBreaker, Json

VARIABLE out

GridPolicies ==
    [failT : {1, 34, 50, 100}, slowT : {50, 100}, wt : {"count", "time"}, wsize : {2, 3},
     minCalls : {1, 2, 3}, permitted : {1, 2}, waitOpen : {2, 3}, maxWaitHO : {0, 2}]

P(ft, st, wt, ws, mc, pm, wo, mw) ==
    [failT |-> ft, slowT |-> st, wt |-> wt, wsize |-> ws, minCalls |-> mc, permitted |-> pm,
     waitOpen |-> wo, maxWaitHO |-> mw]

QuickPolicies == { P(50, 100, "count", 3, 2, 2, 2, 0),
                   P(50, 50, "time", 2, 2, 1, 3, 2),
                   P(100, 100, "count", 2, 1, 2, 2, 2),
                   P(34, 50, "time", 3, 3, 2, 2, 0) }

GInit == Init /\ out = ToJson([a |-> "init", pol |-> pol])
GNext == Next /\ out' = ToJson(last')
GSpec == GInit /\ [][GNext]_<<vars, out>>
=============================================================================

------------------------ MODULE CircuitBreaker_Trace ------------------------
(* Trace validation for C08: every event recorded from the real circuit breaker must be a step  *)
(* the contract (CircuitBreaker) allows, with the observed reply.  Many traces are concatenated; *)
(* a "reset" event starts a fresh breaker with the logged policy.                                *)
EXTENDS CircuitBreaker, Json, TLC, IOUtils

TLog == ndJsonDeserialize(IOEnv.VERIF_TRACE)

VARIABLES l,      \* next trace line
          emap    \* observed stateID -> contract epoch (must stay injective)

tvars == <<vars, l, emap>>

IsEvent(e) == l <= Len(TLog) /\ TLog[l].ev = e /\ l' = l + 1

Bind(id, ep) ==
    IF id \in DOMAIN emap THEN emap[id] = ep /\ UNCHANGED emap
    ELSE /\ \A k \in DOMAIN emap : emap[k] # ep
         /\ emap' = [k \in DOMAIN emap \cup {id} |-> IF k = id THEN ep ELSE emap[k]]

TReset ==
    /\ IsEvent("reset")
    /\ pol' = TLog[l].pol
    /\ state' = "closed" /\ epoch' = 1 /\ transit' = 0 /\ win' = <<>> /\ trials' = 0
    /\ now' = 0 /\ pend' = <<>> /\ calls' = 0 /\ last' = [a |-> "init"]
    /\ emap' = <<>>

TTick == IsEvent("tick") /\ Tick(TLog[l].d) /\ UNCHANGED emap

TAcq ==
    /\ IsEvent("acq")
    /\ Acquire
    /\ last'.ok = TLog[l].ok
    /\ last'.st = TLog[l].st
    /\ Bind(TLog[l].id, last'.ep)

TRec ==
    /\ IsEvent("rec")
    /\ Record(TLog[l].i, TLog[l].r)
    /\ last'.st = TLog[l].st
    /\ UNCHANGED emap

TNext == TReset \/ TTick \/ TAcq \/ TRec

TInit ==
    /\ l = 1 /\ emap = <<>>
    /\ pol = [failT |-> 50, slowT |-> 100, wt |-> "count", wsize |-> 1, minCalls |-> 1, permitted |-> 1,
              waitOpen |-> 1, maxWaitHO |-> 0]
    /\ state = "closed" /\ epoch = 1 /\ transit = 0 /\ win = <<>> /\ trials = 0
    /\ now = 0 /\ pend = <<>> /\ calls = 0 /\ last = [a |-> "init"]

TSpec == TInit /\ [][TNext]_tvars

ASSUME TLCSet(1, 0)
HWM == TLCSet(1, IF l - 1 > TLCGet(1) THEN l - 1 ELSE TLCGet(1))
Accepted == /\ PrintT(<<"VERIF_HWM", TLCGet(1), Len(TLog)>>)
            /\ TLCGet(1) = Len(TLog)
=============================================================================

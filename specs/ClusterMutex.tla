---------------------------- MODULE ClusterMutex ----------------------------
(* C18, implementation-shaped layer of the cluster mutex: pkg/cluster/mutex.go on top of         *)
(* go.etcd.io/etcd/client/v3/concurrency.Mutex (v3.5.4), one action per linearisation point.     *)
(*                                                                                              *)
(*   cluster.Mutex(name)   returns a NEW handle object {sync.Mutex, concurrency.Mutex, timeout}  *)
(*                         on the member's single session (cluster.getSession: one lease per     *)
(*                         member).  The etcd lock key of a handle is  name/<lease of member>,   *)
(*                         so all handles of one member share ONE key.                           *)
(*   mutex.Lock            m.lock.Lock()                                  -> LocalLock           *)
(*                         txn: put-if-absent key; read owner (lowest createRevision)            *)
(*                                                                        -> TryAcquire          *)
(*                         owner = my createRevision => return nil                               *)
(*                         else waitDeletes(keys with createRevision < mine)  -> WaitDone        *)
(*                         then Get(myKey): exists => return nil, else ErrSessionExpired         *)
(*                                                                        -> Check               *)
(*                         ctx deadline (timeout) while waiting: delete my key, return error     *)
(*                                                                        -> Timeout             *)
(*                         on error the deferred function releases m.lock -> FailReturn          *)
(*   mutex.Unlock          delete my key (-> UnlockDelete), deferred m.lock.Unlock()             *)
(*                                                                        -> UnlockLocal         *)
(*                                                                                              *)
(* etcd is trusted and no lease expires (the lease TTL is 285 years).  What does happen is a      *)
(* failed keep-alive: cluster.keepAliveLease then grants the member a NEW lease (grantNewLease,  *)
(* -> Regrant) and leaves the old one alone.  The member's session was created on the lease the   *)
(* member had at that time and cluster.getSession returns the cached session whatever the        *)
(* member's current lease is: lock keys stay on the first lease (generation 1) and a re-grant     *)
(* does not touch a held mutex.  RenewSession = TRUE models the alternative - getSession closes   *)
(* a session that is not on the current lease (which revokes that lease and deletes its keys)    *)
(* and opens a new one, cluster.Mutex then returns new handle objects - to show that Mutex is    *)
(* sensitive to it; on the real code it is decided by the scenarios "L" of the trace validation. *)
(*                                                                                              *)
(* Two more facts Mutex rests on are parameters (both FALSE in the code; the real code is decided *)
(* by the scenarios "T" and "R" of the trace validation):                                        *)
(*   LocalWaitTimeout  m.lock.Lock() waits as long as it takes; only the etcd part is bounded by  *)
(*                     the deadline.  With LocalWaitTimeout the wait for m.lock ends at the       *)
(*                     deadline too (-> LocalTimeout) and Lock returns through the same error    *)
(*                     path, whose deferred function releases m.lock on every error - also for a  *)
(*                     goroutine that never owned it: the next Lock of the member walks in.       *)
(*   EvictOnUnlock     cluster.Mutex(name) returns the member's ONE handle object for (name,      *)
(*                     session) for good (cluster.mutexes).  With EvictOnUnlock Unlock drops its  *)
(*                     object from that registry: goroutines that already have it go on using it *)
(*                     (`inc` numbers the objects of a handle; a goroutine keeps the one it      *)
(*                     fetched in CallLock while it waits), later callers get a new object with  *)
(*                     its own m.lock on the same etcd key.                                       *)
(*                                                                                              *)
(*   HoldWatchdog      a mutex is held for as long as its holder likes: nothing but the holder's  *)
(*                     Unlock (or a deadline inside its own Lock call) deletes the lock key or    *)
(*                     releases m.lock, however long the critical section lasts compared with the *)
(*                     request time-out.  With HoldWatchdog a timer armed by Lock (some multiple   *)
(*                     of the time-out) does both on the holder's behalf while the holder is      *)
(*                     still inside (-> Watchdog); the holder's later Unlock is then a no-op.     *)
(*                     Decided on the real code by the scenarios "W" of the trace validation      *)
(*                     (holds of k x the configured time-out, contenders trying all the while).   *)
(*                                                                                              *)
(* Configurations (constants): (A) one handle object per member -- the way api.Server uses it -- *)
(* shared by several goroutines; (B) two handle objects of the same member for the same name     *)
(* (what meshcontroller/storage.New does: every storage.New(name, cls) calls cls.Mutex(name)).   *)
EXTENDS Integers, FiniteSets, TLC

CONSTANTS Procs,       \* goroutines (strings)
          Members,     \* cluster members (one lease / session each)
          Handles,     \* handle objects returned by cluster.Mutex(name)
          MemOf,       \* [Handles -> Members]
          HandleOf,    \* [Procs -> Handles]: the handle a goroutine uses
          MaxRounds,   \* Lock calls per goroutine (bounds the model)
          MaxTimeouts, \* ctx deadlines that fire in a behaviour (bounds the model)
          MaxRegrants, \* lease re-grants (failed keep-alives) in a behaviour (bounds the model)
          RenewSession, \* BOOLEAN: FALSE = the code (the session is created once per member)
          LocalWaitTimeout, \* BOOLEAN: FALSE = the code (the wait for the process-local lock is not bounded)
          EvictOnUnlock, \* BOOLEAN: FALSE = the code (the per-name registry keeps the handle object)
          HoldWatchdog  \* BOOLEAN: FALSE = the code (only the holder ends its critical section, whatever its length)

(* A goroutine obtains its handle with cluster.Mutex(name) before every Lock call (CallLock): the  *)
(* handle object belongs to the session of that moment.  Gens numbers a member's leases; handle   *)
(* objects and lock keys are indexed by (handle, generation) and (member, generation).           *)
Gens == 1..(MaxRegrants + 1)
(* incarnations of a handle in the member's registry (one, unless Unlock evicts) *)
MaxInc == IF EvictOnUnlock THEN 3 ELSE 1
Incs == 1..MaxInc

VARIABLES pc,          \* per goroutine, see below
          localHeld,   \* per handle object <<h, g, i>>: its sync.Mutex is locked
          key,         \* per <<member, g>>: createRevision of the etcd key name/<lease g of the member>, 0 = absent
          rev,         \* etcd store revision
          myRev,       \* per handle object: concurrency.Mutex.myRev (-1 = none)
          rounds,      \* per goroutine: Lock calls made
          timeouts,    \* deadlines fired so far
          lease,       \* per member: generation of its current lease (cluster.lease)
          sgen,        \* per member: generation of the lease its session is on (cluster.session)
          hgen,        \* per goroutine: generation of the handle object it uses for the current call
          regrants,    \* re-grants so far
          inc,         \* per handle: the incarnation cluster.Mutex(name) returns now (cluster.mutexes[name])
          hinc,        \* per goroutine: the incarnation it fetched for the current call
          wd           \* per goroutine: HoldWatchdog only - the watchdog has released the mutex under this holder

reg == <<inc, hinc, wd>>
vars == <<pc, localHeld, key, rev, myRev, rounds, timeouts, lease, sgen, hgen, regrants, inc, hinc, wd>>

(* pc: "idle"  not in a call, not holding            "local" Lock called, blocked on m.lock        *)
(*     "acq"   owns m.lock, about to run the txn     "wait"  key exists, waitDeletes               *)
(*     "check" waitDeletes returned, about to Get    "held"  Lock returned nil                     *)
(*     "fail"  Lock is returning an error (deferred m.lock.Unlock pending)                         *)
(*     "rel"   Unlock called, key not yet deleted    "rel2"  key deleted, deferred m.lock.Unlock   *)

H(p) == HandleOf[p]
M(p) == MemOf[HandleOf[p]]
HG(p) == <<HandleOf[p], hgen[p], hinc[p]>>   \* the handle object of p's current call
KG(p) == <<MemOf[HandleOf[p]], hgen[p]>>     \* the lock key that handle object uses

Min(S) == CHOOSE x \in S : \A y \in S : x <= y

Init ==
    /\ pc = [p \in Procs |-> "idle"]
    /\ localHeld = [hg \in Handles \X Gens \X Incs |-> FALSE]
    /\ key = [mg \in Members \X Gens |-> 0]
    /\ rev = 1
    /\ myRev = [hg \in Handles \X Gens \X Incs |-> -1]
    /\ rounds = [p \in Procs |-> 0]
    /\ timeouts = 0
    /\ lease = [m \in Members |-> 1] /\ sgen = [m \in Members |-> 1]
    /\ hgen = [p \in Procs |-> 1] /\ regrants = 0
    /\ inc = [h \in Handles |-> 1] /\ hinc = [p \in Procs |-> 1]
    /\ wd = [p \in Procs |-> FALSE]

(* keepAliveLease: KeepAliveOnce failed -> grantNewLease.  Nothing else happens. *)
Regrant(m) ==
    /\ regrants < MaxRegrants
    /\ lease' = [lease EXCEPT ![m] = @ + 1] /\ regrants' = regrants + 1
    /\ UNCHANGED <<pc, localHeld, key, rev, myRev, rounds, timeouts, sgen, hgen, reg>>

(* h := cluster.Mutex(name) - getSession, then the member's mutex object for (name, session) - ; h.Lock() *)
CallLock(p) ==
    /\ pc[p] = "idle" /\ rounds[p] < MaxRounds
    /\ LET m == M(p)
           renew == RenewSession /\ sgen[m] # lease[m]
           g == IF renew THEN lease[m] ELSE sgen[m]
       IN /\ sgen' = [sgen EXCEPT ![m] = g]
          /\ hgen' = [hgen EXCEPT ![p] = g]
          /\ IF renew /\ key[<<m, sgen[m]>>] > 0      \* session.Close() revokes the old lease: its keys are deleted
             THEN key' = [key EXCEPT ![<<m, sgen[m]>>] = 0] /\ rev' = rev + 1
             ELSE UNCHANGED <<key, rev>>
    /\ hinc' = [hinc EXCEPT ![p] = inc[H(p)]]     \* the registry's object for the name
    /\ pc' = [pc EXCEPT ![p] = "local"] /\ rounds' = [rounds EXCEPT ![p] = @ + 1]
    /\ UNCHANGED <<localHeld, myRev, timeouts, lease, regrants, inc, wd>>

LocalLock(p) ==
    /\ pc[p] = "local" /\ ~localHeld[HG(p)]
    /\ localHeld' = [localHeld EXCEPT ![HG(p)] = TRUE]
    /\ pc' = [pc EXCEPT ![p] = "acq"]
    /\ UNCHANGED <<key, rev, myRev, rounds, timeouts, lease, sgen, hgen, regrants, reg>>

(* LocalWaitTimeout only: the deadline expires while the goroutine waits for m.lock; Lock returns the error through *)
(* the deferred function (FailReturn), which releases m.lock                                                      *)
LocalTimeout(p) ==
    /\ LocalWaitTimeout /\ pc[p] = "local" /\ timeouts < MaxTimeouts
    /\ pc' = [pc EXCEPT ![p] = "fail"] /\ timeouts' = timeouts + 1
    /\ UNCHANGED <<localHeld, key, rev, myRev, rounds, lease, sgen, hgen, regrants, reg>>

(* the tryAcquire transaction: If(createRevision(myKey) = 0).Then(put, getOwner).Else(get, getOwner) *)
TryAcquire(p) ==
    /\ pc[p] = "acq"
    /\ LET k  == KG(p)
           k2 == IF key[k] = 0 THEN [key EXCEPT ![k] = rev + 1] ELSE key
           mine == k2[k]
           owner == Min({k2[x] : x \in {y \in Members \X Gens : k2[y] > 0}})
       IN /\ key' = k2
          /\ rev' = IF key[k] = 0 THEN rev + 1 ELSE rev
          /\ myRev' = [myRev EXCEPT ![HG(p)] = mine]
          /\ pc' = [pc EXCEPT ![p] = IF owner = mine THEN "held" ELSE "wait"]
    /\ UNCHANGED <<localHeld, rounds, timeouts, lease, sgen, hgen, regrants, reg>>

(* the context deadline expires before the transaction is sent / committed *)
AcqTimeout(p) ==
    /\ pc[p] = "acq" /\ timeouts < MaxTimeouts
    /\ pc' = [pc EXCEPT ![p] = "fail"] /\ timeouts' = timeouts + 1
    /\ UNCHANGED <<localHeld, key, rev, myRev, rounds, lease, sgen, hgen, regrants, reg>>

(* waitDeletes(pfx, myRev-1): no key with a smaller create revision is left *)
WaitDone(p) ==
    /\ pc[p] = "wait"
    /\ \A x \in Members \X Gens : ~(key[x] > 0 /\ key[x] < myRev[HG(p)])
    /\ pc' = [pc EXCEPT ![p] = "check"]
    /\ UNCHANGED <<localHeld, key, rev, myRev, rounds, timeouts, lease, sgen, hgen, regrants, reg>>

(* Get(myKey): only existence is checked *)
Check(p) ==
    /\ pc[p] = "check"
    /\ pc' = [pc EXCEPT ![p] = IF key[KG(p)] > 0 THEN "held" ELSE "fail"]
    /\ UNCHANGED <<localHeld, key, rev, myRev, rounds, timeouts, lease, sgen, hgen, regrants, reg>>

DeleteKey(p) ==
    /\ key' = [key EXCEPT ![KG(p)] = 0]
    /\ rev' = IF key[KG(p)] > 0 THEN rev + 1 ELSE rev
    /\ myRev' = [myRev EXCEPT ![HG(p)] = -1]

(* ctx deadline while waiting: m.Unlock(client.Ctx()) deletes the key, Lock returns the error *)
Timeout(p) ==
    /\ pc[p] \in {"wait", "check"} /\ timeouts < MaxTimeouts
    /\ DeleteKey(p)
    /\ pc' = [pc EXCEPT ![p] = "fail"] /\ timeouts' = timeouts + 1
    /\ UNCHANGED <<localHeld, rounds, lease, sgen, hgen, regrants, reg>>

(* mutex.Lock's deferred function: `if panicked || err != nil { m.lock.Unlock() }` *)
FailReturn(p) ==
    /\ pc[p] = "fail"
    /\ localHeld' = [localHeld EXCEPT ![HG(p)] = FALSE]
    /\ pc' = [pc EXCEPT ![p] = "idle"]
    /\ UNCHANGED <<key, rev, myRev, rounds, timeouts, lease, sgen, hgen, regrants, reg>>

(* HoldWatchdog only: the timer armed by Lock fires while p is inside its critical section - the lock key is  *)
(* deleted and m.lock released on p's behalf; p goes on (it is still "held": it has not called Unlock)        *)
Watchdog(p) ==
    /\ HoldWatchdog /\ pc[p] = "held" /\ ~wd[p]
    /\ DeleteKey(p)
    /\ localHeld' = [localHeld EXCEPT ![HG(p)] = FALSE]
    /\ wd' = [wd EXCEPT ![p] = TRUE]
    /\ UNCHANGED <<pc, rounds, timeouts, lease, sgen, hgen, regrants, inc, hinc>>

(* (after the watchdog Unlock finds its timer spent and returns nil without doing anything) *)
CallUnlock(p) ==
    /\ pc[p] = "held"
    /\ pc' = [pc EXCEPT ![p] = IF wd[p] THEN "idle" ELSE "rel"]
    /\ wd' = [wd EXCEPT ![p] = FALSE]
    /\ UNCHANGED <<localHeld, key, rev, myRev, rounds, timeouts, lease, sgen, hgen, regrants, inc, hinc>>

UnlockDelete(p) ==
    /\ pc[p] = "rel"
    /\ DeleteKey(p)
    /\ pc' = [pc EXCEPT ![p] = "rel2"]
    /\ inc' = IF EvictOnUnlock /\ inc[H(p)] = hinc[p] /\ inc[H(p)] < MaxInc      \* `if c.mutexes[name] == m { delete(...) }`
              THEN [inc EXCEPT ![H(p)] = @ + 1] ELSE inc
    /\ UNCHANGED <<localHeld, rounds, timeouts, lease, sgen, hgen, regrants, hinc, wd>>

UnlockLocal(p) ==
    /\ pc[p] = "rel2"
    /\ localHeld' = [localHeld EXCEPT ![HG(p)] = FALSE]
    /\ pc' = [pc EXCEPT ![p] = "idle"]
    /\ UNCHANGED <<key, rev, myRev, rounds, timeouts, lease, sgen, hgen, regrants, reg>>

Progress(p) == \/ LocalLock(p) \/ TryAcquire(p) \/ WaitDone(p) \/ Check(p) \/ FailReturn(p)
               \/ CallUnlock(p) \/ UnlockDelete(p) \/ UnlockLocal(p)

Next == \/ \E p \in Procs : CallLock(p) \/ Progress(p) \/ AcqTimeout(p) \/ Timeout(p) \/ LocalTimeout(p)
        \/ \E p \in Procs : Watchdog(p)
        \/ \E m \in Members : Regrant(m)

Spec == Init /\ [][Next]_vars
(* every step of the code and every holder's Unlock eventually happens; deadlines may or may not fire *)
FairSpec == Spec /\ \A p \in Procs : WF_vars(Progress(p))

-----------------------------------------------------------------------------
TypeOK ==
    /\ pc \in [Procs -> {"idle", "local", "acq", "wait", "check", "held", "fail", "rel", "rel2"}]
    /\ localHeld \in [Handles \X Gens \X Incs -> BOOLEAN]
    /\ \A mg \in Members \X Gens : key[mg] >= 0 /\ key[mg] <= rev
    /\ \A m \in Members : lease[m] \in Gens /\ sgen[m] \in Gens /\ sgen[m] <= lease[m]
    /\ \A p \in Procs : hgen[p] \in Gens /\ hinc[p] \in Incs
    /\ \A h \in Handles : inc[h] \in Incs
    /\ wd \in [Procs -> BOOLEAN]

(* C18, first clause: at most one holder (between the return of Lock and the call of Unlock) *)
Holders == {p \in Procs : pc[p] = "held"}
Mutex == Cardinality(Holders) <= 1

(* C18, second clause: a failed or timed-out acquisition leaves nothing behind.  Every locked     *)
(* sync.Mutex and every etcd key is accounted for by a call in progress or a holder ...           *)
NoResidue ==
    /\ \A hg \in Handles \X Gens \X Incs : localHeld[hg] => \E p \in Procs : HG(p) = hg /\ pc[p] \notin {"idle", "local"}
    /\ \A mg \in Members \X Gens : key[mg] > 0 => \E p \in Procs : KG(p) = mg /\ pc[p] \in {"wait", "check", "held", "rel"}
(* ... hence at quiescence the lock is free *)
QuiescentFree ==
    (\A p \in Procs : pc[p] = "idle") => (\A mg \in Members \X Gens : key[mg] = 0) /\ (\A hg \in Handles \X Gens \X Incs : ~localHeld[hg])

(* every Lock call returns (granted or refused), whatever failed before *)
Terminates == \A p \in Procs : (pc[p] = "local") ~> (pc[p] \in {"held", "idle"})
(* without a deadline firing, a call is granted *)
GrantedUnlessTimeout == \A p \in Procs : (pc[p] = "local") ~> (pc[p] = "held" \/ timeouts > 0)

(* refinement of the contract: holder = the goroutine between Lock's return and the deletion of   *)
(* its key                                                                                        *)
AbsHolder == IF \E p \in Procs : pc[p] \in {"held", "rel"}
             THEN CHOOSE p \in Procs : pc[p] \in {"held", "rel"} ELSE "none"
AbsPc == [p \in Procs |->
            CASE pc[p] = "idle" -> "idle"
              [] pc[p] \in {"local", "acq", "wait", "check"} -> "lockP"
              [] pc[p] = "fail" -> "failed"
              [] pc[p] = "held" -> "held"
              [] pc[p] = "rel"  -> "unlP"
              [] pc[p] = "rel2" -> "unlD"]
C == INSTANCE ClusterMutexContract WITH holder <- AbsHolder, cpc <- AbsPc, probe <- [p \in Procs |-> FALSE]
Refines == C!CSpec
=============================================================================

---------------------------- MODULE ClusterMutex ----------------------------
(* C18, implementation-shaped layer of the cluster mutex: pkg/cluster/mutex.go on top of         *)
(* go.etcd.io/etcd/client/v3/concurrency.Mutex (v3.5.4), one action per linearisation point.     *)
(*                                                                                              *)
(*   cluster.Mutex(name)   returns a NEW handle object {sync.Mutex, concurrency.Mutex, timeout}  *)
(*                         on the member's single session (cluster.getSession: one lease per     *)
(*                         member).  The etcd lock key of a handle is  name/<lease of member>,   *)
(*                         so all handles of one member share ONE key.                           *)
(*   mutex.Lock            m.lock.Lock()                                  -> LocalLock           *)
(*                         txn: put-if-absent key; read owner (lowest createRevision)            *)
(*                                                                        -> TryAcquire          *)
(*                         owner = my createRevision => return nil                               *)
(*                         else waitDeletes(keys with createRevision < mine)  -> WaitDone        *)
(*                         then Get(myKey): exists => return nil, else ErrSessionExpired         *)
(*                                                                        -> Check               *)
(*                         ctx deadline (timeout) while waiting: delete my key, return error     *)
(*                                                                        -> Timeout             *)
(*                         on error the deferred function releases m.lock -> FailReturn          *)
(*   mutex.Unlock          delete my key (-> UnlockDelete), deferred m.lock.Unlock()             *)
(*                                                                        -> UnlockLocal         *)
(*                                                                                              *)
(* etcd and its lease keep-alive are trusted (no lease expiry: the lease TTL is 285 years).      *)
(*                                                                                              *)
(* Configurations (constants): (A) one handle object per member -- the way api.Server uses it -- *)
(* shared by several goroutines; (B) two handle objects of the same member for the same name     *)
(* (what meshcontroller/storage.New does: every storage.New(name, cls) calls cls.Mutex(name)).   *)
EXTENDS Integers, FiniteSets, TLC

CONSTANTS Procs,       \* goroutines (strings)
          Members,     \* cluster members (one lease / session each)
          Handles,     \* handle objects returned by cluster.Mutex(name)
          MemOf,       \* [Handles -> Members]
          HandleOf,    \* [Procs -> Handles]: the handle a goroutine uses
          MaxRounds,   \* Lock calls per goroutine (bounds the model)
          MaxTimeouts  \* ctx deadlines that fire in a behaviour (bounds the model)

VARIABLES pc,          \* per goroutine, see below
          localHeld,   \* per handle: its sync.Mutex is locked
          key,         \* per member: createRevision of the etcd key name/<lease>, 0 = absent
          rev,         \* etcd store revision
          myRev,       \* per handle: concurrency.Mutex.myRev (-1 = none)
          rounds,      \* per goroutine: Lock calls made
          timeouts     \* deadlines fired so far

vars == <<pc, localHeld, key, rev, myRev, rounds, timeouts>>

(* pc: "idle"  not in a call, not holding            "local" Lock called, blocked on m.lock        *)
(*     "acq"   owns m.lock, about to run the txn     "wait"  key exists, waitDeletes               *)
(*     "check" waitDeletes returned, about to Get    "held"  Lock returned nil                     *)
(*     "fail"  Lock is returning an error (deferred m.lock.Unlock pending)                         *)
(*     "rel"   Unlock called, key not yet deleted    "rel2"  key deleted, deferred m.lock.Unlock   *)

H(p) == HandleOf[p]
M(p) == MemOf[HandleOf[p]]

Min(S) == CHOOSE x \in S : \A y \in S : x <= y

Init ==
    /\ pc = [p \in Procs |-> "idle"]
    /\ localHeld = [h \in Handles |-> FALSE]
    /\ key = [m \in Members |-> 0]
    /\ rev = 1
    /\ myRev = [h \in Handles |-> -1]
    /\ rounds = [p \in Procs |-> 0]
    /\ timeouts = 0

CallLock(p) ==
    /\ pc[p] = "idle" /\ rounds[p] < MaxRounds
    /\ pc' = [pc EXCEPT ![p] = "local"] /\ rounds' = [rounds EXCEPT ![p] = @ + 1]
    /\ UNCHANGED <<localHeld, key, rev, myRev, timeouts>>

LocalLock(p) ==
    /\ pc[p] = "local" /\ ~localHeld[H(p)]
    /\ localHeld' = [localHeld EXCEPT ![H(p)] = TRUE]
    /\ pc' = [pc EXCEPT ![p] = "acq"]
    /\ UNCHANGED <<key, rev, myRev, rounds, timeouts>>

(* the tryAcquire transaction: If(createRevision(myKey) = 0).Then(put, getOwner).Else(get, getOwner) *)
TryAcquire(p) ==
    /\ pc[p] = "acq"
    /\ LET m  == M(p)
           k2 == IF key[m] = 0 THEN [key EXCEPT ![m] = rev + 1] ELSE key
           mine == k2[m]
           owner == Min({k2[x] : x \in {y \in Members : k2[y] > 0}})
       IN /\ key' = k2
          /\ rev' = IF key[m] = 0 THEN rev + 1 ELSE rev
          /\ myRev' = [myRev EXCEPT ![H(p)] = mine]
          /\ pc' = [pc EXCEPT ![p] = IF owner = mine THEN "held" ELSE "wait"]
    /\ UNCHANGED <<localHeld, rounds, timeouts>>

(* the context deadline expires before the transaction is sent / committed *)
AcqTimeout(p) ==
    /\ pc[p] = "acq" /\ timeouts < MaxTimeouts
    /\ pc' = [pc EXCEPT ![p] = "fail"] /\ timeouts' = timeouts + 1
    /\ UNCHANGED <<localHeld, key, rev, myRev, rounds>>

(* waitDeletes(pfx, myRev-1): no key with a smaller create revision is left *)
WaitDone(p) ==
    /\ pc[p] = "wait"
    /\ \A x \in Members : ~(key[x] > 0 /\ key[x] < myRev[H(p)])
    /\ pc' = [pc EXCEPT ![p] = "check"]
    /\ UNCHANGED <<localHeld, key, rev, myRev, rounds, timeouts>>

(* Get(myKey): only existence is checked *)
Check(p) ==
    /\ pc[p] = "check"
    /\ pc' = [pc EXCEPT ![p] = IF key[M(p)] > 0 THEN "held" ELSE "fail"]
    /\ UNCHANGED <<localHeld, key, rev, myRev, rounds, timeouts>>

DeleteKey(p) ==
    /\ key' = [key EXCEPT ![M(p)] = 0]
    /\ rev' = IF key[M(p)] > 0 THEN rev + 1 ELSE rev
    /\ myRev' = [myRev EXCEPT ![H(p)] = -1]

(* ctx deadline while waiting: m.Unlock(client.Ctx()) deletes the key, Lock returns the error *)
Timeout(p) ==
    /\ pc[p] \in {"wait", "check"} /\ timeouts < MaxTimeouts
    /\ DeleteKey(p)
    /\ pc' = [pc EXCEPT ![p] = "fail"] /\ timeouts' = timeouts + 1
    /\ UNCHANGED <<localHeld, rounds>>

(* mutex.Lock's deferred function: `if panicked || err != nil { m.lock.Unlock() }` *)
FailReturn(p) ==
    /\ pc[p] = "fail"
    /\ localHeld' = [localHeld EXCEPT ![H(p)] = FALSE]
    /\ pc' = [pc EXCEPT ![p] = "idle"]
    /\ UNCHANGED <<key, rev, myRev, rounds, timeouts>>

CallUnlock(p) ==
    /\ pc[p] = "held"
    /\ pc' = [pc EXCEPT ![p] = "rel"]
    /\ UNCHANGED <<localHeld, key, rev, myRev, rounds, timeouts>>

UnlockDelete(p) ==
    /\ pc[p] = "rel"
    /\ DeleteKey(p)
    /\ pc' = [pc EXCEPT ![p] = "rel2"]
    /\ UNCHANGED <<localHeld, rounds, timeouts>>

UnlockLocal(p) ==
    /\ pc[p] = "rel2"
    /\ localHeld' = [localHeld EXCEPT ![H(p)] = FALSE]
    /\ pc' = [pc EXCEPT ![p] = "idle"]
    /\ UNCHANGED <<key, rev, myRev, rounds, timeouts>>

Progress(p) == \/ LocalLock(p) \/ TryAcquire(p) \/ WaitDone(p) \/ Check(p) \/ FailReturn(p)
               \/ CallUnlock(p) \/ UnlockDelete(p) \/ UnlockLocal(p)

Next == \E p \in Procs : CallLock(p) \/ Progress(p) \/ AcqTimeout(p) \/ Timeout(p)

Spec == Init /\ [][Next]_vars
(* every step of the code and every holder's Unlock eventually happens; deadlines may or may not fire *)
FairSpec == Spec /\ \A p \in Procs : WF_vars(Progress(p))

-----------------------------------------------------------------------------
TypeOK ==
    /\ pc \in [Procs -> {"idle", "local", "acq", "wait", "check", "held", "fail", "rel", "rel2"}]
    /\ localHeld \in [Handles -> BOOLEAN]
    /\ \A m \in Members : key[m] >= 0 /\ key[m] <= rev

(* C18, first clause: at most one holder (between the return of Lock and the call of Unlock) *)
Holders == {p \in Procs : pc[p] = "held"}
Mutex == Cardinality(Holders) <= 1

(* C18, second clause: a failed or timed-out acquisition leaves nothing behind.  Every locked     *)
(* sync.Mutex and every etcd key is accounted for by a call in progress or a holder ...           *)
NoResidue ==
    /\ \A h \in Handles : localHeld[h] => \E p \in Procs : H(p) = h /\ pc[p] \notin {"idle", "local"}
    /\ \A m \in Members : key[m] > 0 => \E p \in Procs : M(p) = m /\ pc[p] \in {"wait", "check", "held", "rel"}
(* ... hence at quiescence the lock is free *)
QuiescentFree ==
    (\A p \in Procs : pc[p] = "idle") => (\A m \in Members : key[m] = 0) /\ (\A h \in Handles : ~localHeld[h])

(* every Lock call returns (granted or refused), whatever failed before *)
Terminates == \A p \in Procs : (pc[p] = "local") ~> (pc[p] \in {"held", "idle"})
(* without a deadline firing, a call is granted *)
GrantedUnlessTimeout == \A p \in Procs : (pc[p] = "local") ~> (pc[p] = "held" \/ timeouts > 0)

(* refinement of the contract: holder = the goroutine between Lock's return and the deletion of   *)
(* its key                                                                                        *)
AbsHolder == IF \E p \in Procs : pc[p] \in {"held", "rel"}
             THEN CHOOSE p \in Procs : pc[p] \in {"held", "rel"} ELSE "none"
AbsPc == [p \in Procs |->
            CASE pc[p] = "idle" -> "idle"
              [] pc[p] \in {"local", "acq", "wait", "check"} -> "lockP"
              [] pc[p] = "fail" -> "failed"
              [] pc[p] = "held" -> "held"
              [] pc[p] = "rel"  -> "unlP"
              [] pc[p] = "rel2" -> "unlD"]
C == INSTANCE ClusterMutexContract WITH holder <- AbsHolder, cpc <- AbsPc, probe <- [p \in Procs |-> FALSE]
Refines == C!CSpec
=============================================================================

------------------------ MODULE ClusterMutexContract ------------------------
(* C18, contract layer of the cluster mutex (pkg/cluster/mutex.go).                              *)
(*                                                                                              *)
(* What the property says and nothing more: one lock name, contenders `Procs` (goroutines of     *)
(* any member, through any handle).  "At most one holder at any time across all goroutines and   *)
(* all members": a Lock call can only be granted while nobody holds.  "A failed or timed-out     *)
(* acquisition leaves it free for others": a refused call changes nothing.  A Lock call may be   *)
(* refused at any time (time-outs are a matter of timing, the property does not say when they    *)
(* happen) -- except a *probe*: a call issued with a generous time-out when nobody holds or      *)
(* contends (the harness issues those at quiescence; they are how "leaves it free" is observed). *)
(*                                                                                              *)
(* A call takes effect at one instant between its invocation and its return (Grant / Refuse /    *)
(* Release are those instants).  The holder's critical section is from the return of Lock to    *)
(* the invocation of Unlock.                                                                     *)
EXTENDS Integers, FiniteSets

CONSTANT Procs

VARIABLES holder,   \* "none" or the process that holds the lock
          cpc,      \* per process: "idle" | "lockP" | "failed" | "held" | "unlP" | "unlD"
          probe     \* per process: the pending Lock call is a probe (must not be refused)

cvars == <<holder, cpc, probe>>

CInit == holder = "none" /\ cpc = [p \in Procs |-> "idle"] /\ probe = [p \in Procs |-> FALSE]

CallLock(p, pr) == /\ cpc[p] = "idle"
                   /\ cpc' = [cpc EXCEPT ![p] = "lockP"] /\ probe' = [probe EXCEPT ![p] = pr]
                   /\ UNCHANGED holder

(* the linearisation point of a successful Lock; Lock returns nil afterwards *)
Grant(p) == /\ cpc[p] = "lockP" /\ holder = "none"
            /\ holder' = p /\ cpc' = [cpc EXCEPT ![p] = "held"]
            /\ UNCHANGED probe

(* a failed / timed-out Lock: nothing changes *)
Refuse(p) == /\ cpc[p] = "lockP" /\ ~probe[p]
             /\ cpc' = [cpc EXCEPT ![p] = "failed"]
             /\ UNCHANGED <<holder, probe>>

RetErr(p) == /\ cpc[p] = "failed" /\ cpc' = [cpc EXCEPT ![p] = "idle"] /\ UNCHANGED <<holder, probe>>

CallUnlock(p) == /\ cpc[p] = "held" /\ cpc' = [cpc EXCEPT ![p] = "unlP"] /\ UNCHANGED <<holder, probe>>

Release(p) == /\ cpc[p] = "unlP" /\ holder = p
              /\ holder' = "none" /\ cpc' = [cpc EXCEPT ![p] = "unlD"]
              /\ UNCHANGED probe

RetUnlock(p) == /\ cpc[p] = "unlD" /\ cpc' = [cpc EXCEPT ![p] = "idle"] /\ UNCHANGED <<holder, probe>>

CNext == \E p \in Procs : \/ CallLock(p, FALSE) \/ Grant(p) \/ Refuse(p) \/ RetErr(p)
                          \/ CallUnlock(p) \/ Release(p) \/ RetUnlock(p)

CSpec == CInit /\ [][CNext]_cvars

(* the property's first clause on the contract itself *)
InCS(p) == cpc[p] \in {"held", "unlP"}
Exclusive == Cardinality({p \in Procs : InCS(p)}) <= 1
HolderConsistent == \A p \in Procs : InCS(p) <=> holder = p
(* a failed call changes nothing *)
FailureChangesNothing == [][\A p \in Procs : (cpc[p] = "lockP" /\ cpc'[p] = "failed") => holder' = holder]_cvars
=============================================================================

------------------------- MODULE ClusterMutex_CTrace ------------------------
(* Trace validation for C18 (mutex part).  The harness logs invocation and return of every Lock  *)
(* and Unlock call on the real cluster mutex (several goroutines, handles and members, one lock  *)
(* name per scenario) with a global sequence number.  TLC searches for a linearisation allowed   *)
(* by ClusterMutexContract: each call takes effect at a silent Grant / Refuse / Release step     *)
(* between its `inv` and its `ret`.  Two critical sections that overlap in real time have none.  *)
(* A probe (Lock at quiescence with a generous time-out) cannot be refused, and a `stuck` event  *)
(* (a Lock call that never returned although nobody held the lock) matches no action: both are   *)
(* how "a failed or timed-out acquisition leaves it free for others" is observed.                *)
EXTENDS ClusterMutexContract, Sequences, Json, TLC, IOUtils

TLog == ndJsonDeserialize(IOEnv.VERIF_TRACE)

VARIABLES l,
          exp     \* per process: the result that was observed for the pending Lock call (copied by the driver from
                  \* the `ret` event onto the `inv` event): prunes the search, nothing else
tvars == <<cvars, l, exp>>

IsEvent(e) == l <= Len(TLog) /\ TLog[l].ev = e /\ l' = l + 1
Ev == TLog[l]

TReset == /\ IsEvent("reset")
          /\ holder' = "none" /\ cpc' = [p \in Procs |-> "idle"] /\ probe' = [p \in Procs |-> FALSE]
          /\ exp' = [p \in Procs |-> FALSE]

TInv(p) == /\ IsEvent("inv") /\ Ev.p = p
           /\ \/ Ev.op = "lock" /\ CallLock(p, Ev.probe) /\ exp' = [exp EXCEPT ![p] = Ev.r_ok]
              \/ Ev.op = "unlock" /\ CallUnlock(p) /\ UNCHANGED exp

TRet(p) == /\ IsEvent("ret") /\ Ev.p = p
           /\ \/ Ev.op = "lock" /\ Ev.ok /\ cpc[p] = "held" /\ UNCHANGED cvars
              \/ Ev.op = "lock" /\ ~Ev.ok /\ RetErr(p)
              \/ Ev.op = "unlock" /\ RetUnlock(p)
           /\ UNCHANGED exp

Lin(p) == ((exp[p] /\ Grant(p)) \/ (~exp[p] /\ Refuse(p)) \/ Release(p)) /\ UNCHANGED <<l, exp>>

TNext == TReset \/ \E p \in Procs : TInv(p) \/ TRet(p) \/ Lin(p)

TInit == l = 1 /\ CInit /\ exp = [p \in Procs |-> FALSE]
TSpec == TInit /\ [][TNext]_tvars

ASSUME TLCSet(1, 0)
HWM == TLCSet(1, IF l - 1 > TLCGet(1) THEN l - 1 ELSE TLCGet(1))
Accepted == /\ PrintT(<<"VERIF_HWM", TLCGet(1), Len(TLog)>>)
            /\ TLCGet(1) = Len(TLog)
=============================================================================

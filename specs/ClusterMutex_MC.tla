--------------------------- MODULE ClusterMutex_MC --------------------------
(* Model-checking configurations of ClusterMutex (cfg files cannot hold functions).              *)
EXTENDS ClusterMutex

MembersAB == {"m1", "m2"}

(* (A) one handle object per member; two goroutines of m1 share h1, one goroutine of m2 uses h2. *)
(* This is also the shape of the repaired code (fixes/cluster-mutex-one-handle-per-name.diff:     *)
(* cluster.Mutex(name) returns the member's one handle for the name, whoever asks).               *)
ProcsA    == {"p1", "p2", "p3"}
HandlesA  == {"h1", "h2"}
MemOfA    == [h \in HandlesA |-> IF h = "h1" THEN "m1" ELSE "m2"]
HandleOfA == [p \in ProcsA |-> IF p = "p3" THEN "h2" ELSE "h1"]

(* (A4) as (A) with two goroutines per member *)
ProcsA4    == {"p1", "p2", "p3", "p4"}
HandleOfA4 == [p \in ProcsA4 |-> IF p \in {"p3", "p4"} THEN "h2" ELSE "h1"]

(* (B) member m1 has two handle objects for the same name (two calls of cluster.Mutex(name)) *)
ProcsB    == {"p1", "p2", "p3"}
HandlesB  == {"h1a", "h1b", "h2"}
MemOfB    == [h \in HandlesB |-> IF h = "h2" THEN "m2" ELSE "m1"]
HandleOfB == [p \in ProcsB |-> CASE p = "p1" -> "h1a" [] p = "p2" -> "h1b" [] OTHER -> "h2"]

(* (B1) the smallest instance of (B): one member, two handles *)
MembersB1  == {"m1"}
ProcsB1    == {"p1", "p2"}
HandlesB1  == {"h1a", "h1b"}
MemOfB1    == [h \in HandlesB1 |-> "m1"]
HandleOfB1 == [p \in ProcsB1 |-> IF p = "p1" THEN "h1a" ELSE "h1b"]

(* (B1S) one member, two goroutines sharing its one handle: the smallest instance for the parameters *)
(* LocalWaitTimeout and EvictOnUnlock                                                               *)
HandlesB1S  == {"h1"}
MemOfB1S    == [h \in HandlesB1S |-> "m1"]
HandleOfB1S == [p \in ProcsB1 |-> "h1"]
=============================================================================

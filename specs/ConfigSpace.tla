----------------------------- MODULE ConfigSpace -----------------------------
(***************************************************************************************************)
(* C13 - every configuration that validation accepts can be instantiated and serves any request   *)
(* without panicking.                                                                              *)
(*                                                                                                 *)
(* Two parts (part 1 lives in ConfigSpaceGrammar.tla, this module is part 2).                      *)
(*                                                                                                 *)
(* 1. The GRAMMAR of the configuration space: for every kind (filter kinds, the Pipeline,          *)
(*    GlobalFilter, HTTPServer and MQTTProxy objects, both resilience kinds) the list of its       *)
(*    fields, each ranging over a small set of *value classes* (absent "-", zero, boundary,        *)
(*    typical, schema-valid-but-odd such as YAML null elements, cross references that hit / miss,  *)
(*    valid values in another letter case, and - field "pad" - valid values of the pkg/v formats   *)
(*    with leading / trailing white space).                                                        *)
(*    Grammar(k) is the set of records [field -> class]; the first class of every field is the     *)
(*    field's *base* class and Base(k) is expected to be a working configuration.  Dev(k, c) counts *)
(*    the fields that deviate from the base; the generator (ConfigSpace_Gen) enumerates            *)
(*    {c \in Grammar(k) : Dev(k, c) <= MaxDev} exhaustively (the whole grammar when MaxDev is the   *)
(*    number of fields).  Classes are strings so that one set never mixes types; the Go harness    *)
(*    (harness/pkg/object/pipeline/c13_render_test.go) concretises a class into YAML.              *)
(*    Where the repository *states* a rule in a Validate() method, MustReject(k, c) carries it.    *)
(*                                                                                                 *)
(* 2. The LIFE-CYCLE automaton of one configuration - the protocol in which the supervisor and the *)
(*    traffic gates use an object:                                                                 *)
(*        Validate -> {rejected, accepted};  accepted -> Create -> Init -> Handle(q)*              *)
(*                 -> Inherit -> Handle(q)* -> Close                                               *)
(*    Every call either returns or panics.  The model cannot predict a panic - so a panic is       *)
(*    possible at every call (WNext).  The contract of the property is the invariant               *)
(*    NoPanicAfterAccept.  TLC checks the protocol properties of the automaton, shows that a panic  *)
(*    is reachable from every call (the invariant is not vacuous), generates the configurations,   *)
(*    and validates the life-cycles recorded from the real code (ConfigSpace_Trace).               *)
(***************************************************************************************************)
EXTENDS ConfigSpaceGrammar

(***************************************************************************************************)
(* Life-cycle automaton of one configuration.                                                      *)
(***************************************************************************************************)
VARIABLES
  kind,      \* kind of the configuration under test
  cfg,       \* the abstract configuration (a member of Grammar(kind))
  phase,     \* "new", "rejected", "accepted", "created", "inited", "inherited", "closed", "dead"
  verdict,   \* "none", "accepted", "rejected" : what validation said
  panicked,  \* a call panicked (in any goroutine)
  pcall,     \* the call that panicked first ("-" if none): "validate", "create", "init", "handle", "inherit", "close"
  nh         \* number of Handle calls made in the current generation (bounded in model checking)

vars == <<kind, cfg, phase, verdict, panicked, pcall, nh>>

CONSTANTS MaxHandle      \* bound on Handle calls per generation (model checking only)

Phases == {"new", "rejected", "accepted", "created", "inited", "inherited", "closed", "dead"}
Calls  == {"validate", "create", "init", "handle", "inherit", "close"}

TypeOK == /\ kind \in AllKinds
          /\ phase \in Phases
          /\ verdict \in {"none", "accepted", "rejected"}
          /\ panicked \in BOOLEAN
          /\ pcall \in Calls \cup {"-"}
          /\ nh \in 0..MaxHandle

\* a call that panics: the object is unusable afterwards, except for Handle (the traffic gates recover
\* per request and keep serving)
Panic(call, next) ==
    /\ panicked' = TRUE
    /\ pcall' = IF pcall = "-" THEN call ELSE pcall
    /\ phase' = next

Ok(next) == /\ phase' = next /\ UNCHANGED <<panicked, pcall>>

\* Validate: the model does not decide acceptance (that is the code's business) except through the
\* stated rules; it may even panic (the validation entry points recover and reject)
Validate(acc, pan, lax) ==
    /\ phase = "new"
    /\ lax \/ ~acc \/ ~MustReject(kind, cfg)      \* the contract honours the stated rules
    /\ ~(acc /\ pan)                              \* a panic inside validation is recovered there and rejects
    /\ verdict' = IF acc THEN "accepted" ELSE "rejected"
    /\ IF pan THEN Panic("validate", "dead") ELSE Ok(IF acc THEN "accepted" ELSE "rejected")
    /\ UNCHANGED <<kind, cfg, nh>>

Create(pan) ==
    /\ phase = "accepted" /\ kind \notin ValidateOnlyKinds
    /\ IF pan THEN Panic("create", "dead") ELSE Ok("created")
    /\ UNCHANGED <<kind, cfg, verdict, nh>>

Init(pan) ==
    /\ phase = "created"
    /\ IF pan THEN Panic("init", "dead") ELSE Ok("inited")
    /\ nh' = 0
    /\ UNCHANGED <<kind, cfg, verdict>>

Handle(q, pan) ==
    /\ phase \in {"inited", "inherited"}
    /\ q \in Reqs(kind)
    /\ nh < MaxHandle
    /\ nh' = nh + 1
    /\ IF pan THEN Panic("handle", phase) ELSE Ok(phase)
    /\ UNCHANGED <<kind, cfg, verdict>>

Inherit(pan) ==
    /\ phase = "inited" /\ kind \notin PolicyKinds
    /\ IF pan THEN Panic("inherit", "dead") ELSE Ok("inherited")
    /\ nh' = 0
    /\ UNCHANGED <<kind, cfg, verdict>>

Close(pan) ==
    /\ phase \in {"inited", "inherited"}
    /\ IF pan THEN Panic("close", "dead") ELSE Ok("closed")
    /\ UNCHANGED <<kind, cfg, verdict, nh>>

Step(pan, lax) == \/ \E acc \in BOOLEAN : Validate(acc, pan, lax)
                  \/ Create(pan) \/ Init(pan) \/ Inherit(pan) \/ Close(pan)
                  \/ \E q \in AllReqs : Handle(q, pan)

Next  == Step(FALSE, FALSE)                       \* the contract: no call panics, stated rules are enforced
WNext == \E pan, lax \in BOOLEAN : Step(pan, lax)  \* the world: any call may panic, validation may be too lax

(***************************************************************************************************)
(* The property, and the protocol properties of the automaton.                                     *)
(***************************************************************************************************)
NoPanicAfterAccept == ~(verdict = "accepted" /\ panicked)

\* "a configuration that cannot work is rejected at validation time" for the rules the repository states
RuleRejected == (verdict # "none" /\ MustReject(kind, cfg)) => verdict = "rejected"

\* nothing is ever called on a rejected configuration, an object is used only between Init and Close
RejectedIsFinal == [][(phase = "rejected") => (phase' = "rejected")]_vars
ClosedIsFinal   == [][(phase \in {"closed", "dead"}) => (phase' = phase)]_vars
VerdictStable   == [][(verdict # "none") => (verdict' = verdict)]_vars
UsedOnlyIfAccepted == phase \in {"created", "inited", "inherited", "closed"} => verdict = "accepted"
ValidateOnlyStops  == kind \in ValidateOnlyKinds => phase \in {"new", "rejected", "accepted", "dead"}
=============================================================================

------------------------- MODULE ConfigSpaceGrammar -------------------------
(***************************************************************************************************)
(* C13, part 1: the GRAMMAR of the configuration space (no variables; see ConfigSpace.tla for the  *)
(* life-cycle automaton and the property).                                                         *)
(*                                                                                                 *)
(* For every kind (filter kinds, the Pipeline, GlobalFilter, HTTPServer and MQTTProxy objects,     *)
(* both resilience kinds) the list of its fields, each ranging over a small set of *value classes* *)
(* (absent "-", zero, boundary, typical, schema-valid-but-odd such as YAML null elements, cross    *)
(* references that hit / miss).  Grammar(k) is the set of records [field -> class]; the first      *)
(* class of every field is the field's *base* class and Base(k) is a working configuration.        *)
(* Dev(k, c) counts the fields that deviate from the base (a padded class of a field - see PADDED  *)
(* VALUES - counts once); the generator (ConfigSpace_Gen)                                          *)
(* enumerates {c \in Grammar(k) : Dev(k, c) <= MaxDev} exhaustively (the whole grammar when MaxDev  *)
(* is the number of fields).  Classes are strings so that one set never mixes types; the Go        *)
(* harness (harness/pkg/object/pipeline/c13_render_test.go) concretises a class into YAML.         *)
(* Where the repository *states* a rule in a Validate() method, MustReject(k, c) carries it.       *)
(***************************************************************************************************)
EXTENDS Integers, Sequences, FiniteSets

F(n, d) == [n |-> n, d |-> d]     \* a field: name and the sequence of its classes, base first

(***************************************************************************************************)
(* Request classes sent to an accepted object (what "any request" is instantiated with).          *)
(***************************************************************************************************)
\* Request paths are DERIVED FROM THE PATHS THE GRAMMAR CONFIGURES (HTTPServer path "/a", pathPrefix "/api",
\* pathRegexp "^/(a|api)" / "^/api/(.*)$"; Mock path "/a", pathPrefix "/api"; RateLimiter exact "/a", regex
\* "^/(a|api)"; RequestAdaptor trimPrefix "/api"; HeaderLookup pathRegExp "^/api"): next to the configured path
\* itself an object must survive every near miss of it - one trailing slash, extra segments, another case, a
\* percent-encoded spelling, the prefix without a segment boundary (the matching and the rewriting / trimming
\* sites of a kind must agree on all of them).
PathAnchors  == {"a", "api"}                                      \* the configured literals /a and /api
PathVariants == {"bare", "slash", "seg", "case", "enc", "nosep"}   \* /a  /a/  /a/x/y  /A  /%61  /ax   (same for /api)
PathReqs     == {a \o "_" \o v : a \in PathAnchors, v \in PathVariants}
\* Requests that carry what the Validator's signature section verifies: a header signature and a presigned
\* query made with access key k / secret s, a header signature made with key k and the EMPTY secret, and a
\* syntactically complete signature header whose parts are garbage.
SigReqs      == {"signed", "presigned", "signed0", "badsig"}
\* Requests whose CONTEXT ENDS while they are being served - a client may go away, a deadline may pass at any
\* moment: the context is already cancelled when the request arrives ("gone"); the client disconnects while a
\* backend call is in progress ("cancelmid": the harness's backend cancels the request's context the moment the
\* call reaches it; for a kind that calls no backend it stays a live cancellable request); the deadline expires
\* while a backend call or - with a failing backend and a retry policy - the back-off between two attempts is in
\* progress ("expire": deadline 10 ms, the backend answers after 60 ms; Proxy retry class "rwait" backs off 40 ms).
\* Every layer between the request and the backend (resilience wrappers, pools, filters) must hand the outcome
\* up in a form the next layer is prepared for.
CtxReqs      == {"gone", "cancelmid", "expire"}
HttpReqs   == {"plain", "body", "basic", "bearer", "stream", "resp", "gz", "preflight", "jsonarr", "respstream"}
                 \cup PathReqs \cup SigReqs \cup CtxReqs
\* real HTTP requests to a started HTTPServer ("abort": the client sends the head and a part of the announced
\* body and closes the connection)
ServerReqs == {"plain", "body", "hdr", "big", "acme", "host", "abort"} \cup PathReqs
MqttReqs   == {"connect", "pubsub"}                                  \* MQTT sessions against a started MQTTProxy
\* handler outcomes under a resilience wrapper: single calls, a failure burst that opens a circuit and probes it
\* half open, a recovery (wait, successes until the circuit closes, failures on the fresh window), slow handlers,
\* a context cancelled before the call ("cancelled") and by the failing handler itself, i.e. while the call is in
\* progress ("cancelmid")
PolicyReqs == {"ok", "fail", "burst", "cancelled", "cancelmid", "recover", "slow"}
AllReqs    == HttpReqs \cup ServerReqs \cup MqttReqs \cup PolicyReqs

(***************************************************************************************************)
(* Grammar.                                                                                        *)
(***************************************************************************************************)
FilterKinds   == {"Proxy", "Validator", "RateLimiter", "RequestAdaptor", "ResponseAdaptor", "RequestBuilder",
                  "ResponseBuilder", "Mock", "Fallback", "CORSAdaptor", "HeaderLookup", "HeaderToJSON", "MeshAdaptor"}
ObjectKinds   == {"Pipeline", "GlobalFilter", "HTTPServer", "MQTTProxy"}
PolicyKinds   == {"Retry", "CircuitBreaker"}
\* kinds that need an external system (Kafka broker, remote HTTP filter, TLS peer certificates): Validate only
ValidateOnlyKinds == {"KafkaMQTT", "Kafka", "RemoteFilter", "CertExtractor"}
AllKinds      == FilterKinds \cup ObjectKinds \cup PolicyKinds \cup ValidateOnlyKinds

Reqs(k) == IF k \in PolicyKinds THEN PolicyReqs
           ELSE IF k = "HTTPServer" THEN ServerReqs
           ELSE IF k = "MQTTProxy" THEN MqttReqs
           ELSE IF k \in ValidateOnlyKinds THEN {}
           ELSE HttpReqs

AdaptHeader == <<"-", "set", "add", "del", "all", "nullval", "emptyobj">>

\* Enum-like string fields (schema enum= / format=httpmethod tags, values compared with == in Validate(), Init()
\* and at request time: compress/decompress codings, load-balance and matcher policies, sliding window type,
\* back-off policy, algorithms, modes, protocols, packet types, HTTP methods, filter kinds, the END node) carry,
\* next to their valid and bogus values, the class "A VALID VALUE WRITTEN IN ANOTHER LETTER CASE" (GZIP, Gzip,
\* RoundRobin, time_based, hs256, get ...): the sites that accept a value and the sites that use it must agree on
\* the letter case as well.

\* PADDED VALUES.  A string field that carries one of the custom formats of pkg/v (struct tag format=duration,
\* regexp, httpmethod[-array], urlname, base64, url, uri, ipcidr[-array]) is validated by the format's function
\* and later parsed / compared again by whoever uses it (time.ParseDuration, regexp.Compile, == http.MethodGet,
\* name look-ups ...).  The two sites must agree on more than the letter case: a value a more lenient validator
\* lets through is one the consumer must cope with.  The last field of every kind, "pad", therefore carries the
\* class "A VALID VALUE WITH LEADING / TRAILING WHITE SPACE": pad = "<format>_lead" ("<format>_trail") writes
\* every string of that format in the configuration with one blank before (after) it.  The harness finds those
\* strings from the repository's own types (c13_pad_test.go), so the class reaches every format-validated
\* field of every kind, including the ones of the pipeline / resilience definitions around a filter.
Formats == {"duration", "regexp", "httpmethod", "urlname", "base64", "url", "uri", "ipcidr"}
Pads(fs) == [i \in 1..(2 * Len(fs)) |-> fs[(i + 1) \div 2] \o (IF i % 2 = 1 THEN "_lead" ELSE "_trail")]
PadField(fs) == F("pad", <<"-">> \o Pads(fs))       \* fs: the formats that occur in configurations of the kind
PadFmtOf(p) == CHOOSE f \in Formats : p \in {f \o "_lead", f \o "_trail"}

Fields(k) ==
  CASE k = "Proxy" ->
       << F("servers",      <<"one", "two", "dead", "hostname", "badurl", "nourl", "null", "empty", "none", "svcname">>),
          F("weights",      <<"-", "all", "some", "zero", "neg">>),
          F("lb",           <<"-", "roundRobin", "random", "weightedRandom", "ipHash", "headerHash", "emptyobj", "bogus", "RoundRobin", "IPHASH">>),
          F("hashkey",      <<"-", "X-A">>),
          F("timeout",      <<"-", "50ms", "0s", "-1s", "1ns", "bogus">>),
          F("retry",        <<"-", "r1", "cb1", "undef", "rwait">>),
          F("cb",           <<"-", "cb1", "r1", "undef">>),
          F("failureCodes", <<"-", "503", "200", "empty", "999">>),
          F("memoryCache",  <<"-", "ok", "exp0", "expNeg", "badExp", "zeroBytes", "noMethods", "noCodes", "emptyobj", "lowerMethods">>),
          F("maxBody",      <<"-", "-1", "1", "0">>),
          F("mainPools",    <<"one", "zero", "two", "absent", "null">>),
          F("candidate",    <<"-", "hdr", "hdrAll", "regex", "badregex", "urls", "urlNoMatch", "urlNull", "nullhdr", "emptyhdr",
                              "noHeaders", "emptyobj", "ipHash", "ipHashRegexHdr", "random1000", "permil0", "permil1001",
                              "headerHash", "headerHashNoKey", "bogus", "policyUpper", "urlsLowerMethod">>),
          F("mirror",       <<"-", "ok", "hdr", "dead", "nofilter", "withcache", "noservers", "wrnd">>),
          F("compression",  <<"-", "0", "10", "4294967295", "emptyobj">>),
          F("mtls",         <<"-", "garbage", "badb64", "partial">>),
          F("maxIdle",      <<"-", "0", "-1">>),
          F("maxIdleHost",  <<"-", "0", "-1">>),
          F("topMaxBody",   <<"-", "-1", "1">>),
          PadField(<<"urlname", "url", "duration", "regexp", "httpmethod", "base64">>) >>      \* (the pipeline around it defines Retry r1, rwait and CircuitBreaker cb1)
    [] k = "Validator" ->
       << F("headers",   <<"-", "values", "regexp", "emptyval", "null", "badre", "emptyobj">>),
          F("jwt",       <<"-", "HS256", "HS512", "cookie", "noSecret", "noAlg", "badAlg", "oddSecret", "emptyobj", "lowerAlg">>),
          F("sig",       <<"-", "keys", "emptyobj", "emptyKeys", "idOnly", "ttl", "badTTL", "literalPartial", "literalFull", "hoist",
                           "emptySecret", "emptyId", "nullSecret", "mixedEmpty", "idNoSecret">>),
          F("oauth2",    <<"-", "jwt", "jwtNoSecret", "emptyobj", "introspectLive", "introspectBasic", "introspectDead",
                           "introspectBadURL", "introspectNoEnd", "both", "jwtLowerAlg">>),
          F("basicAuth", <<"-", "fileOk", "fileMissing", "emptyobj", "etcd", "etcdPrefix", "badMode", "lowerMode">>),
          PadField(<<"urlname", "regexp", "duration">>) >>
    [] k = "RateLimiter" ->
       << F("policies",   <<"one", "two", "dup", "noName", "none", "null", "absent">>),
          F("refresh",    <<"10ms", "-", "0s", "-1s", "1h", "1ns", "bogus">>),
          F("timeout",    <<"5ms", "-", "0s", "-1s", "1h">>),
          F("limit",      <<"5", "-", "1", "0", "-1", "1000000000">>),
          F("defaultRef", <<"-", "p1", "undef">>),
          F("urls",       <<"one", "exact", "regex", "badregex", "emptyMatch", "emptyTrue", "noURL", "methods", "badMethod",
                            "noRef", "undefRef", "two", "none", "null", "absent", "lowerMethod">>),
          PadField(<<"urlname", "duration", "regexp", "httpmethod">>) >>
    [] k = "RequestAdaptor" ->
       << F("host",       <<"-", "h.example">>),
          F("method",     <<"-", "POST", "FETCH", "post">>),
          F("path",       <<"-", "replace", "addPrefix", "trimPrefix", "regexp", "badregexp", "noregexp", "noSlash", "emptyobj", "all">>),
          F("header",     AdaptHeader),
          F("body",       <<"-", "text">>),
          F("compress",   <<"-", "gzip", "deflate", "GZIP">>),
          F("decompress", <<"-", "gzip", "deflate", "Gzip">>),
          PadField(<<"urlname", "httpmethod", "regexp">>) >>
    [] k = "ResponseAdaptor" ->
       << F("header",     AdaptHeader),
          F("body",       <<"-", "text">>),
          F("compress",   <<"-", "gzip", "deflate", "GZIP">>),
          F("decompress", <<"-", "gzip", "deflate", "Gzip">>),
          PadField(<<"urlname">>) >>
    [] k \in {"RequestBuilder", "ResponseBuilder"} ->
       << F("template",        <<"ok", "-", "useReq", "useBody", "useJSON", "useResp", "missingNs", "syntaxErr", "badFunc",
                                 "divzero", "notYaml", "badMethod", "scalar", "emptyDoc">>),
          F("sourceNamespace", <<"-", "DEFAULT", "other">>),
          F("leftDelim",       <<"-", "[[">>),
          F("rightDelim",      <<"-", "]]">>),
          F("protocol",        <<"-", "http", "mqtt", "bogus", "HTTP">>),
          PadField(<<"urlname">>) >>
    [] k = "Mock" ->
       << F("rules",        <<"one", "two", "noMatch", "none", "null", "nullThenOne", "absent">>),
          F("code",         <<"200", "-", "0", "99", "600", "204">>),
          F("delay",        <<"-", "1ms", "0s", "-1s", "bogus">>),
          F("matchPath",    <<"-", "exact", "prefix", "both", "noSlash">>),
          F("matchHeaders", <<"-", "exact", "emptyTrue", "regex", "badregex", "null", "emptyval", "conflict", "two">>),
          F("matchAll",     <<"-", "true">>),
          F("headers",      <<"-", "set", "nullval">>),
          F("body",         <<"-", "text">>),
          PadField(<<"urlname", "duration", "regexp">>) >>
    [] k = "Fallback" ->
       << F("mockCode",    <<"200", "-", "0", "99", "600">>),
          F("mockHeaders", <<"-", "set", "nullval">>),
          F("mockBody",    <<"-", "text">>),
          PadField(<<"urlname">>) >>
    [] k = "CORSAdaptor" ->
       << F("origins",     <<"-", "star", "one", "wild", "twoWild", "empty", "nullval", "emptystr">>),
          F("methods",     <<"-", "GET", "bogus", "dup", "empty", "lower">>),
          F("headers",     <<"-", "star", "one", "empty", "emptystr">>),
          F("exposed",     <<"-", "one", "empty">>),
          F("credentials", <<"-", "true">>),
          F("maxAge",      <<"-", "0", "-1", "600">>),
          F("support",     <<"-", "true">>),
          PadField(<<"urlname", "httpmethod">>) >>
    [] k = "HeaderLookup" ->
       << F("headerKey",  <<"X-A", "-", "empty">>),
          F("etcdPrefix", <<"pfx/", "/pfx", "-", "empty">>),
          F("pathRegExp", <<"-", "plain", "group", "bad">>),
          F("setters",    <<"one", "two", "noEtcdKey", "noHeaderKey", "none", "null", "absent">>),
          PadField(<<"urlname">>) >>
    [] k = "HeaderToJSON" ->
       << F("headerMap", <<"one", "two", "noJSON", "emptyJSON", "none", "null", "absent">>),
          PadField(<<"urlname">>) >>
    [] k = "MeshAdaptor" ->
       << F("canaries", <<"one", "none", "null", "absent">>),
          F("header",   <<"set", "-", "del", "all", "nullval", "emptyobj">>),
          F("filter",   <<"hdr", "-", "regex", "random", "noHeaders", "nullhdr", "policyUpper">>),
          PadField(<<"urlname", "regexp">>) >>
    [] k = "Retry" ->
       << F("maxAttempts",  <<"-", "1", "2", "0", "-1">>),
          F("waitDuration", <<"1ms", "-", "0s", "-1ms", "bogus">>),
          F("backOff",      <<"-", "random", "exponential", "bogus", "Exponential">>),
          F("factor",       <<"-", "0", "0.5", "1", "1.5", "-0.5">>),
          PadField(<<"urlname", "duration">>) >>
    [] k = "CircuitBreaker" ->
       << F("windowType", <<"-", "COUNT_BASED", "TIME_BASED", "bogus", "time_based">>),
          F("failRate",   <<"-", "0", "1", "100", "101">>),
          F("slowRate",   <<"-", "0", "1", "100", "101">>),
          F("netErr",     <<"-", "true">>),
          F("windowSize", <<"4", "-", "0", "1", "1000000">>),
          F("permitted",  <<"-", "0", "1">>),
          F("minCalls",   <<"2", "-", "0", "1">>),
          F("slowDur",    <<"-", "0s", "1ns", "bogus">>),
          F("maxWait",    <<"-", "0s", "1ms", "-1s">>),
          F("waitOpen",   <<"2ms", "-", "0s", "-1s">>),
          PadField(<<"urlname", "duration">>) >>
    [] k = "Pipeline" ->
       << F("filters",    <<"mock", "mock2", "proxy", "builder", "fallback", "none", "absent", "null", "dupName", "endName",
                            "badKind", "noName", "lowerKind">>),
          F("flow",       <<"-", "all", "withEnd", "onlyEnd", "unknown", "twice", "alias", "reversed", "empty", "null", "noFilterKey",
                            "lowerEnd">>),
          F("jumpIf",     <<"-", "toEnd", "fwd", "self", "badResult", "undefTarget", "emptyTarget">>),
          F("ns",         <<"-", "DEFAULT", "other">>),
          F("resilience", <<"-", "retry", "both", "dupName", "badKind", "noName", "null", "empty">>),
          PadField(<<"urlname", "duration", "url">>) >>
    [] k = "GlobalFilter" ->
       << F("before", <<"-", "mock", "noflow", "flowOnly", "endOnly", "badfilter", "adaptor", "emptyobj", "null">>),
          F("after",  <<"-", "mock", "noflow", "flowOnly", "endOnly", "badfilter", "adaptor", "emptyobj", "null">>),
          PadField(<<"urlname", "httpmethod">>) >>
    [] k = "HTTPServer" ->
       << F("port",              <<"free", "0", "65536", "absent">>),
          F("keepAlive",         <<"-", "true", "false">>),
          F("https",             <<"false", "absent", "nocert", "autoCert", "certs", "certNoKey", "garbageCert", "http3", "caOnly">>),
          F("keepAliveTimeout",  <<"-", "1s", "0s", "-1s", "bogus">>),
          F("maxConnections",    <<"-", "1", "0">>),
          F("cacheSize",         <<"-", "1", "0", "4294967295">>),
          F("clientMaxBodySize", <<"-", "-1", "1", "0">>),
          F("xff",               <<"-", "true">>),
          F("ipFilter",          <<"-", "allowLocal", "blockLocal", "blockDefault", "both", "badcidr", "v4mapped", "dup", "emptyobj", "nullip">>),
          F("rules",             <<"one", "two", "none", "absent", "null", "nullPath", "noPaths">>),
          F("host",              <<"-", "exact", "regexp", "badregexp", "both">>),
          F("ruleIPFilter",      <<"-", "allowLocal", "blockLocal", "v4mapped">>),
          F("path",              <<"prefix", "exact", "regexp", "badregexp", "noSlash", "any", "rewritePrefix", "rewriteExact",
                                   "rewriteRegexp", "rewriteMixed", "rewriteNoPath", "exactSlash", "rewriteExactSlash">>),
          F("backend",           <<"pl", "unknown", "absent", "empty">>),
          F("headers",           <<"-", "values", "regexp", "all", "badregexp", "neither", "noKey", "null">>),
          F("methods",           <<"-", "GET", "bogus", "dup", "lower">>),
          F("pathMaxBody",       <<"-", "-1", "1">>),
          F("pathIPFilter",      <<"-", "allowLocal", "blockLocal">>),
          F("globalFilter",      <<"-", "undef">>),
          PadField(<<"urlname", "duration", "regexp", "httpmethod", "base64", "ipcidr">>) >>
    [] k = "MQTTProxy" ->
       << F("port",           <<"free", "0", "absent">>),
          F("tls",            <<"-", "nocert", "cert", "badcert", "certNoTLS">>),
          F("topicCacheSize", <<"-", "1", "0", "-1">>),
          F("maxConn",        <<"-", "1", "0", "-1">>),
          F("connLimit",      <<"-", "req", "bytes", "both", "zero", "neg", "emptyobj">>),
          F("pubLimit",       <<"-", "req", "bytes", "both", "zero", "neg", "emptyobj">>),
          F("rules",          <<"-", "connect", "publish", "all", "noWhen", "emptyWhen", "badType", "dup", "noPipeline", "null", "empty", "lowerType">>),
          PadField(<<"urlname">>) >>
    [] k = "KafkaMQTT"     -> << F("spec", <<"ok", "noMQTT", "noBackend", "empty">>), PadField(<<"urlname">>) >>
    [] k = "Kafka"         -> << F("spec", <<"ok", "noBackend", "noTopic", "empty">>), PadField(<<"urlname">>) >>
    [] k = "RemoteFilter"  -> << F("spec", <<"ok", "badURL", "badTimeout", "empty">>), PadField(<<"urlname", "uri", "duration">>) >>
    [] k = "CertExtractor" -> << F("spec", <<"ok", "badTarget", "noHeaderKey", "empty", "upperTarget">>), PadField(<<"urlname">>) >>

\* Which classes of which field write a string of which format (what the harness's renderer does; the harness
\* reports the formats it found per configuration and the driver holds them against this table).  Every kind
\* has a name (urlname); a filter is driven inside a pipeline whose name and - for the Proxy - resilience
\* definitions (durations) are there whatever the filter's fields say.
AlwaysFmt(k) == IF k = "Proxy" THEN {"urlname", "duration"} ELSE {"urlname"}
Carriers(k, f, n, x) ==
  LET Car(ff, nn, cs) == f = ff /\ n = nn /\ x \in cs IN
  CASE k = "Proxy" ->
         Car("url", "servers", {"one", "two", "dead", "hostname", "badurl"})
    \/   Car("url", "candidate", {"hdr", "hdrAll", "regex", "badregex", "urls", "urlNoMatch", "urlNull", "nullhdr", "emptyhdr", "noHeaders",
                                  "emptyobj", "ipHash", "ipHashRegexHdr", "random1000", "permil0", "permil1001", "headerHash",
                                  "headerHashNoKey", "bogus", "policyUpper", "urlsLowerMethod"})
    \/   Car("url", "mirror", {"ok", "hdr", "dead", "nofilter", "withcache", "wrnd"})
    \/   Car("duration", "timeout", {"50ms", "0s", "-1s", "1ns", "bogus"})
    \/   Car("duration", "memoryCache", {"ok", "exp0", "expNeg", "badExp", "zeroBytes", "noMethods", "noCodes", "lowerMethods"})
    \/   Car("httpmethod", "memoryCache", {"ok", "exp0", "expNeg", "badExp", "zeroBytes", "noCodes", "lowerMethods"})
    \/   Car("httpmethod", "candidate", {"urls", "urlsLowerMethod"})
    \/   Car("regexp", "candidate", {"regex", "badregex", "urls", "ipHashRegexHdr"})
    \/   Car("base64", "mtls", {"garbage", "badb64", "partial"})
    \/   Car("duration", "retry", {"r1", "rwait"}) \/ Car("duration", "cb", {"cb1"})    \* (use a definition that has durations)
    [] k = "Validator" ->
         Car("regexp", "headers", {"regexp", "badre"}) \/   Car("duration", "sig", {"ttl", "badTTL"})
    [] k = "RateLimiter" ->
         Car("duration", "refresh", {"10ms", "0s", "-1s", "1h", "1ns", "bogus"})
    \/   Car("duration", "timeout", {"5ms", "0s", "-1s", "1h"})
    \/   Car("regexp", "urls", {"regex", "badregex"})
    \/   Car("httpmethod", "urls", {"methods", "badMethod", "lowerMethod"})
    [] k = "RequestAdaptor" ->
         Car("httpmethod", "method", {"POST", "FETCH", "post"}) \/   Car("regexp", "path", {"regexp", "badregexp", "all"})
    [] k = "Mock" ->
         Car("duration", "delay", {"1ms", "0s", "-1s", "bogus"}) \/   Car("regexp", "matchHeaders", {"regex", "badregex"})
    [] k = "CORSAdaptor" -> Car("httpmethod", "methods", {"GET", "bogus", "dup", "lower"})
    [] k = "MeshAdaptor" -> Car("regexp", "filter", {"regex"})
    [] k = "Retry" -> Car("duration", "waitDuration", {"1ms", "0s", "-1ms", "bogus"})
    [] k = "CircuitBreaker" ->
         Car("duration", "slowDur", {"0s", "1ns", "bogus"}) \/   Car("duration", "maxWait", {"0s", "1ms", "-1s"})
    \/   Car("duration", "waitOpen", {"2ms", "0s", "-1s"})
    [] k = "Pipeline" ->
         Car("duration", "resilience", {"retry", "both", "dupName"}) \/ Car("url", "filters", {"proxy", "builder"})
    [] k = "GlobalFilter" ->
         Car("httpmethod", "before", {"adaptor"}) \/   Car("httpmethod", "after", {"adaptor"})
    [] k = "HTTPServer" ->
         Car("duration", "keepAliveTimeout", {"1s", "0s", "-1s", "bogus"})
    \/   Car("regexp", "host", {"regexp", "badregexp", "both"})
    \/   Car("regexp", "path", {"regexp", "badregexp", "rewriteRegexp", "rewriteMixed"})
    \/   Car("regexp", "headers", {"regexp", "all", "badregexp"})
    \/   Car("httpmethod", "methods", {"GET", "bogus", "dup", "lower"})
    \/   Car("base64", "https", {"garbageCert", "caOnly"})
    \/   Car("ipcidr", "ipFilter", {"allowLocal", "blockLocal", "both", "badcidr", "v4mapped", "dup"})
    \/   Car("ipcidr", "ruleIPFilter", {"allowLocal", "blockLocal", "v4mapped"})
    \/   Car("ipcidr", "pathIPFilter", {"allowLocal", "blockLocal"})
    [] k = "RemoteFilter" ->
         Car("uri", "spec", {"ok", "badURL", "badTimeout"}) \/   Car("duration", "spec", {"ok", "badTimeout"})
    [] OTHER -> FALSE

Range(s)      == {s[i] : i \in DOMAIN s}
NFields(k)    == Len(Fields(k))
FieldNames(k) == {Fields(k)[i].n : i \in 1..NFields(k)}
FieldOf(k, n) == CHOOSE i \in 1..NFields(k) : Fields(k)[i].n = n
Dom(k, n)     == Range(Fields(k)[FieldOf(k, n)].d)
BaseOf(k, n)  == Fields(k)[FieldOf(k, n)].d[1]

\* the grammar of kind k: all records over its fields; TLC never enumerates it as such (the generator
\* builds its members field by field), membership is what is checked
InGrammar(k, c) == /\ DOMAIN c = FieldNames(k)
                   /\ \A n \in FieldNames(k) : c[n] \in Dom(k, n)
Base(k)   == [n \in FieldNames(k) |-> BaseOf(k, n)]

\* a configuration carries format f; a field off its base class carries it
Carries(k, c, f)  == f \in AlwaysFmt(k) \/ \E n \in FieldNames(k) \ {"pad"} : Carriers(k, f, n, c[n])
OffBaseCarrier(k, c, f) == \E n \in FieldNames(k) \ {"pad"} : c[n] # BaseOf(k, n) /\ Carriers(k, f, n, c[n])
\* every field off its base class carries format f
PureCarrier(k, c, f) == \A n \in FieldNames(k) \ {"pad"} : c[n] = BaseOf(k, n) \/ Carriers(k, f, n, c[n])
\* a padded class exists only where there is a value to pad
PadSound(k, c) == IF c.pad = "-" THEN TRUE ELSE Carries(k, c, PadFmtOf(c.pad))
\* the padded configurations the generator enumerates: the padded variants of the base and of the configurations
\* whose off-base fields all write a value of the format (the grammar as such - InGrammar - has every combination)
PadPure(k, c) == IF c.pad = "-" THEN TRUE ELSE PureCarrier(k, c, PadFmtOf(c.pad))
\* Distance from the base: the number of fields off their base class - where "field x has the padded variant
\* of its class v" (x = v off base, pad = the format of v) is ONE deviation, like any other class of x.
Dev(k, c) == Cardinality({n \in FieldNames(k) : c[n] # BaseOf(k, n)})
               - (IF c.pad = "-" THEN 0 ELSE IF OffBaseCarrier(k, c, PadFmtOf(c.pad)) THEN 1 ELSE 0)

(***************************************************************************************************)
(* Rules the repository states in its Validate() methods (pkg/filters/proxy: Spec.Validate,        *)
(* ServerPoolSpec.Validate, RequestMatcherSpec.Validate; ratelimiter: Spec.Validate; builder:      *)
(* Spec.Validate; pipeline: Spec.Validate / ValidateJumpIf; httpserver: Spec.Validate,             *)
(* Path.Validate, Header.Validate).  A configuration that breaks one of them must be rejected.     *)
(* The predicate is deliberately one-sided: FALSE only means "no stated rule is known to apply".   *)
(***************************************************************************************************)
Has(c, n) == n \in DOMAIN c
MustReject(k, c) ==
  CASE k = "Proxy" ->
         \/ c.mainPools \in {"zero", "two", "absent"}                          \* one and only one main pool
         \/ c.servers \in {"none", "empty"}                                    \* both serviceName and servers empty
         \/ c.servers = "two" /\ c.weights = "some"                            \* not all servers have weight
         \/ c.mirror \in {"nofilter", "withcache", "noservers"}                \* mirror pool rules
         \/ c.candidate \in {"noHeaders", "emptyobj", "permil0", "headerHashNoKey", "emptyhdr", "urlNoMatch"}
    [] k = "RateLimiter" ->
         \/ c.urls = "undefRef"                                                \* policy '...' is not defined
         \/ c.urls \in {"noRef", "two"} /\ c.defaultRef # "p1" /\ c.policies \notin {"noName", "null"}  \* (a nameless policy is the "" reference)
         \/ c.urls \in {"one", "exact", "regex", "methods", "emptyTrue", "two"} /\ c.policies \in {"none", "absent"}
         \/ c.urls = "emptyMatch"                                              \* all patterns empty
    [] k \in {"RequestBuilder", "ResponseBuilder"} ->
         \/ c.template = "-" /\ c.sourceNamespace = "-"                        \* one of them must be specified
         \/ c.template # "-" /\ c.sourceNamespace # "-"                        \* ... but not both
         \/ c.protocol = "bogus"                                               \* unknown protocol
    [] k = "Pipeline" ->
         \/ c.filters \in {"dupName", "endName", "badKind"}
         \/ c.flow = "unknown" /\ c.filters \notin {"none", "absent", "null", "noName"}
         \/ c.flow \in {"all", "withEnd", "twice", "alias", "reversed"} /\ c.filters \in {"mock", "mock2", "fallback"}
               /\ c.jumpIf \in {"badResult", "undefTarget"}                    \* result / target must exist
         \/ c.flow = "all" /\ c.filters \in {"mock", "mock2", "fallback"} /\ c.jumpIf = "self"  \* jumps go forward only
         \/ c.resilience \in {"badKind", "noName"}
    [] k = "HTTPServer" ->
         \/ c.https \in {"nocert", "http3", "certNoKey", "garbageCert"}
         \/ c.rules \in {"one", "two"} /\ c.path = "rewriteNoPath"
         \/ c.rules \in {"one", "two"} /\ c.headers = "neither"
    [] OTHER -> FALSE
=============================================================================

--------------------------- MODULE ConfigSpace_Gen ---------------------------
(***************************************************************************************************)
(* Generator for C13: TLC as the combinatorial generator of the configuration grammar.             *)
(*                                                                                                 *)
(* A configuration of kind k is built field by field; a field may leave its base class only while  *)
(* fewer than MaxDev fields deviate.  The complete configurations (gi > NFields) are exactly        *)
(* {c \in Grammar(k) : Dev(k, c) <= MaxDev /\ PadSound(k, c) /\ PadPure(k, c)} - GenSound states it -   *)
(* and each is exported through                                                                    *)
(* `out` (JSON).  With `-dump` the enumeration is exhaustive (MaxDev = number of fields: the whole  *)
(* grammar); with `-simulate` every behaviour is one random member of the grammar (a random walk   *)
(* over the field choices, seeded by VERIF_SEED; "Keep" halves the probability of leaving the base *)
(* so that deep random configurations keep a fair chance of being accepted).                       *)
(***************************************************************************************************)
EXTENDS ConfigSpaceGrammar, Json, TLC

CONSTANTS Kinds,     \* the kinds to enumerate
          MaxDev,    \* Hamming radius around the base configuration
          Biased     \* TRUE for -simulate: an extra coin "keep the base" per field

VARIABLES gk,    \* kind being built
          gc,    \* classes chosen so far: sequence over the first gi-1 fields
          gi,    \* next field to choose
          gd,    \* number of deviations from the base so far
          coin,  \* (Biased only) "?" before the coin of field gi is thrown, "vary" after it said so
          out    \* JSON of the complete configuration ("" while incomplete)

gvars == <<gk, gc, gi, gd, coin, out>>

AsCfg(k, seq) == [n \in FieldNames(k) |-> seq[FieldOf(k, n)]]

GInit == /\ gk \in Kinds
         /\ gc = <<>> /\ gi = 1 /\ gd = 0 /\ out = "" /\ coin = "?"

\* The pad field comes last: its classes are offered only when the classes chosen so far write a value of the
\* format (PadSound), and padding the value of a field that is off its base already is the same deviation
\* (ConfigSpaceGrammar!Dev).
IsPad   == Fields(gk)[gi].n = "pad"
PFmt(j) == PadFmtOf(Fields(gk)[gi].d[j])
CarAt(j, i) == Carriers(gk, PFmt(j), Fields(gk)[i].n, gc[i])
Eff(j)  == PFmt(j) \in AlwaysFmt(gk) \/ \E i \in 1..Len(gc) : CarAt(j, i)
Free(j) == \E i \in 1..Len(gc) : gc[i] # Fields(gk)[i].d[1] /\ CarAt(j, i)
Pure(j) == \A i \in 1..Len(gc) : gc[i] = Fields(gk)[i].d[1] \/ CarAt(j, i)
Cost(j) == IF j = 1 THEN 0 ELSE IF IsPad THEN (IF Free(j) THEN 0 ELSE 1) ELSE 1
Allowed(j) == IF j = 1 THEN TRUE
              ELSE IF IsPad THEN (IF Eff(j) /\ Pure(j) /\ gd + Cost(j) <= MaxDev THEN TRUE ELSE FALSE)
              ELSE gd < MaxDev

Pick(j) ==
    /\ gc' = Append(gc, Fields(gk)[gi].d[j])
    /\ gd' = gd + Cost(j)
    /\ gi' = gi + 1
    /\ coin' = "?"
    /\ out' = IF gi' > NFields(gk)
                 THEN ToJson([kind |-> gk, cfg |-> AsCfg(gk, gc'),
                              fmts |-> {f \in Formats : Carries(gk, AsCfg(gk, gc'), f)}])    \* what the carrier table says
                 ELSE ""
    /\ UNCHANGED gk

\* exhaustive mode: any class, within the radius
Choose ==
    /\ ~Biased
    /\ gi <= NFields(gk)
    /\ \E j \in 1..Len(Fields(gk)[gi].d) : Allowed(j) /\ Pick(j)

\* random mode: coin first (keep the base / vary), then a uniformly chosen non-base class
Coin ==
    /\ Biased /\ gi <= NFields(gk) /\ coin = "?"
    /\ \/ Pick(1)
       \/ /\ \E j \in 2..Len(Fields(gk)[gi].d) : Allowed(j)
          /\ coin' = "vary" /\ UNCHANGED <<gk, gc, gi, gd, out>>
Vary ==
    /\ Biased /\ gi <= NFields(gk) /\ coin = "vary"
    /\ \E j \in 2..Len(Fields(gk)[gi].d) : Allowed(j) /\ Pick(j)

GNext == Choose \/ Coin \/ Vary
GSpec == GInit /\ [][GNext]_gvars

GenSound == gi > NFields(gk) =>
               /\ InGrammar(gk, AsCfg(gk, gc))
               /\ Dev(gk, AsCfg(gk, gc)) = gd
               /\ PadSound(gk, AsCfg(gk, gc)) /\ PadPure(gk, AsCfg(gk, gc))
               /\ gd <= MaxDev
=============================================================================

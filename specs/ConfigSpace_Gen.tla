--------------------------- MODULE ConfigSpace_Gen ---------------------------
(***************************************************************************************************)
(* Generator for C13: TLC as the combinatorial generator of the configuration grammar.             *)
(*                                                                                                 *)
(* A configuration of kind k is built field by field; a field may leave its base class only while  *)
(* fewer than MaxDev fields deviate.  The complete configurations (gi > NFields) are exactly        *)
(* {c \in Grammar(k) : Dev(k, c) <= MaxDev} - GenSound states it - and each is exported through     *)
(* `out` (JSON).  With `-dump` the enumeration is exhaustive (MaxDev = number of fields: the whole  *)
(* grammar); with `-simulate` every behaviour is one random member of the grammar (a random walk   *)
(* over the field choices, seeded by VERIF_SEED; "Keep" halves the probability of leaving the base *)
(* so that deep random configurations keep a fair chance of being accepted).                       *)
(***************************************************************************************************)
EXTENDS ConfigSpaceGrammar, Json, TLC

CONSTANTS Kinds,     \* the kinds to enumerate
          MaxDev,    \* Hamming radius around the base configuration
          Biased     \* TRUE for -simulate: an extra coin "keep the base" per field

VARIABLES gk,    \* kind being built
          gc,    \* classes chosen so far: sequence over the first gi-1 fields
          gi,    \* next field to choose
          gd,    \* number of deviations from the base so far
          coin,  \* (Biased only) "?" before the coin of field gi is thrown, "vary" after it said so
          out    \* JSON of the complete configuration ("" while incomplete)

gvars == <<gk, gc, gi, gd, coin, out>>

AsCfg(k, seq) == [n \in FieldNames(k) |-> seq[FieldOf(k, n)]]

GInit == /\ gk \in Kinds
         /\ gc = <<>> /\ gi = 1 /\ gd = 0 /\ out = "" /\ coin = "?"

Pick(j) ==
    /\ gc' = Append(gc, Fields(gk)[gi].d[j])
    /\ gd' = IF j = 1 THEN gd ELSE gd + 1
    /\ gi' = gi + 1
    /\ coin' = "?"
    /\ out' = IF gi' > NFields(gk) THEN ToJson([kind |-> gk, cfg |-> AsCfg(gk, gc')]) ELSE ""
    /\ UNCHANGED gk

\* exhaustive mode: any class, within the radius
Choose ==
    /\ ~Biased
    /\ gi <= NFields(gk)
    /\ \E j \in 1..Len(Fields(gk)[gi].d) : (j = 1 \/ gd < MaxDev) /\ Pick(j)

\* random mode: coin first (keep the base / vary), then a uniformly chosen non-base class
Coin ==
    /\ Biased /\ gi <= NFields(gk) /\ coin = "?"
    /\ \/ Pick(1)
       \/ /\ gd < MaxDev /\ Len(Fields(gk)[gi].d) > 1
          /\ coin' = "vary" /\ UNCHANGED <<gk, gc, gi, gd, out>>
Vary ==
    /\ Biased /\ gi <= NFields(gk) /\ coin = "vary"
    /\ \E j \in 2..Len(Fields(gk)[gi].d) : Pick(j)

GNext == Choose \/ Coin \/ Vary
GSpec == GInit /\ [][GNext]_gvars

GenSound == gi > NFields(gk) =>
               /\ InGrammar(gk, AsCfg(gk, gc))
               /\ Dev(gk, AsCfg(gk, gc)) = gd
               /\ gd <= MaxDev
=============================================================================

--------------------------- MODULE ConfigSpace_MC ---------------------------
(***************************************************************************************************)
(* Model checking of the C13 life-cycle automaton (ConfigSpace) over the base configuration and    *)
(* every one-field deviation of the chosen kinds:                                                  *)
(*   MSpec - the contract: no call panics, the stated validation rules are enforced.               *)
(*           NoPanicAfterAccept, RuleRejected and the protocol properties are theorems of it.      *)
(*   WSpec - the world: any call may panic, validation may be lax.  The protocol properties still  *)
(*           hold; NoPanicAfterAccept does NOT - a panic after acceptance is reachable at every    *)
(*           call (AllPanicsSeen), i.e. the invariant the recorded traces are checked against is   *)
(*           not vacuous.                                                                          *)
(***************************************************************************************************)
EXTENDS ConfigSpace, TLC

CONSTANTS Kinds

OneOff(k) == UNION {{[Base(k) EXCEPT ![Fields(k)[i].n] = Fields(k)[i].d[j]] : j \in 1..Len(Fields(k)[i].d)} : i \in 1..NFields(k)}

MInit == /\ kind \in Kinds
         /\ cfg \in OneOff(kind)
         /\ phase = "new" /\ verdict = "none" /\ panicked = FALSE /\ pcall = "-" /\ nh = 0

MSpec == MInit /\ [][Next]_vars
WSpec == MInit /\ [][WNext]_vars

\* "Panic reachable from every call": register 2 accumulates the calls at which a panic was seen on an
\* accepted configuration (evaluated as a state constraint that is always TRUE; -workers 1)
ASSUME TLCSet(2, {})
SeePanics == IF verdict = "accepted" /\ pcall # "-" THEN TLCSet(2, TLCGet(2) \cup {pcall}) ELSE TRUE
AllPanicsSeen == /\ PrintT(<<"VERIF_PANICS", TLCGet(2)>>)
                 /\ TLCGet(2) = Calls \ {"validate"}
=============================================================================

-------------------------- MODULE ConfigSpace_Trace --------------------------
(***************************************************************************************************)
(* Trace validation for C13.  The Go harness drives every generated configuration through the real *)
(* validation and, if accepted, through the real object's life-cycle, logging every call:          *)
(*    {"ev":"reset","kind":K,"cfg":{...}}            a new configuration                           *)
(*    {"ev":"validate","acc":b,"ok":b}  {"ev":"create","ok":b}  {"ev":"init","ok":b}               *)
(*    {"ev":"handle","q":class,"ok":b}  {"ev":"inherit","ok":b}  {"ev":"close","ok":b}             *)
(* ("ok" = the call returned; FALSE = it panicked, in the calling goroutine or - "crash" - in one   *)
(* of the object's own goroutines).  Every event must be a step of the life-cycle automaton in the *)
(* world where calls may panic (ConfigSpace!WNext), with the observed outcome.  The property is    *)
(* the invariant NoPanicAfterAccept (and RuleRejected) evaluated on every observed state.          *)
(*                                                                                                 *)
(* Two configurations of the cfg file select what happens at a violating state:                    *)
(*   strict : INVARIANT NoPanicAfterAccept RuleRejected - TLC stops at the first violation;        *)
(*   collect: the same predicates are evaluated by Observe (a CONSTRAINT that is always TRUE) and  *)
(*            the ids of the violating configurations are accumulated in TLC registers 2 and 3,    *)
(*            printed by the POSTCONDITION - one pass lists every violating configuration.         *)
(*            Register 4 accumulates the (kind, request class) pairs that were handled: the        *)
(*            POSTCONDITION prints them next to the pairs ConfigSpaceGrammar!Reqs demands of the    *)
(*            kinds that served anything, so that the driver can tell when the harness sends fewer  *)
(*            request classes than the specification lists ("any request" would be vacuous).        *)
(***************************************************************************************************)
EXTENDS ConfigSpace, Json, TLC, IOUtils

TLog == ndJsonDeserialize(IOEnv.VERIF_TRACE)

VARIABLES l,     \* next trace line
          cid    \* id of the configuration being driven

tvars == <<vars, l, cid>>

IsEvent(e) == l <= Len(TLog) /\ TLog[l].ev = e /\ l' = l + 1

TReset ==
    /\ IsEvent("reset")
    /\ kind' = TLog[l].kind /\ cfg' = TLog[l].cfg /\ cid' = TLog[l].c
    /\ InGrammar(TLog[l].kind, TLog[l].cfg)          \* the harness drove a member of the grammar
    /\ PadSound(TLog[l].kind, TLog[l].cfg)
    /\ phase' = "new" /\ verdict' = "none" /\ panicked' = FALSE /\ pcall' = "-" /\ nh' = 0

Pan == ~TLog[l].ok

TValidate == IsEvent("validate") /\ Validate(TLog[l].acc, Pan, TRUE) /\ UNCHANGED cid
TCreate   == IsEvent("create")   /\ Create(Pan)   /\ UNCHANGED cid
TInit     == IsEvent("init")     /\ Init(Pan)     /\ UNCHANGED cid
THandle   == IsEvent("handle")   /\ Handle(TLog[l].q, Pan) /\ UNCHANGED cid
TInherit  == IsEvent("inherit")  /\ Inherit(Pan)  /\ UNCHANGED cid
TClose    == IsEvent("close")    /\ Close(Pan)    /\ UNCHANGED cid

TNext == TReset \/ TValidate \/ TCreate \/ TInit \/ THandle \/ TInherit \/ TClose

TInit0 == /\ l = 1 /\ cid = 0
          /\ kind = "Mock" /\ cfg = <<>> /\ phase = "new" /\ verdict = "none" /\ panicked = FALSE /\ pcall = "-" /\ nh = 0

TSpec == TInit0 /\ [][TNext]_tvars

ASSUME TLCSet(1, 0) /\ TLCSet(2, {}) /\ TLCSet(3, {}) /\ TLCSet(4, {})
HWM == TLCSet(1, IF l - 1 > TLCGet(1) THEN l - 1 ELSE TLCGet(1))
Observe == /\ (NoPanicAfterAccept \/ TLCSet(2, TLCGet(2) \cup {cid}))
           /\ (RuleRejected \/ TLCSet(3, TLCGet(3) \cup {cid}))
           /\ IF l > 1 /\ TLog[l - 1].ev = "handle"
                 THEN TLCSet(4, TLCGet(4) \cup {<<kind, TLog[l - 1].q>>}) ELSE TRUE
ReqNeed == {p \in {k \in AllKinds : \E s \in TLCGet(4) : s[1] = k} \X AllReqs : p[2] \in Reqs(p[1])}
Accepted == /\ PrintT(<<"VERIF_HWM", TLCGet(1), Len(TLog)>>)
            /\ PrintT(<<"VERIF_PANICKED", TLCGet(2)>>)
            /\ PrintT(<<"VERIF_RULEBROKEN", TLCGet(3)>>)
            /\ PrintT(<<"VERIF_REQSEEN", TLCGet(4)>>)
            /\ PrintT(<<"VERIF_REQNEED", ReqNeed>>)
            /\ TLCGet(1) = Len(TLog)
=============================================================================

------------------------------- MODULE ConnCap -------------------------------
(* C17, implementation-shaped layer (HTTP half): the connection cap of an HTTPServer as the     *)
(* code builds it, one action per critical section / linearisation point:                       *)
(*                                                                                              *)
(*   golang.org/x/sync/semaphore.Weighted   size, cur, FIFO list of waiters; Acquire succeeds    *)
(*        immediately only if `size-cur >= n` AND nobody is queued; Release subtracts and wakes  *)
(*        waiters from the front while they fit (notifyWaiters); a cancelled waiter is removed   *)
(*        and, if it was the front one and tokens are left, the rest is notified.                *)
(*   pkg/util/sem.Semaphore                 a Weighted of size maxCapacity, pre-acquired down to *)
(*        realCapacity.  SetMaxCount(n) = synchronous part (swap realCapacity under s.lock)      *)
(*        + a goroutine ("tuner") that does Release(n-old) or Acquire(old-n) and then closes     *)
(*        `done`.  Ordered = FALSE: nothing orders the tuners of successive calls (the code as   *)
(*        pinned); Ordered = TRUE: each tuner first waits for the `done` of the previous call    *)
(*        (the repaired code: s.lastDone).  A call with n = realCapacity is an ordinary call.    *)
(*   pkg/util/limitlistener.LimitListener   Accept = acquire one slot, then Accept on the inner  *)
(*        listener (slot given back on error / after the listener was closed);                   *)
(*        limitListenerConn.Close releases exactly once (sync.Once) - also when two Close calls   *)
(*        on the same connection overlap (net/http closes a connection from several goroutines:  *)
(*        the serving goroutine, Shutdown / closeIdleConns, a hijacker): both are inside the      *)
(*        close of the underlying connection, the first to come out releases, the other does not  *)
(*        (CloseBoth / CloseFirstOut / CloseSecondOut).                                           *)
(*   pkg/object/httpserver.runtime          reload -> SetMaxConnection(spec.MaxConnections);     *)
(*        net/http's Serve loop is the (single) acceptor.  A reload that changes a restart-       *)
(*        relevant option (port, keepAliveTimeout, ...) shuts the server down and starts a new    *)
(*        one: a NEW LimitListener with the cap of the new spec (Restart); run-time changes made   *)
(*        before the restart have no bearing on it, run-time changes made after it apply to it.   *)
(*                                                                                              *)
(* A connection whose peer has finished its stream (EOF / half-close) stays open, and keeps its   *)
(* slot, until its handler calls Close (PeerEOF / CloseConn).                                     *)
(*                                                                                              *)
(* `Size` stands for maxCapacity (20 000 000): any value well above every reachable effective    *)
(* cap behaves the same; with Size = the largest cap (maxConnections >= maxCapacity) unordered    *)
(* tuners can also drive `cur` below zero, where x/sync panics (NoReleasePanic).                  *)
(* `Ordered = TRUE` models the proposed repair (fixes/c17-sem-ordered-resize.diff): the tuner of *)
(* a call waits for the tuner of the previous call.                                              *)
(*                                                                                              *)
(* The contract (ConnCapContract) is instantiated below under the refinement mapping            *)
(*   applied = {i : tuner i has closed its done channel}, dropped = 0, starved = FALSE,          *)
(* and its clauses are checked as invariants / action properties of this layer, next to the      *)
(* implementation invariants Conserved and ReusableWhenSettled.                                  *)
EXTENDS Integers, Sequences, FiniteSets

CONSTANTS Size,        \* size of the weighted semaphore (maxCapacity)
          Caps,        \* values SetMaxCount is called with
          InitCaps,    \* values the listener is created with
          MaxResize,   \* number of SetMaxCount calls
          MaxDial,     \* number of clients that ever dial
          MaxErr,      \* number of errors injected into the inner listener's Accept
          MaxDbl,      \* number of connections that are closed by two overlapping Close calls
          MaxRestart,  \* number of restarting reloads (a new listener replaces the old one)
          Ordered      \* FALSE: the pinned code.  TRUE: tuners run in request order (repair)

(* Caps may contain values at and ABOVE Size: maxConnections is a uint32, maxCapacity is 20 000 000. *)
(* SetMaxCount clamps: the effective cap of a request n is Clamp(n) = min(n, Size), in the          *)
(* bookkeeping (realCapacity) as well as in the token transfer - the next call computes its          *)
(* adjustment from the clamped value.  The boundary configurations use Caps = small values \cup     *)
(* {Size-1, Size, Size+1, far above} with Size - 1 - (largest small value) > MaxDial + 1, so that     *)
(* every comparison the weighted semaphore makes comes out as with the real maxCapacity.             *)
(* The same holds for the value a listener is created with (NewSem): its effective cap is          *)
(* Clamp(initCap).                                                                                   *)
ASSUME \A c \in Caps \cup InitCaps : c >= 0

Clamp(n) == IF n > Size THEN Size ELSE n

VARIABLES cur, waiters,        \* Weighted: tokens taken; FIFO of [n |-> weight, who |-> 0 (acceptor) | i (tuner i)]
          realCap,             \* Semaphore.realCapacity
          initCap,
          req,                 \* caps requested so far (req[i] = argument of the i-th SetMaxCount)
          tst,                 \* tuner i: "none" | "spawned" | "waiting" | "adjusted" | "done" | "doomed" (x/sync: an
                               \* Acquire of more than Size is not even queued, it waits for its context to end)
          td,                  \* tuner i: n - old, computed in the synchronous part
          acc,                 \* acceptor: "idle" | "waiting" | "have" | "stopped"
          lclosed,             \* LimitListener.Close was called
          backlog,             \* clients that dialled and sit in the inner listener's queue
          open,                \* accepted connections not closed yet (each holds one token)
          eof,                 \* how many of them have seen the peer finish (EOF / half-close) but are still
                               \* held open by their handler: they keep their slot until Close is called
          c2,                  \* connections with two Close calls inside the close of the underlying
                               \* connection, slot not given back yet
          cr,                  \* connections whose slot was given back by the first of two overlapping Close
                               \* calls while the second call is still in progress
          dialed, errs,        \* bounds
          dbl, restarts,       \* bounds
          last                 \* description of the step just taken (observation; not in VIEW)

vars == <<cur, waiters, realCap, initCap, req, tst, td, acc, lclosed, backlog, open, eof, c2, cr, dialed, errs, dbl, restarts, last>>
view == <<cur, waiters, realCap, initCap, req, tst, td, acc, lclosed, backlog, open, eof, c2, cr, dialed, errs, dbl, restarts>>

Tuners == 1..MaxResize

xv == <<c2, cr, dbl, restarts>>     \* overlapping-close / restart state, untouched by most actions

(* ---------------- contract, under the refinement mapping ---------------- *)
(* the effective cap of a request is Clamp(requested); a change is stalled when it is not applied    *)
(* although nothing is open, nobody holds a slot and every background adjustment has run as far as  *)
(* it can (Wedged)                                                                                  *)
Quiet == open = 0 /\ c2 = 0 /\ acc # "have" /\ \A i \in 1..MaxResize : tst[i] \notin {"spawned", "adjusted"}
Wedged == Quiet /\ \E i \in 1..MaxResize : tst[i] \in {"waiting", "doomed"}
C == INSTANCE ConnCapContract WITH applied <- {i \in 1..Len(req) : tst[i] = "done"},
                                   req <- [i \in 1..Len(req) |-> Clamp(req[i])], initCap <- Clamp(initCap),
                                   dropped <- 0, starved <- FALSE, stalled <- Wedged

(* ---------------- x/sync/semaphore ---------------- *)
CanTake(n) == Size - cur >= n /\ waiters = <<>>

(* notifyWaiters: wake from the front while the front waiter fits *)
RECURSIVE Notify(_, _)
Notify(c, w) ==
    IF w = <<>> \/ Size - c < Head(w).n THEN [cur |-> c, w |-> w, woke |-> {}]
    ELSE LET r == Notify(c + Head(w).n, Tail(w)) IN [cur |-> r.cur, w |-> r.w, woke |-> r.woke \cup {Head(w).who}]

(* effect of waking: the acceptor now holds its slot, a woken tuner has finished its Acquire *)
AccAfter(r) == IF 0 \in r.woke THEN "have" ELSE acc
TstAfter(r, f) == [i \in Tuners |-> IF i \in r.woke THEN "adjusted" ELSE f[i]]

(* Weighted.Release(k) by somebody who is neither the acceptor nor a tuner *)
Release(k) ==
    LET r == Notify(cur - k, waiters) IN
    /\ cur' = r.cur /\ waiters' = r.w /\ acc' = AccAfter(r) /\ tst' = TstAfter(r, tst)

Init ==
    /\ initCap \in InitCaps
    /\ cur = Size - Clamp(initCap) /\ waiters = <<>>   \* NewSem: Acquire(maxCapacity - min(n, maxCapacity))
    /\ realCap = Clamp(initCap) /\ req = <<>>
    /\ tst = [i \in Tuners |-> "none"] /\ td = [i \in Tuners |-> 0]
    /\ acc = "idle" /\ lclosed = FALSE /\ backlog = 0 /\ open = 0 /\ eof = 0 /\ dialed = 0 /\ errs = 0
    /\ c2 = 0 /\ cr = 0 /\ dbl = 0 /\ restarts = 0
    /\ last = [a |-> "init", cap |-> initCap]

(* ---------------- clients ---------------- *)
Dial ==
    /\ dialed < MaxDial /\ ~lclosed
    /\ backlog' = backlog + 1 /\ dialed' = dialed + 1
    /\ last' = [a |-> "dial"]
    /\ UNCHANGED <<cur, waiters, realCap, initCap, req, tst, td, acc, lclosed, open, eof, errs, xv>>

(* the peer finishes its stream (hangs up / half-closes): the handler's Read returns EOF, but the *)
(* connection stays open - and keeps its slot - until the handler calls Close                    *)
PeerEOF ==
    /\ eof < open
    /\ eof' = eof + 1
    /\ last' = [a |-> "eof"]
    /\ UNCHANGED <<cur, waiters, realCap, initCap, req, tst, td, acc, lclosed, backlog, open, dialed, errs, xv>>

(* limitListenerConn.Close (first call): closes the connection, releaseOnce.Do(release); either a *)
(* connection whose peer is still there or one that has seen EOF                                 *)
CloseConn ==
    /\ open > 0
    /\ Release(1)
    /\ open' = open - 1
    /\ \E lingering \in BOOLEAN :
         /\ IF lingering THEN eof > 0 ELSE open > eof
         /\ eof' = IF lingering THEN eof - 1 ELSE eof
         /\ last' = [a |-> "close", eof |-> lingering]
    /\ UNCHANGED <<realCap, initCap, req, td, lclosed, backlog, dialed, errs, xv>>

(* Two overlapping Close calls on one connection (e.g. net/http's serving goroutine and Shutdown): *)
(* both have entered limitListenerConn.Close and are inside the close of the underlying connection *)
(* (which may take a while: linger, a blocked descriptor, a wrapped connection).  The connection is  *)
(* over for the client from here on (the contract's `open` goes down); its slot is still taken.      *)
CloseBoth ==
    /\ open > 0 /\ dbl < MaxDbl
    /\ open' = open - 1 /\ c2' = c2 + 1 /\ dbl' = dbl + 1
    /\ \E lingering \in BOOLEAN :
         /\ IF lingering THEN eof > 0 ELSE open > eof
         /\ eof' = IF lingering THEN eof - 1 ELSE eof
         /\ last' = [a |-> "close2", eof |-> lingering]
    /\ UNCHANGED <<cur, waiters, realCap, initCap, req, tst, td, acc, lclosed, backlog, dialed, errs, cr, restarts>>

(* the first of the two comes out of the underlying close: releaseOnce.Do(release) gives the slot back *)
CloseFirstOut ==
    /\ c2 > 0
    /\ Release(1)
    /\ c2' = c2 - 1 /\ cr' = cr + 1
    /\ last' = [a |-> "crel"]
    /\ UNCHANGED <<realCap, initCap, req, td, lclosed, backlog, open, eof, dialed, errs, dbl, restarts>>

(* the second one comes out: the Once has fired, nothing is released *)
CloseSecondOut ==
    /\ cr > 0
    /\ cr' = cr - 1
    /\ last' = [a |-> "cnop"]
    /\ UNCHANGED <<cur, waiters, realCap, initCap, req, tst, td, acc, lclosed, backlog, open, eof, dialed, errs, c2, dbl, restarts>>

(* ---------------- acceptor: LimitListener.Accept ---------------- *)
(* l.acquire(): Weighted.Acquire(ctx, 1): fast path or queue at the tail *)
AccAcquire ==
    /\ acc = "idle" /\ ~lclosed
    /\ IF CanTake(1)
       THEN cur' = cur + 1 /\ acc' = "have" /\ UNCHANGED waiters
       ELSE waiters' = Append(waiters, [n |-> 1, who |-> 0]) /\ acc' = "waiting" /\ UNCHANGED cur
    /\ last' = [a |-> "acq", blocks |-> ~CanTake(1)]
    /\ UNCHANGED <<realCap, initCap, req, tst, td, lclosed, backlog, open, eof, dialed, errs, xv>>

(* inner Accept returns a connection: it is wrapped and handed to the server *)
AccAccept ==
    /\ acc = "have" /\ backlog > 0 /\ ~lclosed
    /\ acc' = "idle" /\ backlog' = backlog - 1 /\ open' = open + 1
    /\ last' = [a |-> "accept", open |-> open, ok |-> open < C!MaxOf(C!CapsInEffect)]
    /\ UNCHANGED <<cur, waiters, realCap, initCap, req, tst, td, lclosed, eof, dialed, errs, xv>>

(* inner Accept fails (e.g. EMFILE): the slot is given back *)
AccError ==
    /\ acc = "have" /\ errs < MaxErr /\ ~lclosed
    /\ LET r == Notify(cur - 1, waiters) IN
         /\ cur' = r.cur /\ waiters' = r.w /\ tst' = TstAfter(r, tst)
         /\ acc' = "idle"                               \* the acceptor itself cannot be queued here
    /\ errs' = errs + 1
    /\ last' = [a |-> "err"]
    /\ UNCHANGED <<realCap, initCap, req, td, lclosed, backlog, open, eof, dialed, xv>>

(* LimitListener.Close: inner listener closed, context cancelled *)
LClose ==
    /\ ~lclosed /\ lclosed' = TRUE
    /\ acc' = IF acc = "idle" THEN "stopped" ELSE acc   \* an Accept that starts now fails without a net effect
    /\ last' = [a |-> "lclose"]
    /\ UNCHANGED <<cur, waiters, realCap, initCap, req, tst, td, backlog, open, eof, dialed, errs, xv>>

(* the queued Acquire sees ctx.Done: removes itself; if it was the front waiter and tokens are *)
(* left the others are notified                                                                *)
AccCancel ==
    /\ lclosed /\ acc = "waiting"
    /\ LET idx == CHOOSE k \in 1..Len(waiters) : waiters[k].who = 0
           rest == [k \in 1..(Len(waiters) - 1) |-> IF k < idx THEN waiters[k] ELSE waiters[k + 1]]
           r == IF idx = 1 /\ Size > cur THEN Notify(cur, rest) ELSE [cur |-> cur, w |-> rest, woke |-> {}]
       IN /\ cur' = r.cur /\ waiters' = r.w /\ tst' = TstAfter(r, tst)
    /\ acc' = "stopped"
    /\ last' = [a |-> "acancel"]
    /\ UNCHANGED <<realCap, initCap, req, td, lclosed, backlog, open, eof, dialed, errs, xv>>

(* the acceptor holds a slot when the listener is closed: ctx.Err() / inner Accept error -> release *)
AccAbort ==
    /\ lclosed /\ acc = "have"
    /\ LET r == Notify(cur - 1, waiters) IN
         /\ cur' = r.cur /\ waiters' = r.w /\ tst' = TstAfter(r, tst)
    /\ acc' = "stopped"
    /\ last' = [a |-> "aabort"]
    /\ UNCHANGED <<realCap, initCap, req, td, lclosed, backlog, open, eof, dialed, errs, xv>>

(* ---------------- Semaphore.SetMaxCount ---------------- *)
(* synchronous part: old := realCapacity; realCapacity = n (under s.lock); go tuner.             *)
(* n is ANY value: larger (grow), smaller but not below the usage (shrink that completes at       *)
(* once), smaller than the usage (shrink that blocks until connections close) or EQUAL to the     *)
(* current value - runtime.reload calls SetMaxConnection on every reload of the server, whatever  *)
(* changed in its spec, so a resize to the value already configured is the common case.  Such a   *)
(* call has nothing to adjust (td = 0) but it is a call like any other: it takes its place in     *)
(* the request order (Ordered: its tuner waits for the previous one, the next one waits for it)   *)
(* and counts as applied only when its own `done` closes.                                         *)
(* The step record says what kind of call it is (d = n - old; `usage` = slots held by open         *)
(* connections and by the acceptor; `pend` = earlier calls not completed yet) so that the          *)
(* generators can cover every kind of call behind every kind of pending call.                      *)
(* A value above maxCapacity is clamped first (`c`): realCapacity and the adjustment are computed    *)
(* from the clamped value, so the call after it starts from what the semaphore really has.           *)
SetMax(n) ==
    /\ Len(req) < MaxResize
    /\ LET i == Len(req) + 1
           c == Clamp(n) IN
         /\ req' = Append(req, n)
         /\ td' = [td EXCEPT ![i] = c - realCap]
         /\ tst' = [tst EXCEPT ![i] = "spawned"]
         /\ last' = [a |-> "setmax", i |-> i, n |-> n, c |-> c, d |-> c - realCap,
                     usage |-> open + (IF acc = "have" THEN 1 ELSE 0),
                     pend |-> Cardinality({j \in 1..Len(req) : tst[j] # "done"})]
         /\ realCap' = c
    /\ UNCHANGED <<cur, waiters, initCap, acc, lclosed, backlog, open, eof, dialed, errs, xv>>

(* the goroutine: Release(n-old) / Acquire(old-n) on the Weighted *)
TunerRun(i) ==
    /\ tst[i] = "spawned"
    /\ Ordered => (IF i = 1 THEN TRUE ELSE tst[i - 1] = "done")
    /\ IF td[i] > 0 THEN
          LET r == Notify(cur - td[i], waiters) IN
          /\ cur' = r.cur /\ waiters' = r.w /\ acc' = AccAfter(r)
          /\ tst' = [TstAfter(r, tst) EXCEPT ![i] = "adjusted"]
          /\ last' = [a |-> "tuner", i |-> i, d |-> td[i], blocks |-> FALSE]
       ELSE IF -td[i] > Size THEN
          \* x/sync: "don't make other Acquire calls block on one that's doomed to fail": not queued, never returns
          /\ tst' = [tst EXCEPT ![i] = "doomed"]
          /\ last' = [a |-> "tuner", i |-> i, d |-> td[i], blocks |-> TRUE]
          /\ UNCHANGED <<cur, waiters, acc>>
       ELSE IF td[i] = 0 \/ CanTake(-td[i]) THEN
          /\ cur' = cur - td[i] /\ tst' = [tst EXCEPT ![i] = "adjusted"]
          /\ last' = [a |-> "tuner", i |-> i, d |-> td[i], blocks |-> FALSE]
          /\ UNCHANGED <<waiters, acc>>
       ELSE
          /\ waiters' = Append(waiters, [n |-> -td[i], who |-> i]) /\ tst' = [tst EXCEPT ![i] = "waiting"]
          /\ last' = [a |-> "tuner", i |-> i, d |-> td[i], blocks |-> TRUE]
          /\ UNCHANGED <<cur, acc>>
    /\ UNCHANGED <<realCap, initCap, req, td, lclosed, backlog, open, eof, dialed, errs, xv>>

(* close(done): from now on the change counts as applied *)
TunerDone(i) ==
    /\ tst[i] = "adjusted"
    /\ tst' = [tst EXCEPT ![i] = "done"]
    /\ last' = [a |-> "tdone", i |-> i]
    /\ UNCHANGED <<cur, waiters, realCap, initCap, req, td, acc, lclosed, backlog, open, eof, dialed, errs, xv>>

(* ---------------- runtime.reload with a restart-relevant change ---------------- *)
(* SetMaxConnection(n) on the old listener (of no consequence any more), closeServer (Shutdown: the *)
(* listener is closed, the Serve loop ends, idle connections are closed, active ones are waited     *)
(* for), startServer: a new Weighted pre-acquired down to n, a new Serve loop.  The model restarts  *)
(* only once every connection of the old server has ended (the harness hangs up first); clients     *)
(* still queued on the old listener are lost.  The cap history starts afresh: the cap of the new    *)
(* listener is n whatever was requested at run time before, and later run-time changes act on it.   *)
Restart(n) ==
    /\ restarts < MaxRestart
    /\ open = 0 /\ c2 = 0 /\ cr = 0
    /\ restarts' = restarts + 1
    /\ initCap' = n /\ realCap' = Clamp(n) /\ cur' = Size - Clamp(n) /\ waiters' = <<>>
    /\ req' = <<>> /\ tst' = [i \in Tuners |-> "none"] /\ td' = [i \in Tuners |-> 0]
    /\ acc' = "idle" /\ lclosed' = FALSE /\ backlog' = 0
    /\ last' = [a |-> "restart", n |-> n, d |-> n - realCap, rt |-> Len(req)]
    /\ UNCHANGED <<open, eof, c2, cr, dialed, errs, dbl>>

Next ==
    \/ Dial \/ PeerEOF \/ CloseConn \/ CloseBoth \/ CloseFirstOut \/ CloseSecondOut \/ AccAcquire \/ AccAccept \/ AccError \/ LClose \/ AccCancel \/ AccAbort
    \/ \E n \in Caps : SetMax(n) \/ Restart(n)
    \/ \E i \in Tuners : TunerRun(i) \/ TunerDone(i)

Spec == Init /\ [][Next]_vars

(* ---------------- properties ---------------- *)
TypeOK ==
    /\ cur \in 0..Size /\ realCap \in 0..Size /\ open \in 0..MaxDial /\ backlog \in 0..MaxDial /\ eof \in 0..open
    /\ c2 \in 0..MaxDbl /\ cr \in 0..MaxDbl /\ dbl \in 0..MaxDbl /\ restarts \in 0..MaxRestart
    /\ acc \in {"idle", "waiting", "have", "stopped"}
    /\ \A i \in Tuners : tst[i] \in {"none", "spawned", "waiting", "adjusted", "done", "doomed"}
    /\ (acc = "waiting") = (\E k \in 1..Len(waiters) : waiters[k].who = 0)
    /\ \A i \in Tuners : (tst[i] = "waiting") = (\E k \in 1..Len(waiters) : waiters[k].who = i)

(* x/sync panics ("semaphore: released more than held") when a Release drives cur below zero.    *)
(* Part of TypeOK; separate so that the small-Size configuration (caps up to maxCapacity) can     *)
(* name it.                                                                                       *)
NoReleasePanic == cur >= 0

Held == IF acc = "have" THEN 1 ELSE 0
AllDone == \A i \in 1..Len(req) : tst[i] = "done"

(* contract clauses (ConnCapContract) on this layer *)
NoAcceptAboveCap == C!NoAcceptAboveCap
CapHoldsWhileUnchanged == C!CapHoldsWhileUnchanged
NeverAboveEveryCap == C!NeverAboveEveryCap
NoDrop == [][open' < open => last'.a \in {"close", "close2"}]_vars       \* only a client's / handler's close ends a connection
RefinesContract == C!CSpec({Clamp(c) : c \in Caps \cup InitCaps})
(* every change is applied: no background adjustment asks the semaphore for more than it has in     *)
(* total, and with nothing open and nobody running no adjustment is left waiting - whatever values,  *)
(* also at and above maxCapacity, were requested in whatever order                                    *)
ChangesApplied == C!ChangesApplied
NoDoomedResize == \A i \in Tuners : tst[i] # "doomed"
EffectiveCapClamped == realCap <= Size

(* implementation invariants: once every adjustment has completed the free tokens are exactly   *)
(* the unused part of the configured cap (so nothing leaks and nothing is created) ...           *)
(* (a connection two overlapping Close calls are busy with still holds its slot - exactly one)   *)
Conserved == AllDone => Size - cur = realCap - open - c2 - Held
(* ... and therefore the acceptor only waits when the cap is reached: released capacity is       *)
(* usable again (ReleaseReusable), clients beyond the cap are held back (HeldBack)               *)
ReusableWhenSettled == (AllDone /\ acc = "waiting") => open + c2 >= realCap
HeldBack == (AllDone /\ open + c2 >= realCap) => acc # "have"

(* with ordered tuners the changes complete in the order they were requested (also a same-value   *)
(* call completes only after its predecessors): the newest fully applied cap is then simply the    *)
(* cap of the last completed call                                                                  *)
AppliedInOrder == Ordered => \A i \in 1..Len(req) : tst[i] = "done" => \A j \in 1..i : tst[j] = "done"

(* action constraint for schedule generation: the inner Accept returns as soon as the acceptor has *)
(* its slot and a client is queued (what a real listener does; keeps replays in step)             *)
UrgentAccept == (acc = "have" /\ backlog > 0 /\ ~lclosed) => last'.a = "accept"

(* action constraint for schedule generation, profile "burst of reloads on a busy server": cap   *)
(* changes are requested only once the server has filled up to its cap with a client held back (the *)
(* acceptor is queued on the semaphore), and once the first one has been requested the others       *)
(* follow back to back, before anything else happens (no close, no tuner step in between).  What    *)
(* comes after the burst - the order of the tuners, closes, further clients - is free.  Every        *)
(* sequence of MaxResize values of Caps is equally likely: grow, shrink, shrink below the usage and  *)
(* same-value calls in every order.                                                                 *)
BurstAtCap ==
    /\ (Len(req) = 0) => last'.a \in {"dial", "acq", "accept", "setmax"}      \* the server fills up first
    /\ (Len(req') > Len(req)) => acc = "waiting"
    /\ (Len(req) > 0 /\ Len(req) < MaxResize) => Len(req') > Len(req)

(* action constraint for schedule generation, profile "cap values around maxCapacity": the first  *)
(* cap change requests a value at or above Size - 1 (Caps = small values, Size-1, Size, Size+1, far   *)
(* above); everything after it - further values, connections, overlapping - is free                  *)
BoundaryFirst == (Len(req) = 0 /\ Len(req') = 1) => req'[1] >= Size - 1

(* action constraint for schedule generation, profile "overlapping closes on a busy server": slots  *)
(* come back only through connections that two overlapping Close calls are busy with (no plain      *)
(* close, the listener stays open), so that the server is at its cap before and fills up again      *)
(* after them; the order in which the two calls come out relative to accepts, further clients and   *)
(* a cap change is free.                                                                            *)
OverlappingCloses == last'.a \notin {"close", "lclose", "eof"}

(* action constraint for schedule generation, profile "reload sequences": only reloads of the     *)
(* server - run-time cap changes and restarting reloads - in every order and with every value;     *)
(* the server harness executes them on a real HTTPServer and probes the cap it ends with           *)
OnlyReloads == last'.a \in {"setmax", "restart"}

(* action constraint for the "no overlapping resizes" configuration: the caller waits for `done` *)
(* before it calls SetMaxCount again (what the repository's own test does)                       *)
SequentialResizes == (Len(req') > Len(req)) => AllDone
=============================================================================

--------------------------- MODULE ConnCapContract ---------------------------
(* C17, contract layer (HTTP half).  What the property says about a connection cap that can be  *)
(* changed at run time, and nothing more.                                                       *)
(*                                                                                              *)
(* Abstract state: the number of accepted client connections that are open, and the history of  *)
(* cap changes.  A change is *requested* (SetMaxConnection / SetMaxCount is called) and later   *)
(* *applied* (the asynchronous adjustment has completed: the `done` channel of SetMaxCount is   *)
(* closed).  The property text quantifies over the caps that are "in effect":                   *)
(*   - "while its cap is unchanged, at no instant more than maxConnections open"                *)
(*   - "once a run-time change has been applied no new connection is accepted while the open    *)
(*      count is at or above the new cap"                                                       *)
(*   - "without any established connection being dropped"                                       *)
(* Between the request and the completion of a change the text leaves it open which of the two  *)
(* caps governs; the contract therefore lets every cap from the newest *fully applied* one on   *)
(* justify an accept:                                                                           *)
(*     CapsInEffect = { cap of request j } + { caps of requests j+1 .. last }                   *)
(*     where j is the last request such that it and all earlier requests have been applied      *)
(*     (request 0 = the initial cap).                                                           *)
(* With no change in flight this is the single configured cap, and NoAcceptAboveCap gives the   *)
(* first sentence of the property (open <= cap as long as the cap is unchanged).                *)
EXTENDS Integers, Sequences, FiniteSets

VARIABLES initCap,   \* the cap the listener was created with
          req,       \* sequence of caps requested so far, in the order of the calls
          applied,   \* set of indices of req whose adjustment has completed
          open,      \* accepted connections not yet closed by the client/handler
          dropped,   \* established connections closed by the server side because of a resize
          starved,   \* a waiting client was not accepted although open < every cap in effect
          stalled    \* a requested change was found never to be applied although no connection was open

cvars == <<initCap, req, applied, open, dropped, starved, stalled>>

MaxOf(S) == CHOOSE x \in S : \A y \in S : y <= x
MinOf(S) == CHOOSE x \in S : \A y \in S : x <= y

CapAt(j) == IF j = 0 THEN initCap ELSE req[j]

(* the longest prefix of requests that is completely applied *)
AppliedPrefix == MaxOf({j \in 0..Len(req) : \A k \in 1..j : k \in applied})

CapsInEffect == {CapAt(j) : j \in AppliedPrefix..Len(req)}

Settled == AppliedPrefix = Len(req)           \* no change in flight: exactly one cap in effect

CInit(caps) ==
    /\ initCap \in caps /\ req = <<>> /\ applied = {} /\ open = 0 /\ dropped = 0 /\ starved = FALSE /\ stalled = FALSE

(* a new connection is accepted: only below a cap in effect (NoAcceptAboveCap / HeldBack) *)
CAccept ==
    /\ open < MaxOf(CapsInEffect)
    /\ open' = open + 1
    /\ UNCHANGED <<initCap, req, applied, dropped, starved, stalled>>

(* the client (or the handler) closes an established connection; its capacity is given back *)
CClose ==
    /\ open > 0
    /\ open' = open - 1
    /\ UNCHANGED <<initCap, req, applied, dropped, starved, stalled>>

(* a cap change is requested; any value, also below the current usage: nothing is dropped *)
CSetMax(n) ==
    /\ req' = Append(req, n)
    /\ UNCHANGED <<initCap, applied, open, dropped, starved, stalled>>

(* the change i has been applied *)
CApplied(i) ==
    /\ i \in 1..Len(req) /\ i \notin applied
    /\ applied' = applied \cup {i}
    /\ UNCHANGED <<initCap, req, open, dropped, starved, stalled>>

(* the server is restarted (a reload changed a restart-relevant option): every connection of the *)
(* old server has ended; from here on the cap is the maxConnections of the new spec, unchanged     *)
(* until the next run-time change, whatever was requested at run time before the restart          *)
CRestart(n) ==
    /\ open = 0
    /\ initCap' = n /\ req' = <<>> /\ applied' = {}
    /\ UNCHANGED <<open, dropped, starved, stalled>>

CNext(caps) == CAccept \/ CClose \/ (\E n \in caps : CSetMax(n) \/ CRestart(n)) \/ (\E i \in 1..Len(req) : CApplied(i))

CSpec(caps) == CInit(caps) /\ [][CNext(caps)]_cvars

(* ---------------- the clauses of the property, as formulas over the abstract state ---------- *)

(* "no new connection is accepted while the open count is at or above the (new) cap" *)
NoAcceptAboveCap == [][open' > open => open < MaxOf(CapsInEffect)]_cvars

(* "while its cap is unchanged, at no instant more than maxConnections": if the cap was never  *)
(* changed the bound is the configured cap; in general nothing can be open beyond the largest   *)
(* cap that was ever configured (a shrink does not drop, so after a shrink `open` may exceed    *)
(* the new cap, but never the old one).                                                         *)
CapHoldsWhileUnchanged == (req = <<>>) => open <= initCap
NeverAboveEveryCap == open <= MaxOf({CapAt(j) : j \in 0..Len(req)})

(* "without any established connection being dropped" *)
NoDrop == dropped = 0

(* "capacity released by a closed connection becomes usable again": a waiting client is not    *)
(* left waiting while open is below every cap in effect (observed by the harness with a         *)
(* generous deadline, see ConnCap_Trace)                                                        *)
ReleaseReusable == ~starved

(* "once a run-time change of maxConnections has been applied ...": a change that is requested is   *)
(* applied - at the latest when no connection is open any more nothing can hold it up.  A change    *)
(* that is never applied with nothing open (its `done` never closes, every later change queues      *)
(* behind it) leaves the old cap in force for good: the new cap is never "the cap".  The value that *)
(* is requested may be anything a uint32 holds, also at or above what the implementation can count  *)
(* (its effective cap is then min(requested, capacity of the counter), which the clauses above       *)
(* allow: they only bound `open` from above by the requested values).  Observed by the harnesses at *)
(* a barrier (nothing open, nobody running; see ConnCap_Trace `rzstuck`).                            *)
ChangesApplied == ~stalled
=============================================================================

---------------------------- MODULE ConnCap_Gen -----------------------------
(* Model-checking / behaviour-generation wrapper of ConnCap: adds `out`, the JSON description   *)
(* of the step just taken (action, arguments, what the model predicts: does the Acquire block,  *)
(* how many connections are open at an accept and whether the contract allows that accept).      *)
(* The Go harnesses replay these steps as a schedule on the real Semaphore / LimitListener       *)
(* (tuner steps through the gate hook `verifGate("sem.resize", ...)` when the tree has it).      *)
EXTENDS ConnCap, Json

VARIABLE out

GInit == Init /\ out = ToJson(last)
GNext == Next /\ out' = ToJson(last')
GSpec == GInit /\ [][GNext]_<<vars, out>>
=============================================================================

--------------------------- MODULE ConnCap_Trace ----------------------------
(* Trace validation for C17 (HTTP half): event logs recorded from the real Semaphore, the real  *)
(* LimitListener and a real HTTPServer runtime are checked against the contract                  *)
(* (ConnCapContract).  Many traces are concatenated; "reset" starts a fresh object.              *)
(*                                                                                              *)
(* Events (one JSON object per line, numbered by the harness under its own mutex):               *)
(*   reset   {cap}        a new semaphore / listener / server with this cap                      *)
(*   restart {cap}        the server was restarted (new listener) with this cap, nobody connected; *)
(*                        the ids of rz start at 1 again                                         *)
(*   rz      {id,n}       logged BEFORE SetMaxCount / SetMaxConnection / reload is called        *)
(*   rzdone  {id}         logged AFTER the harness saw the `done` channel of that call closed    *)
(*   acc.inv {p}          logged BEFORE process p calls Accept / Acquire (client: before dial)   *)
(*   acc     {p}          logged AFTER the call returned a connection (client: after the first   *)
(*                        response byte), at the same time the harness counts it as open         *)
(*   acc.err {p}          the call returned an error                                             *)
(*   close   {}           logged BEFORE Close / Release is called; the harness stops counting it *)
(*   drop    {}           an established connection was found closed by the server side          *)
(*   stuck   {openhi}     a waiting client was not accepted within the (generous) deadline while *)
(*                        at most `openhi` connections could still hold a slot                   *)
(*   rzstuck {id,how}     the change `id` was found never to be applied, at a barrier: every      *)
(*                        connection closed / token given back (the calls have returned), no       *)
(*                        acceptor or acquirer left, and every background goroutine of SetMaxCount  *)
(*                        blocked inside the semaphore or behind another one, none runnable, in two *)
(*                        goroutine dumps in a row (how = "barrier"; "deadline": the goroutines    *)
(*                        could not be told from the dump and the generous deadline passed)        *)
(*                                                                                              *)
(* Soundness of the counter (DESIGN 2.3): `open` only counts connections between the log of      *)
(* their `acc` and the log of their `close`; all of them are really open at the latest of their  *)
(* real accept instants, which lies inside the window [acc.inv, acc] of the event being checked. *)
(* The caps that may justify the accept are therefore all caps in effect at some moment of that  *)
(* window (`win[p]`): a cap counts from the log of `rz` (before the call) and an older cap       *)
(* stops counting only at the log of `rzdone` (after completion), so the logged set contains     *)
(* the real one.  An observed excess is a real one.                                              *)
EXTENDS ConnCapContract, Json, TLC, IOUtils

TLog == ndJsonDeserialize(IOEnv.VERIF_TRACE)

VARIABLES l,       \* next trace line
          win,     \* per pending accept: caps in effect at some moment since its acc.inv
          over     \* an accept was observed that no cap in effect allows

tvars == <<cvars, l, win, over>>

IsEvent(e) == l <= Len(TLog) /\ TLog[l].ev = e /\ l' = l + 1

Without(f, p) == [q \in DOMAIN f \ {p} |-> f[q]]

TReset ==
    /\ IsEvent("reset")
    /\ initCap' = TLog[l].cap /\ req' = <<>> /\ applied' = {} /\ open' = 0
    /\ win' = <<>>
    /\ UNCHANGED <<dropped, starved, stalled, over>>

(* the server was restarted with this cap (logged AFTER the restarting reload has been carried     *)
(* out, nobody connected): a fresh cap history; an accept pending across the restart may be         *)
(* justified by the new cap as well                                                                 *)
TRestart ==
    /\ IsEvent("restart")
    /\ CRestart(TLog[l].cap)
    /\ win' = [q \in DOMAIN win |-> win[q] \cup {TLog[l].cap}]
    /\ UNCHANGED over

TRz ==
    /\ IsEvent("rz") /\ TLog[l].id = Len(req) + 1
    /\ CSetMax(TLog[l].n)
    /\ win' = [q \in DOMAIN win |-> win[q] \cup {TLog[l].n}]
    /\ UNCHANGED over

TRzDone ==
    /\ IsEvent("rzdone")
    /\ CApplied(TLog[l].id)
    /\ UNCHANGED <<win, over>>

TAccInv ==
    /\ IsEvent("acc.inv")
    /\ win' = [q \in DOMAIN win \cup {TLog[l].p} |-> IF q = TLog[l].p THEN CapsInEffect ELSE win[q]]
    /\ UNCHANGED <<cvars, over>>

(* the accept is allowed by some cap that was in effect during the call ... *)
TAcc ==
    /\ IsEvent("acc") /\ TLog[l].p \in DOMAIN win
    /\ open < MaxOf(win[TLog[l].p])
    /\ open' = open + 1
    /\ win' = Without(win, TLog[l].p)
    /\ UNCHANGED <<initCap, req, applied, dropped, starved, stalled, over>>

(* ... or by none: recorded, and reported through the invariant NoAcceptAboveCapObserved.  Every *)
(* offending event is also printed (VERIF_BAD clause line): when the invariants are left out of   *)
(* the configuration one pass lists all offending events of a log of many independent cases.      *)
TAccOver ==
    /\ IsEvent("acc") /\ TLog[l].p \in DOMAIN win
    /\ ~(open < MaxOf(win[TLog[l].p]))
    /\ PrintT(<<"VERIF_BAD", "NoAcceptAboveCap", l>>)
    /\ open' = open + 1 /\ over' = TRUE
    /\ win' = Without(win, TLog[l].p)
    /\ UNCHANGED <<initCap, req, applied, dropped, starved, stalled>>

TAccErr ==
    /\ IsEvent("acc.err")
    /\ win' = Without(win, TLog[l].p)
    /\ UNCHANGED <<cvars, over>>

TClose == IsEvent("close") /\ CClose /\ UNCHANGED <<win, over>>

TDrop ==
    /\ IsEvent("drop")
    /\ PrintT(<<"VERIF_BAD", "NoDrop", l>>)
    /\ dropped' = dropped + 1
    /\ UNCHANGED <<initCap, req, applied, open, starved, stalled, win, over>>

TStuck ==
    /\ IsEvent("stuck")
    /\ (TLog[l].openhi < MinOf(CapsInEffect)) => PrintT(<<"VERIF_BAD", "ReleaseReusable", l>>)
    /\ starved' = (starved \/ TLog[l].openhi < MinOf(CapsInEffect))
    /\ UNCHANGED <<initCap, req, applied, open, dropped, stalled, win, over>>

(* a requested change that is never applied although the harness's counter says nothing is open *)
TRzStuck ==
    /\ IsEvent("rzstuck")
    /\ LET bad == open = 0 /\ TLog[l].id \in 1..Len(req) /\ TLog[l].id \notin applied IN
         /\ bad => PrintT(<<"VERIF_BAD", "ChangesApplied", l>>)
         /\ stalled' = (stalled \/ bad)
    /\ UNCHANGED <<initCap, req, applied, open, dropped, starved, win, over>>

TNext == TReset \/ TRestart \/ TRz \/ TRzDone \/ TAccInv \/ TAcc \/ TAccOver \/ TAccErr \/ TClose \/ TDrop \/ TStuck \/ TRzStuck

TInit ==
    /\ l = 1 /\ win = <<>> /\ over = FALSE
    /\ initCap = 0 /\ req = <<>> /\ applied = {} /\ open = 0 /\ dropped = 0 /\ starved = FALSE /\ stalled = FALSE

TSpec == TInit /\ [][TNext]_tvars

NoAcceptAboveCapObserved == ~over

ASSUME TLCSet(1, 0)
HWM == TLCSet(1, IF l - 1 > TLCGet(1) THEN l - 1 ELSE TLCGet(1))
Accepted == /\ PrintT(<<"VERIF_HWM", TLCGet(1), Len(TLog)>>)
            /\ TLCGet(1) = Len(TLog)
=============================================================================

------------------------------ MODULE CorsAdaptor ------------------------------
(* Growth item X06 (a): the CORSAdaptor filter (pkg/filters/corsadaptor) as a one-step decision   *)
(* procedure over (configuration, request), with the rs/cors v1.8.2 semantics as far as the       *)
(* filter uses them (cors.New normalisation, HandlerFunc = handlePreflight / handleActualRequest). *)
(*                                                                                                *)
(* Strings the decision looks into (origins, patterns, method names, header lists) are sequences  *)
(* of one-character strings (see Strings.tla); a missing header is the empty sequence (Go's        *)
(* Header.Get cannot tell a missing header from an empty one, and neither can the filter).         *)
(*                                                                                                *)
(* Reading of the documentation (doc/reference/filters.md, CORSAdaptor):                          *)
(*  - a pre-flight request is "OPTIONS with a non-empty Access-Control-Request-Method"; the filter  *)
(*    answers it itself (status 204) and reports `preflighted`, which ends the pipeline - also when *)
(*    the pre-flight is refused (the refusal is the 204 without Access-Control-Allow-* headers);    *)
(*  - supportCORSRequest = false (default): every other request passes untouched, no response;      *)
(*  - supportCORSRequest = true: every request gets a response object carrying the CORS headers of  *)
(*    its class; `preflighted` only for a pre-flight that carries an Origin (the code's choice: an  *)
(*    OPTIONS + ACRM request without Origin is answered 204 by rs/cors but the pipeline goes on);   *)
(*  - the origin / method / header rules are those of rs/cors: origins and methods compared case-   *)
(*    insensitively, one `*` per origin pattern = any run of characters, `*` alone anywhere in the  *)
(*    list = all origins (then the answer is `*`, not the echo), empty list = all; methods default  *)
(*    to GET POST HEAD, OPTIONS always allowed; headers default to Origin Accept Content-Type       *)
(*    X-Requested-With, a configured list replaces the defaults and gets Origin appended, `*` = all. *)
(* Header names are restricted to letters, digits and `-` (for those rs/cors' parseHeaderList and   *)
(* http.CanonicalHeaderKey agree).                                                                 *)
(*                                                                                                *)
(* CheckOrigin = FALSE is the wrong variant (every origin echoed): the negative control.           *)
EXTENDS Integers, Sequences, FiniteSets, Strings

CONSTANTS CheckOrigin,   \* TRUE: the code. FALSE: origin never checked (must be refuted)
          Full,          \* TRUE: allowCredentials / maxAge / exposedHeaders vary independently
          ResponderReplaces  \* composition (below). TRUE: the code - a later filter that produces the response replaces
                         \* the response object the adaptor made; FALSE: what supportCORSRequest promises

-----------------------------------------------------------------------------
(* characters *)
Lows == <<"a","b","c","d","e","f","g","h","i","j","k","l","m","n","o","p","q","r","s","t","u","v","w","x","y","z">>
Ups  == <<"A","B","C","D","E","F","G","H","I","J","K","L","M","N","O","P","Q","R","S","T","U","V","W","X","Y","Z">>
Others == {":", "/", ".", "*", "-", " ", ",", "0", "1", "2", "3", "4", "5", "6", "7", "8", "9"}
AllChars == {Lows[i] : i \in 1..26} \cup {Ups[i] : i \in 1..26} \cup Others
IdxIn(c, S) == CHOOSE i \in 1..26 : S[i] = c
LowerOf == [c \in AllChars |-> IF \E i \in 1..26 : Ups[i] = c THEN Lows[IdxIn(c, Ups)] ELSE c]
UpperOf == [c \in AllChars |-> IF \E i \in 1..26 : Lows[i] = c THEN Ups[IdxIn(c, Lows)] ELSE c]
ToLower(s) == [i \in 1..Len(s) |-> LowerOf[s[i]]]
ToUpper(s) == [i \in 1..Len(s) |-> UpperOf[s[i]]]
(* http.CanonicalHeaderKey / parseHeaderList on a name of letters, digits and '-' *)
Canon(s) == [i \in 1..Len(s) |-> IF i = 1 \/ s[i - 1] = "-" THEN UpperOf[s[i]] ELSE LowerOf[s[i]]]
CanonAll(ss) == [i \in 1..Len(ss) |-> Canon(ss[i])]
(* parseHeaderList: tokens separated by runs of ' ' and ',' *)
RECURSIVE Split(_, _, _)
Split(s, i, cur) ==
    IF i > Len(s) THEN (IF cur = <<>> THEN <<>> ELSE <<cur>>)
    ELSE IF s[i] \in {" ", ","} THEN (IF cur = <<>> THEN <<>> ELSE <<cur>>) \o Split(s, i + 1, <<>>)
    ELSE Split(s, i + 1, Append(cur, s[i]))
ParseHeaderList(s) == CanonAll(Split(s, 1, <<>>))
RECURSIVE Join(_)        \* strings.Join(ss, ", ")
Join(ss) == IF ss = <<>> THEN <<>> ELSE IF Len(ss) = 1 THEN ss[1] ELSE ss[1] \o <<",", " ">> \o Join(Tail(ss))
Range(f) == {f[i] : i \in DOMAIN f}

-----------------------------------------------------------------------------
(* the strings of the model *)
S_http == <<"h","t","t","p",":","/","/">>
O_a     == S_http \o <<"a",".","i","o">>                    \* http://a.io
O_x     == S_http \o <<"x",".","i","o">>                    \* http://x.io     only the wildcard matches
O_up    == <<"H","T","T","P",":","/","/","A",".","I","O">>  \* HTTP://A.IO     other case
O_evil  == S_http \o <<"e","v","i","l",".","c","o","m">>    \* http://evil.com
O_short == S_http \o <<".","i","o">>                        \* http://.io      the wildcard stands for nothing
O_tiny  == S_http \o <<"i","o">>                            \* http://io       shorter than prefix + suffix
P_io    == S_http \o <<"*",".","i","o">>                    \* http://*.io
P_org   == S_http \o <<"*",".","o","r","g">>                \* http://*.org
O_borg  == S_http \o <<"b",".","o","r","g">>                \* http://b.org
Star    == <<"*">>

M_get == <<"G","E","T">>      M_put == <<"P","U","T">>    M_del == <<"D","E","L","E","T","E">>
M_opt == <<"O","P","T","I","O","N","S">>                  M_post == <<"P","O","S","T">>    M_head == <<"H","E","A","D">>
M_putl == <<"p","u","t">>

H_tok   == <<"X","-","T","o","k","e","n">>
H_tokl  == <<"x","-","t","o","k","e","n">>
H_ct    == <<"C","o","n","t","e","n","t","-","T","y","p","e">>
H_orig  == <<"O","r","i","g","i","n">>
H_acc   == <<"A","c","c","e","p","t">>
H_xrw   == <<"X","-","R","e","q","u","e","s","t","e","d","-","W","i","t","h">>
H_evil  == <<"X","-","E","v","i","l">>
H_exp1  == <<"x","-","e","x","p">>
H_exp2  == <<"X","-","O","t","h","e","r">>
(* raw Access-Control-Request-Headers values *)
R_tok     == H_tokl                                                        \* x-token
R_ctorig  == <<"c","o","n","t","e","n","t","-","t","y","p","e",","," ">> \o H_orig   \* content-type, Origin
R_tokacc  == H_tokl \o <<","," "," ">> \o <<"a","c","c","e","p","t">>      \* x-token,  accept
R_evil    == H_evil

CfgOrigins == {<<>>, <<Star>>, <<O_a>>, <<P_io>>, <<O_up, P_org>>, <<O_borg, Star>>}
CfgMethods == {<<>>, <<M_get, M_put>>}
CfgHeaders == {<<>>, <<H_tokl>>, <<H_tok, Star>>}
Extras == IF Full THEN [cred : BOOLEAN, maxAge : {0, 600}, exposed : {<<>>, <<H_exp1, H_exp2>>}]
          ELSE {[cred |-> FALSE, maxAge |-> 0, exposed |-> <<>>], [cred |-> TRUE, maxAge |-> 600, exposed |-> <<H_exp1, H_exp2>>]}
Configs == {[origins |-> o, methods |-> m, headers |-> h, cred |-> e.cred, maxAge |-> e.maxAge, exposed |-> e.exposed, support |-> s] :
              o \in CfgOrigins, m \in CfgMethods, h \in CfgHeaders, e \in Extras, s \in BOOLEAN}

ReqMethods == {M_opt, M_get, M_put, M_del}
ReqOrigins == {<<>>, O_a, O_x, O_up, O_evil, O_short, O_tiny, O_borg}
ReqACRM    == {<<>>, M_get, M_putl, M_del, M_opt}
ReqACRH    == {<<>>, R_tok, R_ctorig, R_tokacc, R_evil}
Requests == [method : ReqMethods, origin : ReqOrigins, acrm : ReqACRM, acrh : ReqACRH]

-----------------------------------------------------------------------------
(* cors.New: the normalised configuration *)
AllOrigins(c)  == c.origins = <<>> \/ \E i \in 1..Len(c.origins) : ToLower(c.origins[i]) = Star
ExactOrigins(c) == {ToLower(c.origins[i]) : i \in {j \in 1..Len(c.origins) : IndexesOf("*", c.origins[j]) = {}}}
(* a pattern is split at its FIRST `*`: prefix and suffix (a second `*` would be literal) *)
WildOrigins(c) == {LET p == ToLower(c.origins[i]) k == MinOf(IndexesOf("*", p)) IN [pre |-> Take(p, k - 1), suf |-> Drop(p, k)] :
                     i \in {j \in 1..Len(c.origins) : IndexesOf("*", c.origins[j]) # {}}}
WMatch(w, s) == Len(s) >= Len(w.pre) + Len(w.suf) /\ IsPrefixOf(w.pre, s) /\ IsSuffixOf(w.suf, s)
OriginAllowed(c, o) ==
    \/ ~CheckOrigin
    \/ AllOrigins(c)
    \/ ToLower(o) \in ExactOrigins(c)
    \/ \E w \in WildOrigins(c) : WMatch(w, ToLower(o))

EffMethods(c) == IF c.methods = <<>> THEN {M_get, M_post, M_head} ELSE {ToUpper(c.methods[i]) : i \in 1..Len(c.methods)}
MethodAllowed(c, m) == ToUpper(m) = M_opt \/ ToUpper(m) \in EffMethods(c)

AllHeaders(c) == \E i \in 1..Len(c.headers) : c.headers[i] = Star
EffHeaders(c) == IF c.headers = <<>> THEN {H_orig, H_acc, H_ct, H_xrw} ELSE Range(CanonAll(c.headers)) \cup {H_orig}
HeadersAllowed(c, hs) == AllHeaders(c) \/ hs = <<>> \/ \A i \in 1..Len(hs) : hs[i] \in EffHeaders(c)

-----------------------------------------------------------------------------
(* the decision *)
IsPreflight(r) == r.method = M_opt /\ r.acrm # <<>>
V_origin == "Origin"   V_acrm == "Access-Control-Request-Method"   V_acrh == "Access-Control-Request-Headers"
NoHeaders == [acao |-> <<>>, acam |-> <<>>, acah |-> <<>>, acac |-> FALSE, acma |-> 0, aceh |-> <<>>]
Acao(c, r) == IF AllOrigins(c) THEN Star ELSE r.origin       \* `*` or the echo of the header as it was sent

(* rs/cors handlePreflight + WriteHeader(204) *)
PreflightGranted(c, r) ==
    /\ r.origin # <<>> /\ OriginAllowed(c, r.origin)
    /\ MethodAllowed(c, r.acrm)
    /\ HeadersAllowed(c, ParseHeaderList(r.acrh))
PreflightResp(c, r) ==
    [status |-> 204, vary |-> <<V_origin, V_acrm, V_acrh>>,
     h |-> IF PreflightGranted(c, r)
           THEN [acao |-> Acao(c, r), acam |-> ToUpper(r.acrm), acah |-> Join(ParseHeaderList(r.acrh)),
                 acac |-> c.cred, acma |-> IF c.maxAge > 0 THEN c.maxAge ELSE 0, aceh |-> <<>>]
           ELSE NoHeaders]
(* rs/cors handleActualRequest; the recorder's default status *)
ActualGranted(c, r) == r.origin # <<>> /\ OriginAllowed(c, r.origin) /\ MethodAllowed(c, r.method)
ActualResp(c, r) ==
    [status |-> 200, vary |-> <<V_origin>>,
     h |-> IF ActualGranted(c, r)
           THEN [acao |-> Acao(c, r), acam |-> <<>>, acah |-> <<>>, acac |-> c.cred, acma |-> 0, aceh |-> Join(CanonAll(c.exposed))]
           ELSE NoHeaders]
NoResp == [status |-> 0, vary |-> <<>>, h |-> NoHeaders]

(* CORSAdaptor.Handle: handle (support off) / handleCORS (support on) *)
Decide(c, r) ==
    IF ~c.support
    THEN IF IsPreflight(r) THEN [res |-> "preflighted", hasResp |-> TRUE, resp |-> PreflightResp(c, r)]
         ELSE [res |-> "", hasResp |-> FALSE, resp |-> NoResp]
    ELSE [res |-> IF r.origin # <<>> /\ IsPreflight(r) THEN "preflighted" ELSE "",
          hasResp |-> TRUE,
          resp |-> IF IsPreflight(r) THEN PreflightResp(c, r) ELSE ActualResp(c, r)]

-----------------------------------------------------------------------------
(* Composition: a pipeline [CORSAdaptor, R] where R produces the response (Proxy, Mock ...).  What the client gets.  *)
(* `preflighted` ends the pipeline: the adaptor's 204 is the answer and R is not run.  Otherwise R runs; with         *)
(* supportCORSRequest the adaptor has put the CORS headers of the actual request on a response object before R ran,  *)
(* and "support CORS request" can only mean that they reach the client together with R's answer.  In the code every  *)
(* response-producing filter calls SetOutputResponse with a new object: the adaptor's headers are dropped            *)
(* (ResponderReplaces = TRUE; ActualGrantReachesClient refuted by TLC and on a real Pipeline: finding                *)
(* cors-actual-headers-replaced).                                                                                    *)
ClientSeesD(d) ==
    IF d.res = "preflighted" THEN [backend |-> FALSE, status |-> d.resp.status, vary |-> d.resp.vary, h |-> d.resp.h]
    ELSE IF ResponderReplaces \/ ~d.hasResp THEN [backend |-> TRUE, status |-> 200, vary |-> <<>>, h |-> NoHeaders]
    ELSE [backend |-> TRUE, status |-> 200, vary |-> d.resp.vary, h |-> d.resp.h]

-----------------------------------------------------------------------------
ClientSees(c, r) == ClientSeesD(Decide(c, r))
VARIABLES cfg, req,
          dec      \* Decide(cfg, req), computed once per case
vars == <<cfg, req, dec>>
NoReq == [method |-> <<>>, origin |-> <<>>, acrm |-> <<>>, acrh |-> <<>>]
(* Full = FALSE prunes the request dimensions that cannot matter: Access-Control-Request-Method is varied only for   *)
(* OPTIONS (one value elsewhere, to show that it is ignored), Access-Control-Request-Headers only for pre-flights    *)
Relevant(r) == \/ Full
               \/ r.method = M_opt /\ (r.acrm = <<>> => r.acrh = <<>>)
               \/ r.method # M_opt /\ r.acrm \in {<<>>, M_get} /\ r.acrh \in {<<>>, R_tok}
Init == cfg \in Configs /\ req = NoReq /\ dec = Decide(cfg, NoReq)
Next == req = NoReq /\ req' \in {r \in Requests : Relevant(r)} /\ cfg' = cfg /\ dec' = Decide(cfg, req')
Spec == Init /\ [][Next]_vars

D == dec
DecisionIsDecide == dec = Decide(cfg, req)
Decided == req # NoReq
AnyAllow(h) == h.acao # <<>> \/ h.acam # <<>> \/ h.acah # <<>> \/ h.acac \/ h.acma # 0 \/ h.aceh # <<>>

(* the contract, as invariants over the decision table *)
(* what the user's configuration means, independently of CheckOrigin *)
ConfigAllows(c, o) == \/ c.origins = <<>>
                      \/ \E i \in 1..Len(c.origins) :
                           LET p == ToLower(c.origins[i]) IN
                           \/ p = Star
                           \/ IndexesOf("*", p) = {} /\ p = ToLower(o)
                           \/ IndexesOf("*", p) # {} /\ LET k == MinOf(IndexesOf("*", p)) IN WMatch([pre |-> Take(p, k - 1), suf |-> Drop(p, k)], ToLower(o))
DisallowedOriginGetsNothing ==      \* no Origin, or an origin the configuration does not allow: no Access-Control-* at all
    (req.origin = <<>> \/ ~ConfigAllows(cfg, req.origin)) => ~AnyAllow(D.resp.h)
AcaoIsStarOrEcho == D.resp.h.acao # <<>> => \/ D.resp.h.acao = req.origin
                                            \/ D.resp.h.acao = Star /\ (cfg.origins = <<>> \/ \E i \in 1..Len(cfg.origins) : cfg.origins[i] = Star)
PreflightedOnlyPreflight == D.res = "preflighted" => IsPreflight(req) /\ D.hasResp /\ D.resp.status = 204
PreflightAlwaysEnds == (IsPreflight(req) /\ (req.origin # <<>> \/ ~cfg.support)) => D.res = "preflighted"
NonCorsUntouched ==  /\ (~cfg.support /\ ~IsPreflight(req)) => (~D.hasResp /\ D.res = "")
                     /\ (cfg.support /\ req.origin = <<>>) => (D.res = "" /\ ~AnyAllow(D.resp.h))
GrantOnlyIfAllowed == D.resp.h.acam # <<>> => /\ IsPreflight(req) /\ MethodAllowed(cfg, req.acrm)
                                              /\ HeadersAllowed(cfg, ParseHeaderList(req.acrh))
                                              /\ D.resp.h.acam = ToUpper(req.acrm)
ExtrasOnlyWithOrigin == /\ D.resp.h.acac => (cfg.cred /\ D.resp.h.acao # <<>>)
                        /\ D.resp.h.acma # 0 => (IsPreflight(req) /\ D.resp.h.acao # <<>> /\ D.resp.h.acma = cfg.maxAge)
                        /\ D.resp.h.aceh # <<>> => (~IsPreflight(req) /\ D.resp.h.acao # <<>> /\ cfg.exposed # <<>>)
                        /\ D.resp.h.acah # <<>> => D.resp.h.acam # <<>>
(* composition: with supportCORSRequest an allowed actual CORS request gets its Access-Control-Allow-Origin, R's answer included *)
ActualGrantReachesClient == (cfg.support /\ ~IsPreflight(req) /\ ActualGranted(cfg, req)) =>
                               (ClientSeesD(D).h.acao # <<>> /\ ClientSeesD(D).backend)
PreflightNeverReachesBackend == (IsPreflight(req) /\ (req.origin # <<>> \/ ~cfg.support)) => ~ClientSeesD(D).backend
(* the classes of the table (vacuity: props/x06.py requires every class among the replayed cases) *)
ClassOf(c, r, d) ==
    IF ~d.hasResp THEN "pass"
    ELSE IF IsPreflight(r) THEN (IF d.resp.h.acao # <<>> THEN "preflight-granted"
                                 ELSE IF r.origin = <<>> THEN "preflight-no-origin"
                                 ELSE IF ~ConfigAllows(c, r.origin) THEN "preflight-bad-origin"
                                 ELSE IF ~MethodAllowed(c, r.acrm) THEN "preflight-bad-method" ELSE "preflight-bad-headers")
    ELSE (IF d.resp.h.acao # <<>> THEN "actual-granted"
          ELSE IF r.origin = <<>> THEN "actual-no-origin"
          ELSE IF ~ConfigAllows(c, r.origin) THEN "actual-bad-origin" ELSE "actual-bad-method")
=============================================================================

---------------------------- MODULE CorsAdaptor_Gen ----------------------------
(* Generator wrapper: `out` = the case (configuration, request), the decision and its class. *)
EXTENDS CorsAdaptor, Json
VARIABLE out
GInit == Init /\ out = ToJson([a |-> "init"])
GNext == Next /\ out' = ToJson([cfg |-> cfg, req |-> req', exp |-> dec', sees |-> ClientSeesD(dec'), cls |-> ClassOf(cfg, req', dec')])
GSpec == GInit /\ [][GNext]_<<vars, out>>
=============================================================================

------------------------------ MODULE CustomData ------------------------------
(* Growth item X04 (DESIGN 9.5): the custom-data store (pkg/cluster/customdata) - kinds and data   *)
(* items of a kind, identified by the kind's id field - as a sequential object over the cluster  *)
(* store.  One action per public method; `last` is the reply; the state is what ListKinds /       *)
(* ListData must return afterwards.                                                              *)
EXTENDS Integers, Sequences, FiniteSets

CONSTANTS MaxOps

KindNames == {"k1", "k2"}
IdFields  == {"name", "key"}
Names     == {"", "a", "b"}
Keys      == {"", "x"}
Vals      == {1, 2}
Items     == [name : Names, key : Keys, v : Vals]

VARIABLES kinds,   \* function: kind name -> id field, for the kinds that exist
          data,    \* set of [kind, id, item]
          ops, last
vars == <<kinds, data, ops, last>>
view == <<kinds, data, ops>>

IdOf(k, d) == IF kinds[k] = "name" THEN d.name ELSE d.key
Has(k, id) == \E r \in data : r.kind = k /\ r.id = id
Without(k, ids) == {r \in data : ~(r.kind = k /\ r.id \in ids)}

Init == kinds = <<>> /\ data = {} /\ ops = 0 /\ last = [a |-> "init"]

Step(l) == ops < MaxOps /\ ops' = ops + 1 /\ last' = l

PutKind(k, f, upd) ==
    LET ok == (upd = (k \in DOMAIN kinds)) IN
    /\ Step([a |-> "putkind", kind |-> k, idField |-> f, update |-> upd, ok |-> ok])
    /\ kinds' = IF ok THEN [x \in DOMAIN kinds \cup {k} |-> IF x = k THEN f ELSE kinds[x]] ELSE kinds
    /\ UNCHANGED data

DeleteKind(k) ==        \* the data of a deleted kind stays (the code says: TODO)
    LET ok == k \in DOMAIN kinds IN
    /\ Step([a |-> "delkind", kind |-> k, ok |-> ok])
    /\ kinds' = IF ok THEN [x \in DOMAIN kinds \ {k} |-> kinds[x]] ELSE kinds
    /\ UNCHANGED data

PutData(k, d, upd) ==
    LET ok == /\ k \in DOMAIN kinds
              /\ IdOf(k, d) # ""
              /\ upd = Has(k, IdOf(k, d)) IN
    /\ Step([a |-> "putdata", kind |-> k, item |-> d, update |-> upd, ok |-> ok])
    /\ data' = IF ok THEN Without(k, {IdOf(k, d)}) \cup {[kind |-> k, id |-> IdOf(k, d), item |-> d]} ELSE data
    /\ UNCHANGED kinds

DeleteData(k, id) ==    \* no kind check: orphans of a deleted kind can still be deleted
    LET ok == Has(k, id) IN
    /\ Step([a |-> "deldata", kind |-> k, id |-> id, ok |-> ok])
    /\ data' = IF ok THEN Without(k, {id}) ELSE data
    /\ UNCHANGED kinds

(* one transaction: delete the ids, then put the items (no existence checks); all or nothing *)
Batch(k, del, upd) ==
    LET ok == k \in DOMAIN kinds /\ \A i \in 1..Len(upd) : IdOf(k, upd[i]) # "" IN
    /\ Step([a |-> "batch", kind |-> k, del |-> del, upd |-> upd, ok |-> ok])
    /\ data' = IF ~ok THEN data
               ELSE LET ids == {IdOf(k, upd[i]) : i \in 1..Len(upd)}
                        lastOf(id) == upd[CHOOSE i \in 1..Len(upd) : IdOf(k, upd[i]) = id /\ \A j \in (i+1)..Len(upd) : IdOf(k, upd[j]) # id]
                    IN  Without(k, del \cup ids) \cup {[kind |-> k, id |-> id, item |-> lastOf(id)] : id \in ids}
    /\ UNCHANGED kinds

Ids == (Names \cup Keys) \ {""}
Next ==
    \/ \E k \in KindNames, f \in IdFields, u \in BOOLEAN : PutKind(k, f, u)
    \/ \E k \in KindNames : DeleteKind(k)
    \/ \E k \in KindNames, d \in Items, u \in BOOLEAN : PutData(k, d, u)
    \/ \E k \in KindNames, id \in Ids : DeleteData(k, id)
    \/ \E k \in KindNames, del \in SUBSET Ids :
          \/ Batch(k, del, <<>>)
          \/ \E d1 \in Items : Batch(k, del, <<d1>>)
          \/ \E d1 \in Items, d2 \in {d \in Items : d.v = 2} : Batch(k, del, <<d1, d2>>)
Spec == Init /\ [][Next]_vars

-----------------------------------------------------------------------------
UniqueIds    == \A r1, r2 \in data : (r1.kind = r2.kind /\ r1.id = r2.id) => r1 = r2
IdIsField    == \A r \in data : r.id # "" /\ r.id \in {r.item.name, r.item.key}
FailedIsNoop == [][(~last'.ok) => UNCHANGED <<kinds, data>>]_vars
OnlyKnownKindsGrow == [][\A r \in data' \ data : r.kind \in DOMAIN kinds]_vars
=============================================================================

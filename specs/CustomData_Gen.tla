---------------------------- MODULE CustomData_Gen ----------------------------
EXTENDS CustomData, Json
VARIABLE out
KindList == {[name |-> k, idField |-> kinds'[k]] : k \in DOMAIN kinds'}
GInit == Init /\ out = ToJson([a |-> "init"])
GNext == Next /\ out' = ToJson([step |-> last', kinds |-> KindList, data |-> data'])
GSpec == GInit /\ [][GNext]_<<vars, out>>
=============================================================================

------------------------------- MODULE Easegress -------------------------------
(* Index module / growth item X03 (DESIGN 9.1): one request's path through the gateway,          *)
(*                                                                                              *)
(*   client -> [server IP filter] -> route -> Validator -> RateLimiter -> Proxy:                *)
(*             circuit breaker ( retry ( round-robin pick -> backend attempt ) ) -> response     *)
(*                                                                                              *)
(* composed from the subsystem contracts: the breaker is an INSTANCE of CircuitBreaker (C08),    *)
(* the other stages use the contracts of HttpRouter (C01/C05: 403 before routing, 404, 503 for   *)
(* an unknown backend), Validator (C06: header rule, 400), RateLimiter (C09: L permits in the    *)
(* current period, no waiting: the period is longer than any run), LoadBalance (C04: round robin *)
(* = fetch-and-add), Resilience (C10: at most MaxAttempts, stop at first success, breaker        *)
(* outermost, one record per admitted request) in the simplified form one fixed configuration    *)
(* needs.  One stage = one action, so the cross-stage properties can be stated:                  *)
(* a request refused at one stage leaves every later stage untouched.                            *)
EXTENDS Integers, Sequences, FiniteSets

CONSTANTS Limit,        \* RateLimiter limitForPeriod
          MaxAttempts,  \* Retry maxAttempts
          CBPolicy,     \* circuit breaker policy record (see CircuitBreaker)
          MaxReqs       \* bound on the number of requests (model checking)

Clients == {"ok", "blocked"}                \* client address classes w.r.t. the server ipFilter
Paths   == {"/svc", "/nobackend", "/none"}  \* routed to the pipeline / to a missing backend / not routed
Keys    == {"good", "bad"}                  \* the header the Validator checks
Outcome == {"ok", "fail"}                   \* what a backend answers to one attempt (fail = a failure code)
Scripts == {<<"ok">>, <<"fail", "ok">>, <<"fail", "fail">>}

Reqs == [c : Clients, path : Paths, key : Keys, script : Scripts]

VARIABLES pc,        \* stage of the request in flight: "idle" | "filter" | "route" | "validate" | "limit" | "breaker" | "attempt" | "record" | "done"
          req,       \* the request in flight
          status,    \* response status being built (0 = none yet)
          contacted, \* servers contacted for this request, in order
          att,       \* attempts made for this request
          rlUsed,    \* permits taken in the (only) period
          rr,        \* round-robin counter of the pool
          nreq,      \* requests so far
          \* --- the breaker (INSTANCE CircuitBreaker)
          pol, state, epoch, transit, win, trials, now, pend, calls, last

cbvars == <<pol, state, epoch, transit, win, trials, now, pend, calls, last>>
vars == <<pc, req, status, contacted, att, rlUsed, rr, nreq, cbvars>>

CB == INSTANCE CircuitBreaker WITH Policies <- {CBPolicy}, MaxNow <- 0, MaxCalls <- 1000000

NoReq == [c |-> "ok", path |-> "/none", key |-> "good", script |-> <<"ok">>]

Init ==
    /\ pc = "idle" /\ req = NoReq /\ status = 0 /\ contacted = <<>> /\ att = 0
    /\ rlUsed = 0 /\ rr = 0 /\ nreq = 0
    /\ CB!Init

Finish(code) == /\ status' = code /\ pc' = "done"

Arrive(r) ==
    /\ pc = "idle" /\ nreq < MaxReqs /\ nreq' = nreq + 1
    /\ req' = r /\ status' = 0 /\ contacted' = <<>> /\ att' = 0 /\ pc' = "filter"
    /\ UNCHANGED <<rlUsed, rr, cbvars>>

(* server-level IP filter: before anything else (C05) *)
IPFilter ==
    /\ pc = "filter"
    /\ IF req.c = "blocked" THEN Finish(403) ELSE pc' = "route" /\ UNCHANGED status
    /\ UNCHANGED <<req, contacted, att, rlUsed, rr, nreq, cbvars>>

(* routing (C01): no entry -> 404, entry with a backend that does not exist -> 503 *)
Route ==
    /\ pc = "route"
    /\ CASE req.path = "/none"      -> Finish(404)
         [] req.path = "/nobackend" -> Finish(503)
         [] OTHER                   -> pc' = "validate" /\ UNCHANGED status
    /\ UNCHANGED <<req, contacted, att, rlUsed, rr, nreq, cbvars>>

(* Validator with a header rule (C06): invalid -> 400, pipeline ends *)
Validate ==
    /\ pc = "validate"
    /\ IF req.key = "bad" THEN Finish(400) ELSE pc' = "limit" /\ UNCHANGED status
    /\ UNCHANGED <<req, contacted, att, rlUsed, rr, nreq, cbvars>>

(* RateLimiter (C09), all requests in one period, no waiting *)
Limiter ==
    /\ pc = "limit"
    /\ IF rlUsed >= Limit THEN Finish(429) /\ UNCHANGED rlUsed
       ELSE rlUsed' = rlUsed + 1 /\ pc' = "breaker" /\ UNCHANGED status
    /\ UNCHANGED <<req, contacted, att, rr, nreq, cbvars>>

(* Proxy: the breaker is the outermost wrapper (C08/C10) *)
Breaker ==
    /\ pc = "breaker"
    /\ CB!Acquire
    /\ IF last'.ok THEN pc' = "attempt" /\ UNCHANGED status ELSE Finish(503)
    /\ UNCHANGED <<req, contacted, att, rlUsed, rr, nreq>>

(* one attempt: round-robin pick (C04), backend answers by script *)
Attempt ==
    /\ pc = "attempt"
    /\ att' = att + 1 /\ rr' = rr + 1
    /\ contacted' = Append(contacted, (rr % 2) + 1)
    /\ LET o == req.script[att + 1] IN
       IF o = "ok" THEN status' = 200 /\ pc' = "record"
       ELSE IF att + 1 < MaxAttempts /\ att + 1 < Len(req.script) THEN UNCHANGED <<status, pc>>   \* retry
       ELSE status' = 503 /\ pc' = "record"
    /\ UNCHANGED <<req, rlUsed, nreq, cbvars>>

(* exactly one result recorded per admitted request (C10), for the permit it was admitted with *)
Record ==
    /\ pc = "record"
    /\ CB!Record(Len(pend), IF status = 200 THEN "ok" ELSE "fail")
    /\ pc' = "done"
    /\ UNCHANGED <<req, status, contacted, att, rlUsed, rr, nreq>>

Respond ==
    /\ pc = "done" /\ pc' = "idle"
    /\ UNCHANGED <<req, status, contacted, att, rlUsed, rr, nreq, cbvars>>

Next == (\E r \in Reqs : Arrive(r)) \/ IPFilter \/ Route \/ Validate \/ Limiter \/ Breaker \/ Attempt \/ Record \/ Respond
Spec == Init /\ [][Next]_vars

-----------------------------------------------------------------------------
(* Cross-stage properties (none of them is one of the listed properties on its own).             *)

TypeOK == status \in {0, 200, 400, 403, 404, 429, 503} /\ att <= MaxAttempts /\ rlUsed <= Limit

(* a request refused before the pipeline costs nothing in it *)
EarlyRefusalTouchesNothing ==
    [][(pc' = "done" /\ status' \in {403, 404, 400}) => UNCHANGED <<rlUsed, rr, state, win, epoch, pend>>]_vars

(* a limited request neither reaches the breaker nor a backend *)
LimitedReachesNoBackend ==
    [][(pc' = "done" /\ status' = 429) => (contacted' = <<>> /\ UNCHANGED <<rr, state, win, epoch, pend>>)]_vars

(* a short-circuited request reaches no backend and is not recorded *)
ShortCircuitReachesNoBackend ==
    (pc = "done" /\ status = 503 /\ att = 0 /\ req.path = "/svc") => contacted = <<>>

(* no permit is left outstanding between requests: one record per admitted request *)
OneRecordPerAdmitted == pc = "idle" => pend = <<>>

(* attempts alternate between the two servers, across requests too *)
RoundRobin == \A i \in 1..Len(contacted) - 1 : contacted[i] # contacted[i + 1]

(* stops at the first success *)
StopsAtSuccess == (pc \in {"record", "done"} /\ status = 200) => req.script[att] = "ok"
=============================================================================

---------------------------- MODULE Easegress_Gen ----------------------------
(* Behaviour generator / model-checking wrapper of the request-path composition. *)
EXTENDS Easegress, Json
VARIABLE out
X03Policy == [failT |-> 50, slowT |-> 100, wt |-> "count", wsize |-> 2, minCalls |-> 2, permitted |-> 1,
              waitOpen |-> 1000, maxWaitHO |-> 0]
GInit == Init /\ out = ToJson([pc |-> "init"])
GNext == Next /\ out' = ToJson([pc |-> pc', req |-> req', status |-> status', contacted |-> contacted'])
GSpec == GInit /\ [][GNext]_<<vars, out>>
gview == <<pc, req, status, contacted, att, rlUsed, rr, nreq, pol, state, epoch, transit, win, trials, now, pend, calls>>
=============================================================================

--------------------------- MODULE Easegress_Trace ---------------------------
(* End-to-end trace validation: requests sent through a real mux + real Pipeline (Validator ->    *)
(* RateLimiter -> Proxy with Retry and CircuitBreaker over two real backends) are logged as       *)
(* req / resp pairs; the stages of Easegress run as silent steps in between, and the observed    *)
(* status and the servers that were contacted must be the model's.                              *)
EXTENDS Easegress, Json, TLC, IOUtils
TLog == ndJsonDeserialize(IOEnv.VERIF_TRACE)
VARIABLE l
tvars == <<vars, l>>
X03Policy == [failT |-> 50, slowT |-> 100, wt |-> "count", wsize |-> 2, minCalls |-> 2, permitted |-> 1,
              waitOpen |-> 1000, maxWaitHO |-> 0]

IsEvent(e) == l <= Len(TLog) /\ TLog[l].ev = e /\ l' = l + 1

TReset == /\ IsEvent("reset")
          /\ pc' = "idle" /\ req' = NoReq /\ status' = 0 /\ contacted' = <<>> /\ att' = 0
          /\ rlUsed' = 0 /\ rr' = 0 /\ nreq' = 0
          /\ pol' = X03Policy /\ state' = "closed" /\ epoch' = 1 /\ transit' = 0 /\ win' = <<>> /\ trials' = 0
          /\ now' = 0 /\ pend' = <<>> /\ calls' = 0 /\ last' = [a |-> "init"]
TReq   == IsEvent("req") /\ Arrive(TLog[l].req)
Stage  == (IPFilter \/ Route \/ Validate \/ Limiter \/ Breaker \/ Attempt \/ Record) /\ UNCHANGED l
TResp  == /\ IsEvent("resp") /\ pc = "done"
          /\ status = TLog[l].status
          /\ contacted = TLog[l].contacted
          /\ Respond
TNext == TReset \/ TReq \/ Stage \/ TResp
TSpec == Init /\ l = 1 /\ [][TNext]_tvars

ASSUME TLCSet(1, 0)
HWM == TLCSet(1, IF l - 1 > TLCGet(1) THEN l - 1 ELSE TLCGet(1))
Accepted == /\ PrintT(<<"VERIF_HWM", TLCGet(1), Len(TLog)>>)
            /\ TLCGet(1) = Len(TLog)
=============================================================================

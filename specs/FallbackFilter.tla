----------------------------- MODULE FallbackFilter -----------------------------
(* Extension check X05 (c): the Fallback filter (pkg/filters/fallback) as a decision table.       *)
(*                                                                                                *)
(* Contract (doc/reference/filters.md, Fallback): mockCode "overwrites the status code of the     *)
(* original response", mockHeaders are "added/set to the original response" (so the other headers *)
(* of the original response stay), mockBody "overwrite[s] the body of the original response";     *)
(* result "fallback"; without a response in the context: "responseNotFound" and nothing happens.  *)
(* Reading taken where the text leaves freedom: the body is replaced also by an empty mockBody,   *)
(* Content-Length describes the new body, a streamed original body is closed (it would leak the   *)
(* backend connection otherwise) - this is what the code does.                                    *)
(* Switch KeepOrig = TRUE (contract); FALSE = the header map is replaced by mockHeaders: refuted. *)
EXTENDS Integers, Sequences, FiniteSets

CONSTANTS MaxReqs, KeepOrig

Codes   == {200, 203, 503}
Bodies  == {"", "fallback!"}                 \* the harness maps the names to texts; LenOf gives their lengths
LenOf(b) == IF b = "" THEN 0 ELSE 9
HNames  == {"X-Orig", "X-Over", "X-New", "Content-Length"}
Absent  == "-"
(* mockHeaders: any subset of {X-Over: new, X-New: n} *)
MockHdrSets == SUBSET {"X-Over", "X-New"}
MockVal(h)  == IF h = "X-Over" THEN "new" ELSE "n"
Cfgs    == [code : Codes, hdrs : MockHdrSets, body : Bodies]
(* the response the filter finds: none / a buffered one / a streamed one; both carry the same head *)
Inputs  == {"none", "plain", "stream"}
OrigHdr == [h \in HNames |-> CASE h = "X-Orig" -> "1" [] h = "X-Over" -> "old" [] h = "Content-Length" -> "7" [] OTHER -> Absent]
OrigCode == 502
Str(nn) == CASE nn = 0 -> "0" [] nn = 9 -> "9" [] OTHER -> "?"

VARIABLES cfg, n, last
vars == <<cfg, n, last>>
view == <<cfg, last>>
NoCfg == [code |-> 0, hdrs |-> {}, body |-> ""]

Init == cfg = NoCfg /\ n = 0 /\ last = [a |-> "init"]
Configure(c) == cfg = NoCfg /\ cfg' = c /\ last' = [a |-> "configure", cfg |-> c] /\ UNCHANGED n

NewHdr(c) == [h \in HNames |->
                 IF h \in c.hdrs THEN MockVal(h)
                 ELSE IF h = "Content-Length" THEN Str(LenOf(c.body))
                 ELSE IF KeepOrig THEN OrigHdr[h] ELSE Absent]
(* Fallback.Handle *)
Handle(inp) ==
    /\ cfg # NoCfg /\ n < MaxReqs /\ n' = n + 1 /\ UNCHANGED cfg
    /\ last' = IF inp = "none"
               THEN [a |-> "handle", inp |-> inp, result |-> "responseNotFound", code |-> 0, hdr |-> OrigHdr, body |-> "", closed |-> FALSE]
               ELSE [a |-> "handle", inp |-> inp, result |-> "fallback", code |-> cfg.code, hdr |-> NewHdr(cfg), body |-> cfg.body,
                     closed |-> (inp = "stream")]
Next == (\E c \in Cfgs : Configure(c)) \/ (\E i \in Inputs : Handle(i))
Spec == Init /\ [][Next]_vars

-----------------------------------------------------------------------------
H == last.a = "handle"
ResultDocumented == H => (last.result = "fallback" <=> last.inp # "none") /\ (last.result = "responseNotFound" <=> last.inp = "none")
StatusIsMock     == H /\ last.inp # "none" => last.code = cfg.code
BodyIsMock       == H /\ last.inp # "none" => last.body = cfg.body /\ last.hdr["Content-Length"] = Str(LenOf(cfg.body))
MockHeadersSet   == H /\ last.inp # "none" => \A h \in cfg.hdrs : last.hdr[h] = MockVal(h)
OrigHeadersKept  == H /\ last.inp # "none" => \A h \in HNames \ (cfg.hdrs \cup {"Content-Length"}) : last.hdr[h] = OrigHdr[h]
StreamClosed     == H => (last.closed <=> last.inp = "stream")
=============================================================================

--------------------------- MODULE FallbackFilter_Gen ---------------------------
(* Generator wrapper for X05 (c). *)
EXTENDS FallbackFilter, Json
VARIABLE out
GInit == Init /\ out = ToJson([a |-> "init"])
GNext == Next /\ out' = ToJson(last')
GSpec == GInit /\ [][GNext]_<<vars, out>>
=============================================================================

------------------------------ MODULE HeaderLookup ------------------------------
(* Growth item X06 (b): the HeaderLookup filter - cluster store + syncer + watcher + LRU cache +   *)
(* requests - one action per critical section of pkg/filters/headerlookup/headerlookup.go.         *)
(*                                                                                                *)
(*   Put / Del      somebody writes the store (admin API / custom data); the syncer               *)
(*                  (cluster.Syncer.SyncPrefix) pulls and queues a snapshot for the watcher       *)
(*   Deliver        the watcher goroutine of watchChanges takes one snapshot and removes cache    *)
(*                  entries (findKeysToDelete + cache.Remove)                                     *)
(*   Req            Handle with a cache hit, with no header, or a miss whose two halves are not   *)
(*                  interleaved with anything                                                     *)
(*   ReqStart       Handle, miss: lookup() has read the store (cluster.Get returned) ...          *)
(*   ReqFill        ... and now adds the result to the cache and sets the headers                 *)
(*   Reload         a new generation (Inherit = Init: empty cache, new syncer), the old one closed *)
(*                                                                                                *)
(* The contract (what a pipeline author relies on; the documentation only says that the values     *)
(* come from etcd - the code's evident intent, watchChanges / findKeysToDelete, is a cache that is  *)
(* invalidated when the stored item changes):                                                       *)
(*   Fresh        a request never gets a value older than the newest one the filter had been told  *)
(*                about (by a delivered snapshot) before the request started: `floor` is the        *)
(*                version of every key in the newest delivered snapshot, a request returns a        *)
(*                version in [floor at its start, current].  Hence after quiescence (all snapshots  *)
(*                delivered) every request sees the current value; a value that was never stored    *)
(*                for the key is never returned; missing key / item / malformed item -> untouched.  *)
(*   QuiescentCoherent  the same on the cache: with no snapshot pending and no request in flight    *)
(*                every cache entry is the current version of its key.                              *)
(* Design choices (constants):                                                                      *)
(*   Invalidate   "flush": what the code does - findKeysToDelete compares the new value (a string) *)
(*                with the cached one (a map) through `!=` on interface values, which is always     *)
(*                true, so every snapshot empties the cache; "precise": what findKeysToDelete means *)
(*                to do; "none": the negative control, refuted by TLC.                              *)
(*   Fill         "twostep": the code - lookup() reads the store and adds to the cache in two       *)
(*                steps, and the watcher can run in between: the snapshot that reports a change     *)
(*                finds nothing to remove, then the old value is cached and stays (refuted by TLC:   *)
(*                ReqStart Put Deliver ReqFill Req; reproduced on the real code, finding            *)
(*                headerlookup-fill-races-invalidation).  "atomic": the ideal the contract          *)
(*                describes.  "guarded": the proposed repair (fixes/headerlookup-cache-fill-race.diff): *)
(*                the watcher counts the snapshots it has processed (`epoch`), a lookup remembers    *)
(*                the count before it reads the store and skips the cache.Add when it has moved.     *)
EXTENDS HeaderLookupDefs

CONSTANTS MaxOps, CacheCap, Invalidate, Fill, HVs, PCs, Regexes, Pfxs,
          PutClasses    \* item classes that are written (a subset of Classes)

Keys == HVs \X (PCs \cup {""})
Ids == {1, 2}

VARIABLES cfg,      \* [regex, pfx]: pathRegExp configured?, class of the etcdPrefix spelling (no influence on the contract)
          hist,     \* the store, as its history (HeaderLookupDefs)
          syncQ,    \* snapshots the syncer has sent and the watcher has not taken yet: store-operation counts
          cache,    \* LRU order, oldest first: sequence of [k, v]  (key, version the entry was made from)
          pending,  \* requests between ReqStart and ReqFill: id -> [k, rd, floor0, pre, ep]
          epoch,    \* snapshots processed by the watcher (only "guarded" looks at it)
          floor,    \* contract state: version of every key in the newest delivered snapshot
          ops, last
vars == <<cfg, hist, syncQ, cache, pending, epoch, floor, ops, last>>
view == <<cfg, hist, syncQ, cache, pending, epoch, floor, ops>>

NoPend == [k |-> <<"", "">>, rd |-> -1, floor0 |-> 0, pre |-> FALSE, ep |-> 0]
Init == /\ cfg \in [regex : Regexes, pfx : Pfxs]
        /\ hist = <<>> /\ syncQ = <<>> /\ cache = <<>>
        /\ pending = [i \in Ids |-> NoPend]
        /\ floor = [k \in Keys |-> 0] /\ epoch = 0
        /\ ops = 0 /\ last = [a |-> "init"]

Step == ops < MaxOps /\ ops' = ops + 1
InCache(k) == \E i \in 1..Len(cache) : cache[i].k = k
EntryOf(k) == cache[CHOOSE i \in 1..Len(cache) : cache[i].k = k]
Without(k) == SelectSeq(cache, LAMBDA e : e.k # k)
(* lru.Add: replaces / moves to the young end, evicts the oldest beyond the capacity *)
Added(k, v) == LET c == Append(Without(k), [k |-> k, v |-> v]) IN
               IF Len(c) > CacheCap THEN Tail(c) ELSE c
Touched(k) == Append(Without(k), EntryOf(k))
NoneInFlight == \A i \in Ids : pending[i] = NoPend

(* ---- the store and its syncer *)
Write(k, cls) ==
    /\ Step
    /\ hist' = Append(hist, [k |-> k, cls |-> cls])
    /\ syncQ' = Append(syncQ, Len(hist) + 1)      \* the watch event makes the syncer pull; the data differ, it sends
    /\ last' = [a |-> IF cls = "absent" THEN "del" ELSE "put", k |-> k, cls |-> cls, n |-> Len(hist) + 1]
    /\ UNCHANGED <<cfg, cache, pending, epoch, floor>>
Put(k, cls) == Write(k, cls)
Del(k) == ClsOf(hist, CurVer(hist, k)) # "absent" /\ Write(k, "absent")

(* ---- the watcher *)
Deliver ==
    /\ Step /\ syncQ # <<>>
    /\ LET i == Head(syncQ) IN
       /\ cache' = CASE Invalidate = "flush" -> <<>>
                     [] Invalidate = "precise" -> SelectSeq(cache, LAMBDA e : e.v = VerAt(hist, e.k, i))
                     [] OTHER -> cache
       /\ floor' = [k \in Keys |-> IF VerAt(hist, k, i) > floor[k] THEN VerAt(hist, k, i) ELSE floor[k]]
       /\ last' = [a |-> "deliver", upto |-> i]
    /\ syncQ' = Tail(syncQ) /\ epoch' = epoch + 1
    /\ UNCHANGED <<cfg, hist, pending>>

(* ---- requests *)
Req(hv, pc, pre) ==
    /\ Step
    /\ LET k == KeyOf(cfg, hv, pc) IN
       IF hv = ""
       THEN /\ last' = [a |-> "req", hv |-> hv, pc |-> pc, pre |-> pre, hit |-> FALSE, rv |-> -1, floor0 |-> 0, exp |-> Untouched(pre)]
            /\ UNCHANGED cache
       ELSE IF InCache(k)
       THEN /\ last' = [a |-> "req", hv |-> hv, pc |-> pc, pre |-> pre, hit |-> TRUE, rv |-> EntryOf(k).v, floor0 |-> floor[k],
                        exp |-> Headers(hist, EntryOf(k).v, pre)]
            /\ cache' = Touched(k)
       ELSE LET v == CurVer(hist, k) IN
            /\ last' = [a |-> "req", hv |-> hv, pc |-> pc, pre |-> pre, hit |-> FALSE, rv |-> v, floor0 |-> floor[k], exp |-> Headers(hist, v, pre)]
            /\ cache' = IF Cacheable(hist, v) THEN Added(k, v) ELSE cache
    /\ UNCHANGED <<cfg, hist, syncQ, pending, epoch, floor>>

ReqStart(id, hv, pc, pre) ==
    /\ Fill # "atomic" /\ Step /\ hv # "" /\ pending[id] = NoPend
    /\ LET k == KeyOf(cfg, hv, pc) IN
       /\ ~InCache(k)
       /\ pending' = [pending EXCEPT ![id] = [k |-> k, rd |-> CurVer(hist, k), floor0 |-> floor[k], pre |-> pre, ep |-> epoch]]
       /\ last' = [a |-> "reqstart", id |-> id, hv |-> hv, pc |-> pc, pre |-> pre]
    /\ UNCHANGED <<cfg, hist, syncQ, cache, epoch, floor>>

ReqFill(id) ==
    /\ Step /\ pending[id] # NoPend
    /\ LET p == pending[id] IN
       /\ cache' = IF Cacheable(hist, p.rd) /\ (Fill = "guarded" => p.ep = epoch) THEN Added(p.k, p.rd) ELSE cache
       /\ last' = [a |-> "reqfill", id |-> id, hit |-> FALSE, rv |-> p.rd, floor0 |-> p.floor0, exp |-> Headers(hist, p.rd, p.pre)]
    /\ pending' = [pending EXCEPT ![id] = NoPend]
    /\ UNCHANGED <<cfg, hist, syncQ, epoch, floor>>

(* ---- a new generation: Init again (empty cache, a new syncer whose first pull sends the data if there are any) *)
Reload ==
    /\ Step /\ NoneInFlight
    /\ cache' = <<>>
    /\ syncQ' = IF \E k \in Keys : ClsOf(hist, CurVer(hist, k)) # "absent" THEN <<Len(hist)>> ELSE <<>>
    /\ last' = [a |-> "reload"] /\ epoch' = 0
    /\ UNCHANGED <<cfg, hist, pending, floor>>

Next == \/ \E k \in Keys, c \in PutClasses : Put(k, c)
        \/ \E k \in Keys : Del(k)
        \/ Deliver
        \/ \E hv \in HVs \cup {""}, pc \in PCs \cup {"none"}, pre \in BOOLEAN : Req(hv, pc, pre)
        \/ \E id \in Ids, hv \in HVs, pc \in PCs \cup {"none"}, pre \in BOOLEAN : ReqStart(id, hv, pc, pre)
        \/ \E id \in Ids : ReqFill(id)
        \/ Reload
Spec == Init /\ [][Next]_vars

-----------------------------------------------------------------------------
TypeOK == /\ \A i \in 1..Len(cache) : cache[i].k \in Keys /\ cache[i].v \in VersionsOf(hist, cache[i].k)   \* never a value of another key
          /\ \A i, j \in 1..Len(cache) : i # j => cache[i].k # cache[j].k
          /\ Len(cache) <= CacheCap
OnlyFoundItemsCached == \A i \in 1..Len(cache) : Cacheable(hist, cache[i].v)
QuiescentCoherent == (syncQ = <<>> /\ NoneInFlight) => \A i \in 1..Len(cache) : cache[i].v = CurVer(hist, cache[i].k)
FloorIsDelivered == \A k \in Keys : floor[k] <= CurVer(hist, k)
(* the contract on what a request returns (an action property: `last` is an observation variable, outside the VIEW) *)
Fresh == [][(last'.a \in {"req", "reqfill"} /\ last'.rv >= 0) => last'.rv >= last'.floor0]_vars
MissingPassesUntouched == [][(last'.a \in {"req", "reqfill"} /\ (last'.rv < 0 \/ ~Cacheable(hist, last'.rv))) =>
                               \E pre \in BOOLEAN : last'.exp = Untouched(pre)]_vars
=============================================================================

---------------------------- MODULE HeaderLookupDefs ----------------------------
(* Growth item X06 (b): definitions shared by the HeaderLookup model (HeaderLookup.tla) and the    *)
(* contract-only trace specification (HeaderLookup_Trace.tla). No variables.                        *)
(*                                                                                                *)
(* The filter (pkg/filters/headerlookup) takes the value hv of the request header `headerKey`,     *)
(* appends "-" + the first group of pathRegExp when the expression is configured and matches the   *)
(* path, reads the custom-data item stored under that key and copies the item's fields named by    *)
(* headerSetters into request headers.                                                             *)
(*                                                                                                *)
(* A lookup key is the pair <<hv, suffix>> (the string hv, or hv "-" suffix).  The store is        *)
(* described by its history: hist[n] = [k, cls] says that the n-th store operation wrote key k;    *)
(* cls is the class of the item written: "full" (fields f1 f2 f3), "partial" (f2 f3), "bad" (the   *)
(* value is not a YAML map) or "absent" (the operation was a delete).  Every written value is      *)
(* unique (it carries n), so a header value observed on the real code identifies the version it    *)
(* came from.  Version 0 of every key is "never written".                                         *)
(* Setters: f1 -> X-H1, f2 -> X-H2, f4 -> X-H4 (no item has f4).                                    *)
EXTENDS Integers, Sequences, FiniteSets

Classes == {"full", "partial", "bad"}

(* path classes: "none" = the path does not match pathRegExp; otherwise the text of group 1 *)
KeyOf(cfg, hv, pc) == IF cfg.regex /\ pc # "none" THEN <<hv, pc>> ELSE <<hv, "">>

VersionsOf(hist, k) == {i \in 1..Len(hist) : hist[i].k = k}
MaxS(S) == IF S = {} THEN 0 ELSE CHOOSE x \in S : \A y \in S : y <= x
(* the version of k after the first i store operations *)
VerAt(hist, k, i) == MaxS({j \in VersionsOf(hist, k) : j <= i})
CurVer(hist, k) == VerAt(hist, k, Len(hist))
ClsOf(hist, v) == IF v = 0 THEN "absent" ELSE hist[v].cls
Cacheable(hist, v) == ClsOf(hist, v) \in {"full", "partial"}      \* lookup() succeeded: a YAML map was found

(* what the request headers X-H1, X-H2 must be after Handle when the lookup yields version v;    *)
(* pre = the request already carried X-H1: old (a setter replaces it, a failed lookup keeps it)   *)
None == [t |-> "none", n |-> 0, f |-> ""]
Old  == [t |-> "old", n |-> 0, f |-> ""]
Val(v, fld) == [t |-> "val", n |-> v, f |-> fld]
Headers(hist, v, pre) ==
    LET c == ClsOf(hist, v) IN
    [h1 |-> IF c = "full" THEN Val(v, "f1") ELSE IF pre THEN Old ELSE None,
     h2 |-> IF c \in {"full", "partial"} THEN Val(v, "f2") ELSE None]
Untouched(pre) == [h1 |-> IF pre THEN Old ELSE None, h2 |-> None]
=============================================================================

---------------------------- MODULE HeaderLookup_Gen ----------------------------
(* Generator wrapper of HeaderLookup.                                                             *)
(*   GSpec    : Next, `out` = the step just taken as JSON (exhaustive checking and counterexamples) *)
(*   GSimSpec : the same steps chosen with weights (TLC -simulate) so that deliveries, gated         *)
(*              requests, their second halves and reloads are as frequent as writes and requests.    *)
EXTENDS HeaderLookup, Json, TLC
VARIABLE out
GInit == Init /\ out = ToJson([a |-> "init", cfg |-> cfg])
GNext == Next /\ out' = ToJson(last')
GSpec == GInit /\ [][GNext]_<<vars, out>>

AnyReq == \E hv \in HVs \cup {""}, pc \in PCs \cup {"none"}, pre \in BOOLEAN : Req(hv, pc, pre)
(* requests for keys that exist or existed are preferred: they are the interesting ones *)
Written == {k \in Keys : VersionsOf(hist, k) # {}}
ReqWritten == \E hv \in HVs, pc \in PCs \cup {"none"}, pre \in BOOLEAN : KeyOf(cfg, hv, pc) \in Written /\ Req(hv, pc, pre)
StartWritten == \E id \in Ids, hv \in HVs, pc \in PCs \cup {"none"}, pre \in BOOLEAN : KeyOf(cfg, hv, pc) \in Written /\ ReqStart(id, hv, pc, pre)
AnyFill == \E id \in Ids : ReqFill(id)
Usable == {k \in Keys : cfg.regex \/ k[2] = ""}          \* keys some request can ask for
SimStep(n) ==
    CASE n <= 20 -> \E k \in Usable, c \in PutClasses : Put(k, c)
      [] n <= 24 -> \E k \in Keys, c \in PutClasses : Put(k, c)
      [] n <= 30 -> IF ENABLED (\E k \in Keys : Del(k)) THEN \E k \in Keys : Del(k) ELSE AnyReq
      [] n <= 46 -> IF syncQ # <<>> THEN Deliver ELSE AnyReq
      [] n <= 62 -> IF ENABLED ReqWritten THEN ReqWritten ELSE AnyReq
      [] n <= 68 -> AnyReq
      [] n <= 82 -> IF ENABLED StartWritten THEN StartWritten ELSE AnyReq
      [] n <= 97 -> IF ENABLED AnyFill THEN AnyFill ELSE IF syncQ # <<>> THEN Deliver ELSE AnyReq
      [] OTHER   -> IF NoneInFlight THEN Reload ELSE AnyFill
GSimNext == SimStep(RandomElement(1..100)) /\ out' = ToJson(last')
GSimSpec == GInit /\ [][GSimNext]_<<vars, out>>
=============================================================================
